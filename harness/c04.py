"""C04 — an operation that raises leaves every pre-existing object unchanged."""
import inst_check

ASSUMPTIONS = [
    "ways of failing exercised: ill-typed value at each argument position, missing index/key/element, unknown keyword, a user callback (transform, attribute transform, preparer, item preparer, default factory, __post_init__, __post_copy__) raising at its 1st..3rd invocation",
    "validators of validated(...)/bounded(...) attribute, element and key types (raising at their 1st..6th invocation within the operation, or no longer accepting a stored value) are exercised on the implementation only (harness/c04_validated.py): the instance model has no validated types",
    "KeyedList/KeyedSet-typed attributes are covered by C13/C14, not by this model",
    "a transform handing back a DIFFERENT existing instance (the model's callbacks only allocate) together with attribute transforms is exercised on the implementation only (harness/c04_replacement.py), as are replacement instances + keywords on the classes outside the model",
    "preparers that resolve a name to an EXISTING object (element of the receiver's own container, registry object) and late failures (copy hooks, dependant preparers / factories) on receivers with EMPTY KeyedList / KeyedSet / List[spec] containers are exercised on the implementation only (harness/c04_existing.py); empty int list / dict / set with a raising __post_copy__ also through the model (inst_gen.empty_container_cases)",
    "open findings (KNOWN_FINDINGS.json): multi-keyword update/transform with _inplace=True",
]
GENS = [
    (4, dict(bad_rate=0.4, inplace_rate=0.6, fail_rate=0.3)),
    (2, dict(bad_rate=0.4, inplace_rate=0.0, fail_rate=0.3)),
    (1, dict(bad_rate=0.4, inplace_rate=0.5, fail_rate=0.3, flavour="frozen")),
    # a plain (undecorated) subclass overriding defaults by class attributes
    (1, dict(bad_rate=0.4, inplace_rate=0.6, fail_rate=0.3, flavour="plain")),
    # Union[int, str] and Optional[spec] attributes
    (1, dict(bad_rate=0.4, inplace_rate=0.6, fail_rate=0.3, flavour="wide")),
    # nested spec values reached through update_/transform_<attr> and the element helpers with
    # several nested keywords, the failing one after correct ones
    (3, dict(bad_rate=0.5, inplace_rate=0.7, fail_rate=0.3, prefer_nested=True,
             weights={"construct": 1, "scalar": 6, "item": 5, "top": 1})),
    # writes to an attribute whose dependants are reset through a default factory that may raise
    (2, dict(bad_rate=0.1, inplace_rate=0.8, fail_rate=0.6, flavour="inv_factory",
             weights={"construct": 1, "setattr": 4, "delattr": 1, "scalar": 6, "item": 1, "top": 2})),
]


def main(tier, replay=None):
    if replay:
        return inst_check.replay("C04", replay, 16)
    return inst_check.run("C04", tier, 16, GENS, 450, 7000, ASSUMPTIONS)


# ---------------------------------------------------------------------------
# KeyedList / KeyedSet-typed attributes are outside the instance model; their
# containers are proved in C13/C14.  Here the composition is explored on the
# implementation only: an element helper that raises must leave the holder's
# keyed containers (list view AND key index) exactly as they were.
def keyed_attributes(chk, cases, bad, extra):
    from typing import Optional

    from spec_classes import Attr, spec_class
    from spec_classes.types import KeyedList, KeyedSet

    @spec_class(key="k")
    class Item:
        k: str
        v: int = 0

    @spec_class
    class Holder:
        items: KeyedList[Item, str] = Attr(default_factory=KeyedList)
        tags: KeyedSet[Item, str] = Attr(default_factory=KeyedSet)
        n: Optional[int] = None

    def snap(h):
        out = []
        for name in ("items", "tags"):
            c = h.__dict__.get(name)
            if c is None:
                out.append(None)
                continue
            lst = [(id(x), x.k, x.v) for x in getattr(c, "_list", [])]
            out.append((id(c), lst, sorted((k, id(v), v.k, v.v) for k, v in c._dict.items())))
        return out

    def boom(_):
        raise RuntimeError("callback raises")
    rng = chk.rng
    keys = ["a", "b", "c", "d"]
    n = 400 if chk.tier == "quick" else 6000
    tried = failed_ops = 0
    for _ in range(n):
        ks = rng.sample(keys, rng.choice([1, 2, 3]))
        h = Holder(items=[Item(k, v=i) for i, k in enumerate(ks)], tags=[Item(k, v=i) for i, k in enumerate(ks)])
        inplace = rng.random() < 0.7
        idx = rng.choice([0, 1, -1, 2, 5])
        dup = Item(rng.choice(ks), v=9)
        new = Item(rng.choice(keys), v=7)
        op = rng.choice([
            ("with_item(dup, _index)", lambda: h.with_item(dup, _index=idx, _inplace=inplace)),
            ("with_item(new, _index)", lambda: h.with_item(new, _index=idx, _inplace=inplace)),
            ("with_item(new, _index, _insert)", lambda: h.with_item(new, _index=idx, _insert=True, _inplace=inplace)),
            ("with_item(new, _index=<key>, _insert)", lambda: h.with_item(new, _index=rng.choice(ks), _insert=True, _inplace=inplace)),
            ("with_item(new, _index=<key>)", lambda: h.with_item(new, _index=rng.choice(ks), _inplace=inplace)),
            ("with_item(new, _index=None, _insert)", lambda: h.with_item(new, _index=None, _insert=True, _inplace=inplace)),
            ("with_item(key)", lambda: h.with_item(rng.choice(keys), _inplace=inplace)),
            ("with_item(ill-typed)", lambda: h.with_item(3, _inplace=inplace)),
            ("update_item(idx, dup)", lambda: h.update_item(idx, dup, _by_index=True, _inplace=inplace)),
            ("update_item(key, v=bad)", lambda: h.update_item(rng.choice(keys), v="x", _inplace=inplace)),
            ("update_item(key, k=dup)", lambda: h.update_item(ks[0], k=rng.choice(ks), _inplace=inplace)),
            ("transform_item(key, raising)", lambda: h.transform_item(rng.choice(keys), boom, _inplace=inplace)),
            ("transform_item(key, v=raising)", lambda: h.transform_item(rng.choice(ks), v=boom, _inplace=inplace)),
            ("without_item(key)", lambda: h.without_item(rng.choice(keys), _inplace=inplace)),
            ("with_tag(dup)", lambda: h.with_tag(dup, _inplace=inplace)),
            ("with_tag(ill-typed)", lambda: h.with_tag(3, _inplace=inplace)),
            ("update_tag(key, v=bad)", lambda: h.update_tag(rng.choice(keys), v="x", _inplace=inplace)),
            ("transform_tag(key, raising)", lambda: h.transform_tag(rng.choice(keys), boom, _inplace=inplace)),
            ("without_tag(key)", lambda: h.without_tag(rng.choice(keys), _inplace=inplace)),
        ])
        before = snap(h)
        tried += 1
        try:
            op[1]()
        except BaseException as e:
            if isinstance(e, (KeyboardInterrupt, SystemExit)):
                raise
            failed_ops += 1
            after = snap(h)
            if after != before:
                chk.violation(
                    f"element helper {op[0]} (_inplace={inplace}) raised {type(e).__name__} and left the holder's keyed container changed",
                    {"holder_items": ks, "op": op[0], "inplace": inplace, "index": idx, "before": before, "after": after},
                    sig={"kind": "keyed-attribute", "op": op[0]})
                break
    extra["keyed_attributes"] = {"operations": tried, "raised": failed_ops,
                                 "rule": "implementation only: KeyedList/KeyedSet attributes of keyed spec items, element helpers with duplicate keys, ill-typed items, missing targets, raising transforms; oracle: list view and key index unchanged after an exception"}


def _post(chk, cases, bad, extra):
    import keyed_explore
    keyed_attributes(chk, cases, bad, extra)
    keyed_explore.explore(chk, extra, "C04")
    import wide_explore
    wide_explore.explore(chk, extra, "C04")
    # validated(...)/bounded(...) attribute and element types: the validator is a user callback
    # inside every type check; it raises at its n-th invocation or stops accepting a stored value
    import c04_validated
    c04_validated.explore(chk, extra, "C04")
    # an existing instance handed over as replacement / value / element together with several
    # keywords, the rejected one after an accepted one -- on the classes outside the model
    import c04_replacement
    c04_replacement.explore(chk, extra, "C04")
    # preparers resolving a name to an object the receiver / a registry ALREADY holds + nested keywords;
    # copy-on-write element helpers on EMPTY containers with a failure in the closing step of the call
    import c04_existing
    c04_existing.explore(chk, extra, "C04")


def _aimed(rng, t):
    quick = t == "quick"
    import inst_gen as ig
    n = 200 if quick else 4000
    # elements with known contents; then an existing instance (a root the caller keeps) handed
    # over as the complete replacement / nested value / element TOGETHER with >= 2 keywords, an
    # accepted one before the rejected one: the keywords go into a copy, never into the caller's object
    # copy-on-write with_<item> on a receiver whose collection is EMPTY, a callback of the closing step
    # (__post_copy__ of the receiver, factory / preparer of a dependant reset on the copy) raising
    return (ig.element_cases(rng, 420 if quick else 8000)
            + ig.empty_container_cases(rng, 70 if quick else 1500)
            + ig.replacement_cases(rng, n * 7 // 10, inplace_values=(False, False, True))
            + ig.replacement_cases(rng, n * 3 // 20, inplace_values=(False, False, True), flavour="wide")
            + ig.replacement_cases(rng, n * 3 // 20, inplace_values=(False, False, True), flavour="plain"))


def _probe_replay(path):
    import json
    try:
        with open(path) as fh:
            return json.load(fh).get("kind") == "validated-zoo"
    except (OSError, ValueError, AttributeError):
        return False


def main(tier, replay=None):  # noqa: F811
    if replay and _probe_replay(replay):
        import c04_validated
        return c04_validated.replay("C04", replay)
    if replay:
        import c04_replacement
        if c04_replacement.is_replay(replay):
            return c04_replacement.replay("C04", replay)
        import c04_existing
        if c04_existing.is_replay(replay):
            return c04_existing.replay("C04", replay)
        return inst_check.replay("C04", replay, 16)
    return inst_check.run("C04", tier, 16, GENS, 450, 7000, ASSUMPTIONS, post=_post, aimed=_aimed)
