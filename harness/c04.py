"""C04 — an operation that raises leaves every pre-existing object unchanged."""
import inst_check

ASSUMPTIONS = [
    "ways of failing exercised: ill-typed value at each argument position, missing index/key/element, unknown keyword, a user callback (transform, attribute transform, preparer, item preparer, default factory, __post_init__, __post_copy__) raising at its 1st..3rd invocation",
    "KeyedList/KeyedSet-typed attributes are covered by C13/C14, not by this model",
    "open findings (KNOWN_FINDINGS.json): multi-keyword update/transform with _inplace=True",
]
GENS = [
    (4, dict(bad_rate=0.4, inplace_rate=0.6, fail_rate=0.3)),
    (2, dict(bad_rate=0.4, inplace_rate=0.0, fail_rate=0.3)),
    (1, dict(bad_rate=0.4, inplace_rate=0.5, fail_rate=0.3, flavour="frozen")),
]


def main(tier, replay=None):
    if replay:
        return inst_check.replay("C04", replay, 16)
    return inst_check.run("C04", tier, 16, GENS, 450, 7000, ASSUMPTIONS)
