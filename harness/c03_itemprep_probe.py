"""C03, implementation-level probe: ITEM PREPARERS that turn a CONFORMING element into a
NON-conforming one (probe, not Coq evaluation).

A `List[...]` / `Dict[...]` / `Set[...]` / `KeyedList[...]` attribute with `_prepare_<item>` is
handed, on every whole-value route (constructor keyword, `obj.attr = v`, with_<attr>, update_<attr>,
transform_<attr> with a constant and with a function of the held value, top-level update /
transform, nested keywords and dict casting through an outer holder, default factories restored by
del / reset_<attr> / reset) and every element helper (with_/update_/transform_<item>, index /
insert / key / element addressing), copy and in place, through a spec subclass, an eager class and a
class that also has an attribute preparer, values whose elements ALL CONFORM to the declared
element type -- but some of them are *triggers*: the item preparer maps them to `None`, a scalar of
the wrong class, a float or a nested list / tuple.  Whole values arrive as the attribute's own
container class (already conforming: the library keeps the container and normalises its items
where they are) and as tuple / generator / other containers (rebuilt item by item).

ORACLE (the property statement itself, not the library's check_type and not Coq): after every
operation, returned or raised, every managed attribute of every live instance (receivers, results,
outer holders and what they hold) either has no value or conforms to its annotation -- container
class, every element, every key -- judged by `why_not` below."""
import itertools

STR, INT = "str", "int"
COLL = {  # attribute -> (container, key type or None, element type)
    "tags": ("list", None, STR),
    "nums": ("list", None, INT),
    "scores": ("dict", STR, INT),
    "names": ("set", None, STR),
    "ktags": ("klist", STR, STR),
}
ITEM_NAME = {"tags": "tag", "nums": "num", "scores": "score", "names": "name", "ktags": "ktag"}
SHAPES = ["plain", "eager", "sub", "attrprep", "factory", "frozen"]
# conforming inputs the item preparers map to ill-typed outputs (hashable outputs for set / keyed)
TRIG = {
    STR: {" ": None, "#": 7, "[": ["x"], ".": 2.5, "(": ("x",)},
    INT: {0: None, -1: "m", 99: [1], 50: 2.5, 77: (1,)},
}
GOOD = {STR: ["a", " B ", "c", "dd", "E"], INT: [1, 2, 3, 40, -5]}
_ZOO = {}


def prep_str(x):
    if isinstance(x, str):
        return TRIG[STR][x] if x in TRIG[STR] else x.strip().lower()
    return x


def prep_int(x):
    if type(x) is int and x in TRIG[INT]:
        return TRIG[INT][x]
    return x


def build(shape):
    if shape in _ZOO:
        return _ZOO[shape]
    from typing import Dict, List, Optional, Set

    from spec_classes import Attr, spec_class
    from spec_classes.types import KeyedList

    def deco(**kw):
        if shape == "eager":
            kw["bootstrap"] = True
        return spec_class(**kw)

    class Preps:
        def _prepare_tag(self, x):
            return prep_str(x)

        def _prepare_num(self, x):
            return prep_int(x)

        def _prepare_score(self, x):
            return prep_int(x)

        def _prepare_name(self, x):
            return prep_str(x)

        def _prepare_ktag(self, x):
            return prep_str(x)

    if shape in ("plain", "eager", "frozen"):
        @deco(frozen=shape == "frozen")
        class Box(Preps):
            tags: List[str]
            nums: List[int]
            scores: Dict[str, int]
            names: Set[str]
            ktags: KeyedList[str, str]
            n: int = 0
    elif shape == "attrprep":
        @deco()
        class Box(Preps):
            tags: List[str]
            nums: List[int]
            scores: Dict[str, int]
            names: Set[str]
            ktags: KeyedList[str, str]
            n: int = 0

            def _prepare_tags(self, xs):
                return xs

            def _prepare_nums(self, xs):
                return list(xs) if isinstance(xs, (list, tuple)) else xs

            def _prepare_scores(self, xs):
                return xs

            def _prepare_names(self, xs):
                return xs
    elif shape == "sub":
        @deco()
        class BoxBase:
            tags: List[str]
            scores: Dict[str, int]
            n: int = 0

            def _prepare_tag(self, x):
                return prep_str(x)

            def _prepare_score(self, x):
                return prep_int(x)

        @deco()
        class Box(BoxBase):
            nums: List[int]
            names: Set[str]
            ktags: KeyedList[str, str]

            def _prepare_num(self, x):
                return prep_int(x)

            def _prepare_name(self, x):
                return prep_str(x)

            def _prepare_ktag(self, x):
                return prep_str(x)
    elif shape == "factory":        # conforming defaults that contain a trigger
        @deco()
        class Box(Preps):
            tags: List[str] = Attr(default_factory=lambda: ["a", " "])
            nums: List[int] = Attr(default_factory=lambda: [0, 1])
            scores: Dict[str, int] = Attr(default_factory=lambda: {"x": 1, "y": -1})
            names: Set[str] = Attr(default_factory=lambda: {"a", "#"})
            ktags: KeyedList[str, str] = Attr(default_factory=lambda: KeyedList[str, str](["a", "."]))
            n: int = 0
    else:
        raise AssertionError(shape)

    @deco()
    class Outer:
        box: Box
        obox: Optional[Box] = None
        n: int = 0

    z = {"Box": Box, "Outer": Outer, "KeyedList": KeyedList, "shape": shape}
    _ZOO[shape] = z
    return z


# ---------------------------------------------------------------------------
# reference conformance (from the property text)
def scalar_ok(v, ty):
    return isinstance(v, str) if ty == STR else isinstance(v, int)


def why_not(v, ann, z):
    kind, kty, ety = ann
    if kind == "list":
        if not isinstance(v, list):
            return "class"
        return None if all(scalar_ok(e, ety) for e in v) else "elem"
    if kind == "set":
        if not isinstance(v, set):
            return "class"
        return None if all(scalar_ok(e, ety) for e in v) else "elem"
    if kind == "dict":
        if not isinstance(v, dict):
            return "class"
        if not all(scalar_ok(k, kty) for k in v):
            return "key"
        return None if all(scalar_ok(e, ety) for e in v.values()) else "elem"
    if kind == "klist":
        if not isinstance(v, z["KeyedList"]):
            return "class"
        elems = list(v._list) + list(v._dict.values()) + list(iter(v))
        if not all(scalar_ok(e, ety) for e in elems):
            return "elem"
        return None if all(scalar_ok(k, kty) for k in v._dict) else "key"
    raise AssertionError(ann)


def invariant(run):
    bad, z = [], run.z
    seen = set()
    todo = list(run.boxes) + list(run.outers)
    while todo:
        o = todo.pop()
        if id(o) in seen:
            continue
        seen.add(id(o))
        d = object.__getattribute__(o, "__dict__")
        if isinstance(o, z["Outer"]):
            for a in ("box", "obox"):
                if a in d:
                    if isinstance(d[a], z["Box"]):
                        todo.append(d[a])
                    elif not (a == "obox" and d[a] is None):
                        bad.append(("Outer", a, "class", repr(d[a])[:120]))
            if "n" in d and not isinstance(d["n"], int):
                bad.append(("Outer", "n", "class", repr(d["n"])[:120]))
            continue
        for a, ann in COLL.items():
            if a in d:
                r = why_not(d[a], ann, z)
                if r:
                    bad.append(("Box", a, r, repr(d[a])[:160]))
        if "n" in d and not isinstance(d["n"], int):
            bad.append(("Box", "n", "class", repr(d["n"])[:120]))
    return bad


# ---------------------------------------------------------------------------
class NoReceiver(Exception):
    pass


class Run:
    def __init__(self, shape):
        self.z = build(shape)
        self.boxes, self.outers = [], []

    def whole(self, attr, spec):
        """materialise a whole value: spec = [container kind, [elements]] (dict: [[key, value], ...])"""
        kind, xs = spec
        if COLL[attr][0] == "dict":
            pairs = [(k, v) for k, v in xs]
            if kind == "own":
                return dict(pairs)
            if kind == "tuple":
                return tuple(pairs)
            if kind == "gen":
                return (p for p in pairs)
            return list(pairs)
        if kind == "own":
            c = COLL[attr][0]
            return list(xs) if c == "list" else set(xs) if c == "set" else self.z["KeyedList"][str, str](xs)
        if kind == "untyped":       # an untyped KeyedList for the keyed attribute, a list otherwise
            return self.z["KeyedList"](xs) if COLL[attr][0] == "klist" else list(xs)
        if kind == "tuple":
            return tuple(xs)
        if kind == "gen":
            return (x for x in xs)
        if kind == "list":
            return list(xs)
        if kind == "set":
            return set(xs)
        raise AssertionError(spec)

    def box(self, i):
        if not self.boxes:
            raise NoReceiver()
        return self.boxes[i % len(self.boxes)]

    def outer(self, i):
        if not self.outers:
            raise NoReceiver()
        return self.outers[i % len(self.outers)]

    def note(self, r):
        if isinstance(r, self.z["Box"]) and not any(r is b for b in self.boxes):
            self.boxes.append(r)
        elif isinstance(r, self.z["Outer"]) and not any(r is b for b in self.outers):
            self.outers.append(r)


GOOD_INIT = {"tags": ["own", ["a", "b"]], "nums": ["own", [1, 2]], "scores": ["own", [["x", 1], ["y", 2]]],
             "names": ["own", ["a", "b"]], "ktags": ["list", ["a", "b"]]}
WHOLE = ["construct", "setattr", "with", "update_attr", "transform_attr", "transform_held", "top_update", "top_transform",
         "top_transform_held", "nested_construct", "nested_with", "nested_update", "nested_cast", "nested_setattr", "nested_opt"]
NO_INPLACE = ("construct", "setattr", "nested_construct", "nested_setattr")
RESTORE = ["delattr", "reset_attr", "reset"]
HELPERS = ["with", "update", "transform"]


def extend_held(cur, attr, extra):
    """a function of the held value: the same container class with the elements of `extra` added"""
    c = COLL[attr][0]
    if c == "dict":
        return dict(cur, **{k: v for k, v in extra})
    if c == "set":
        return set(cur) | set(extra)
    if c == "klist":
        return type(cur)(list(cur) + [x for x in extra if x not in cur])
    return [*cur, *extra]


def apply(run, op):
    z, route, ip = run.z, op["route"], op.get("inplace", False)
    a = op.get("attr")
    if route == "init":
        box = z["Box"](**{k: run.whole(k, v) for k, v in GOOD_INIT.items()})
        run.note(box)
        return z["Outer"](box=box)
    if route == "empty":
        return z["Box"]()
    if route in WHOLE:
        if route.endswith("_held"):
            extra = op["arg"][1]
            fn = lambda cur: extend_held(cur, a, extra)     # noqa: E731
        else:
            arg = run.whole(a, op["arg"])
        if route == "construct":
            kw = {k: run.whole(k, v) for k, v in GOOD_INIT.items() if k != a and op.get("full", True)}
            return z["Box"](**dict(kw, **{a: arg}))
        if route == "nested_construct":
            return z["Outer"](box={a: arg})
        if route.startswith("nested"):
            o = run.outer(op.get("recv", 0))
            if route == "nested_with":
                return o.with_box(_inplace=ip, **{a: arg})
            if route == "nested_update":
                return o.update_box(_inplace=ip, **{a: arg})
            if route == "nested_cast":
                return o.with_box({a: arg}, _inplace=ip)
            if route == "nested_opt":
                return o.with_obox({a: arg}, _inplace=ip)
            o.box = {a: arg}
            return None
        b = run.box(op.get("recv", 0))
        if route == "setattr":
            setattr(b, a, arg)
            return None
        if route == "with":
            return getattr(b, "with_" + a)(arg, _inplace=ip)
        if route == "update_attr":
            return getattr(b, "update_" + a)(arg, _inplace=ip)
        if route == "transform_attr":
            return getattr(b, "transform_" + a)(lambda _: arg, _inplace=ip)
        if route == "transform_held":
            return getattr(b, "transform_" + a)(fn, _inplace=ip)
        if route == "top_update":
            return b.update(_inplace=ip, **{a: arg})
        if route == "top_transform":
            return b.transform(_inplace=ip, **{a: lambda _: arg})
        return b.transform(_inplace=ip, **{a: fn})
    if route in RESTORE:
        b = run.box(op.get("recv", 0))
        if route == "delattr":
            delattr(b, a)
            return None
        if route == "reset_attr":
            return getattr(b, "reset_" + a)(_inplace=ip)
        return b.reset(_inplace=ip)
    assert route == "elem", route
    b = run.box(op.get("recv", 0))
    name, h, kw, val = ITEM_NAME[a], op["helper"], {"_inplace": ip}, op["val"]
    if COLL[a][0] == "dict":
        if h == "with":
            return getattr(b, "with_" + name)(op["addr"], val, **kw)
        if h == "update":
            return getattr(b, "update_" + name)(op["addr"], val, **kw)
        return getattr(b, "transform_" + name)(op["addr"], lambda _: val, **kw)
    if h == "with":
        if "index" in op:
            kw["_index"] = op["index"]
        if op.get("insert"):
            kw["_insert"] = True
        return getattr(b, "with_" + name)(val, **kw)
    if "by_index" in op:
        kw["_by_index"] = op["by_index"]
    if h == "update":
        return getattr(b, "update_" + name)(op["addr"], val, **kw)
    return getattr(b, "transform_" + name)(op["addr"], lambda _: val, **kw)


def run_scenario(sc):
    run = Run(sc["shape"])
    out = {"outcomes": [], "violation": None}
    for i, op in enumerate(sc["ops"]):
        try:
            run.note(apply(run, op))
            oc = "ok"
        except NoReceiver:
            out["outcomes"].append("no-receiver")
            continue
        except (KeyboardInterrupt, SystemExit):
            raise
        except BaseException as e:  # noqa: BLE001 - every library exception is an outcome
            oc = "TypeError" if isinstance(e, TypeError) else "ValueError" if isinstance(e, ValueError) else type(e).__name__
        out["outcomes"].append(oc)
        bad = invariant(run)
        if bad:
            out["violation"] = {"op_index": i, "op": op, "outcome": oc, "bad": bad[:3]}
            return out
    return out


# ---------------------------------------------------------------------------
# generators
def elems(rng, attr, n_trig):
    """conforming elements for `attr`, `n_trig` of them triggers, at random positions"""
    c, _, ety = COLL[attr]
    goods = [g for g in GOOD[ety]]
    trigs = list(TRIG[ety])
    if c in ("set", "klist"):       # the preparer's output must be hashable for the call to get as far as the store
        trigs = [t for t in trigs if not isinstance(TRIG[ety][t], list)]
    xs = rng.sample(goods, rng.choice([0, 1, 2, 2, 3]))
    for _ in range(n_trig):
        xs.insert(rng.choice([0, len(xs), rng.randrange(len(xs) + 1)]), rng.choice(trigs))
    if c == "dict":
        keys = rng.sample(["x", "y", "p", "q", "r", "s", "t"], len(xs))
        return [[k, v] for k, v in zip(keys, xs)]
    if c in ("set", "klist"):
        xs = list(dict.fromkeys(xs))
    return xs


def kinds_for(attr):
    c = COLL[attr][0]
    if c == "dict":
        return ["own", "own", "list", "tuple", "gen"]
    if c == "klist":
        return ["own", "own", "untyped", "list", "tuple", "gen"]
    if c == "set":
        return ["own", "own", "list", "tuple", "gen"]
    return ["own", "own", "tuple", "gen", "set"]


def routes_inplace():
    for r in WHOLE:
        for ip in ((False,) if r in NO_INPLACE else (False, True)):
            yield r, ip


def shape_for(rng, route, ip, shapes=None):
    ok = [s for s in (shapes or SHAPES) if not (s == "frozen" and (ip or "setattr" in route or route == "delattr"))]
    return rng.choice(ok)


def whole_scenarios(rng, draws):
    for (route, ip), attr in itertools.product(list(routes_inplace()), COLL):
        for kind in dict.fromkeys(kinds_for(attr)):
            if route.endswith("_held") and kind != "own":
                continue
            for d in range(draws + 1):
                n_trig = 0 if d == draws else rng.choice([1, 1, 1, 2])
                op = {"route": route, "attr": attr, "inplace": ip, "arg": [kind, elems(rng, attr, n_trig)]}
                if route == "construct":
                    op["full"] = rng.random() < 0.5
                shape = shape_for(rng, route, ip)
                if shape == "frozen":
                    op["full"] = True
                yield {"shape": shape, "ops": [{"route": "init"}, op], "aim": "bad" if n_trig else "good", "block": "whole"}


def elem_op(rng, attr, helper, trig):
    c, _, ety = COLL[attr]
    pool = list(TRIG[ety]) if trig else GOOD[ety]
    if trig and c in ("set", "klist"):
        pool = [t for t in pool if not isinstance(TRIG[ety][t], list)]
    op = {"route": "elem", "attr": attr, "helper": helper, "inplace": rng.random() < 0.5, "val": rng.choice(pool)}
    if c == "dict":
        op["addr"] = rng.choice(["x", "y", "zz"] if helper == "with" else ["x", "y", "x", "zz"])
    elif helper == "with":
        if c in ("list", "klist"):
            form = rng.choice(["val", "val", "index", "insert"])
            if form != "val":
                op["index"] = rng.choice([0, 1, 5] + (["a"] if c == "klist" else []))
                op["insert"] = form == "insert"
    else:
        present = rng.random() < 0.85
        if c == "set":
            op["addr"] = rng.choice(["a", "b"]) if present else "zz"
        elif attr == "nums":
            op["addr"] = rng.choice([0, 1, -1]) if present else 7
            op["by_index"] = True
        else:
            if rng.random() < 0.5:
                op["addr"] = rng.choice([0, 1, -1]) if present else 7
                if rng.random() < 0.5:
                    op["by_index"] = True
            else:
                op["addr"] = rng.choice(["a", "b"]) if present else "zz"
    return op


def elem_scenarios(rng, draws):
    for attr, helper, trig in itertools.product(COLL, HELPERS, (True, True, False)):
        for _ in range(draws):
            op = elem_op(rng, attr, helper, trig)
            shape = shape_for(rng, "elem", op["inplace"])
            yield {"shape": shape, "ops": [{"route": "init"}, op], "aim": "bad" if trig else "good", "block": "elem"}


def factory_scenarios():
    yield {"shape": "factory", "ops": [{"route": "empty"}], "aim": "bad", "block": "factory"}
    for attr, route, ip in itertools.product(COLL, RESTORE, (False, True)):
        if route == "delattr" and ip:
            continue
        yield {"shape": "factory", "aim": "bad", "block": "factory",
               "ops": [{"route": "init"}, {"route": route, "attr": attr, "inplace": ip}]}
    for attr in COLL:               # partial constructor: the other attributes come from their factories
        yield {"shape": "factory", "aim": "bad", "block": "factory",
               "ops": [{"route": "construct", "attr": attr, "full": False, "arg": GOOD_INIT[attr]}]}


def history(rng, n_ops):
    shape = rng.choice([s for s in SHAPES if s != "frozen"])
    ops = [{"route": "init"}]
    for _ in range(n_ops):
        attr = rng.choice(list(COLL))
        trig = rng.random() < 0.45
        r = rng.random()
        if r < 0.55:
            route, ip = rng.choice(list(routes_inplace()))
            kind = "own" if route.endswith("_held") else rng.choice(kinds_for(attr))
            op = {"route": route, "attr": attr, "inplace": ip, "full": rng.random() < 0.5,
                  "arg": [kind, elems(rng, attr, rng.choice([1, 2]) if trig else 0)]}
        elif r < 0.93:
            op = elem_op(rng, attr, rng.choice(HELPERS), trig)
        else:
            op = {"route": rng.choice(RESTORE), "attr": attr, "inplace": rng.random() < 0.5}
            if op["route"] == "delattr":
                op["inplace"] = False
        op["recv"] = rng.randrange(4)
        ops.append(op)
    return {"shape": shape, "ops": ops, "aim": "mixed", "block": "history"}


def scenarios(rng, tier):
    quick = tier == "quick"
    out = list(whole_scenarios(rng, 2 if quick else 10))
    out += list(elem_scenarios(rng, 8 if quick else 60))
    out += list(factory_scenarios())
    out += [history(rng, rng.choice([3, 5, 8])) for _ in range(200 if quick else 2500)]
    return out


def shrink(sc):
    ops = list(sc["ops"])
    i = len(ops) - 1
    while i >= 0:
        cand = dict(sc, ops=ops[:i] + ops[i + 1:])
        try:
            if run_scenario(cand)["violation"]:
                ops = cand["ops"]
        except Exception:           # noqa: BLE001
            pass
        i -= 1
    return dict(sc, ops=ops)


def describe(sc, v):
    op = v["op"]
    what = op["route"] if op["route"] != "elem" else "%s_<item>" % op["helper"]
    c, a, r, rp = v["bad"][0]
    return ("C03 violated by the implementation: %s on the %s attribute `%s` with an item preparer%s (class shape %s, %s) leaves "
            "%s.%s = %s, which does not conform to its annotation (%s)"
            % (what, COLL.get(op.get("attr"), ("?",))[0], op.get("attr"), " in place" if op.get("inplace") else "", sc["shape"],
               v["outcome"], c, a, rp, {"elem": "element type", "key": "key type", "class": "container class"}[r]))


def run(chk, extra):
    scs = scenarios(chk.rng, chk.tier)
    stats = {"scenarios": len(scs), "operations": 0, "violating": 0, "by_block": {}, "outcomes": {}, "aimed_good": 0,
             "aimed_good_accepted": 0, "aimed_bad": 0, "aimed_bad_refused": 0, "crashed": 0}
    seen = {}
    for sc in scs:
        try:
            res = run_scenario(sc)
        except Exception as e:      # noqa: BLE001 - the probe itself failed
            stats["crashed"] += 1
            if stats["crashed"] <= 2:
                chk.violation("item-preparer probe failed on a scenario: %s: %s" % (type(e).__name__, str(e)[:200]),
                              {"kind": "probe-itemprep", "scenario": sc}, no_input=True)
            continue
        stats["operations"] += len(res["outcomes"])
        blk = stats["by_block"].setdefault(sc["block"], {"scenarios": 0, "violating": 0})
        blk["scenarios"] += 1
        last = res["outcomes"][-1] if res["outcomes"] else "none"
        for oc in res["outcomes"][1:] or res["outcomes"]:
            stats["outcomes"][oc] = stats["outcomes"].get(oc, 0) + 1
        if sc["aim"] == "good":
            stats["aimed_good"] += 1
            stats["aimed_good_accepted"] += last == "ok"
        elif sc["aim"] == "bad":
            stats["aimed_bad"] += 1
            stats["aimed_bad_refused"] += last in ("TypeError", "ValueError")
        v = res["violation"]
        if not v:
            continue
        stats["violating"] += 1
        blk["violating"] += 1
        op = v["op"]
        key = (op["route"], op.get("helper"), COLL.get(op.get("attr"), ("?",))[0], (op.get("arg") or ["-"])[0])
        seen.setdefault(key, []).append(sc)
    order, routes = [], {}
    for key in sorted(seen, key=lambda k: (len(seen[k][0]["ops"]), str(k))):   # one report per route first
        routes.setdefault((key[0], key[1]), []).append(key)
    for rank in range(max((len(v) for v in routes.values()), default=0)):
        order += [v[rank] for v in routes.values() if len(v) > rank]
    for key in order[:6]:
        sc = shrink(min(seen[key], key=lambda s: len(s["ops"])))
        res = run_scenario(sc)
        if not res["violation"]:
            continue
        chk.violation(describe(sc, res["violation"]), {"kind": "probe-itemprep", "scenario": sc},
                      sig={"kind": "probe-itemprep", "route": key[0], "helper": key[1], "container": key[2], "argument": key[3]})
    stats["distinct_violating_route_shapes"] = len(seen)
    extra["correspondence"]["itemprep_probe"] = stats


def replay(sc):
    res = run_scenario(sc)
    v = res["violation"]
    print("replay (item-preparer probe):", ("still failing: " + describe(sc, v)) if v else "passes now", res["outcomes"])
    return 1 if v else 0
