"""C15 — run-time type check: correspondence of coq/Ty/CheckType.v with
spec_classes.utils.type_checking.check_type / spec_classes.types.validated, and
property oracle (the executable twin of coq/Ty/Conforms.v) on the implementation's
answers.  Annotations and values are small ASTs (JSON-able lists); they are rendered
twice: to live Python objects and to Coq terms."""
import functools
import itertools
import json
import numbers
import operator
import os
import sys
import types
import typing

from common import Check, ERR_CODES, coq_eval, cz, outcome_class

PRELUDE = """From Coq Require Import List ZArith Bool.
From SC Require Import Base.Res Ty.Ty Ty.Conforms Ty.Oracle Ty.CheckType Corr.Enc Corr.TyCorr.
Import ListNotations.
Open Scope Z_scope.
"""

CLS = ["CObject", "CInt", "CFloat", "CReal", "CStr", "CBool", "CBytes", "CNoneType",
       "CUser", "CUserSub", "CSpec", "CSpecSub", "CList", "CSet", "CFrozenSet", "CDict", "CTuple", "CType"]
UCLS = {"CUser": "UUser", "CUserSub": "UUserSub", "CSpec": "USpec", "CSpecSub": "USpecSub"}

# the predicates handed to validated(); coq/Corr/TyCorr.v:psem_pool is their model


def _raises(x):
    raise ValueError("predicate refuses")


PREDICATES = [
    lambda x: isinstance(x, int) and x % 2 == 0,
    lambda x: isinstance(x, str) and len(x) > 0,
    lambda x: x > 0,
    lambda x: x,
    _raises,
]
TOTAL_PREDICATES = (0, 1, 3)


# ------------------------------------------------------------------ implementation side
class Env:
    """Live classes and the functions under test, imported from $VERIF_REPO."""

    def __init__(self):
        from spec_classes import spec_class
        from spec_classes.types.validated import bounded, validated
        from spec_classes.utils.type_checking import check_type

        class User:
            pass

        class UserSub(User):
            pass

        @spec_class
        class Spec:
            x: int = 0

        @spec_class
        class SpecSub(Spec):
            y: int = 0

        self.check_type, self.bounded, self.validated = check_type, bounded, validated
        self.cls = {
            "CObject": object, "CInt": int, "CFloat": float, "CReal": numbers.Real, "CStr": str,
            "CBool": bool, "CBytes": bytes, "CNoneType": type(None), "CUser": User, "CUserSub": UserSub,
            "CSpec": Spec, "CSpecSub": SpecSub, "CList": list, "CSet": set, "CFrozenSet": frozenset,
            "CDict": dict, "CTuple": tuple, "CType": type,
        }
        self.cls_name = {v: k for k, v in self.cls.items()}
        # bare typing aliases behave like the class (spelling variants of TCls)
        self.alias = {"CList": typing.List, "CSet": typing.Set, "CFrozenSet": typing.FrozenSet,
                      "CDict": typing.Dict, "CTuple": typing.Tuple, "CType": typing.Type}
        self.typevar = typing.TypeVar("T")
        self._vcache = {}

    # ---- annotations: returns (python object, normalised AST)
    def ann(self, t):
        obj, a = self._ann(t)
        # typing.* generics and unions turn a literal None argument into NoneType; PEP 585
        # aliases keep it.  The normalised AST says what the built object really holds.
        kids = children(a)
        if kids and any(c == ["None"] for c in kids):
            if a[0] == "Union":
                assert None not in getattr(obj, "__args__", ())
                actual = [type(None) if c == ["None"] else 0 for c in kids]
            else:
                actual = list(obj.__args__)
            fixed = [["Cls", "CNoneType", "None"] if c == ["None"] and actual[i] is type(None) else c
                     for i, c in enumerate(kids)]
            a = list(a)
            if a[0] in ("Union", "Tuple"):
                a[2] = fixed
            elif a[0] == "Dict":
                a[2], a[3] = fixed
            else:
                a[2] = fixed[0]
        return obj, a

    def _ann(self, t):
        k = t[0]
        if k == "Any":
            return typing.Any, t
        if k == "TypeVar":
            return self.typevar, t
        if k == "None":
            return None, t
        if k == "Cls":
            sp = t[2] if len(t) > 2 else "class"
            return (self.alias[t[1]] if sp == "alias" else self.cls[t[1]]), ["Cls", t[1], sp]
        if k == "Union":
            built = [self.ann(x) for x in t[2]]
            objs, asts = [b[0] for b in built], [b[1] for b in built]
            sp = t[3] if len(t) > 3 else "Union"
            obj = None
            if t[1] == "pep604":
                try:
                    obj = functools.reduce(operator.or_, objs)
                    sp = "|"
                except TypeError:
                    obj = None
            if obj is None:
                if sp == "Optional" and len(objs) == 2:
                    obj = typing.Optional[objs[0]]
                else:
                    obj, sp = typing.Union[tuple(objs)], "Union"
            kind = "pep604" if isinstance(obj, types.UnionType) else "typing"
            return obj, ["Union", kind, asts, sp]
        if k == "Lit":
            return typing.Literal[tuple(const_py(c) for c in t[1])], t
        if k in ("List", "Set", "TupleVar", "Type"):
            o, a = self.ann(t[2])
            typ = t[1] == "Typing"
            if k == "List":
                obj = typing.List[o] if typ else list[o]
            elif k == "Set":
                obj = typing.Set[o] if typ else set[o]
            elif k == "TupleVar":
                obj = typing.Tuple[o, ...] if typ else tuple[o, ...]
            else:
                obj = typing.Type[o] if typ else type[o]
            return obj, [k, t[1], a]
        if k == "Dict":
            ko, ka = self.ann(t[2])
            vo, va = self.ann(t[3])
            return (typing.Dict[ko, vo] if t[1] == "Typing" else dict[ko, vo]), ["Dict", t[1], ka, va]
        if k == "Tuple":
            built = [self.ann(x) for x in t[2]]
            objs = tuple(b[0] for b in built)
            obj = typing.Tuple[objs] if t[1] == "Typing" else tuple[objs]
            return obj, ["Tuple", t[1], [b[1] for b in built]]
        if k == "Bounded":
            kw = {n: num_py(x) for n, x in zip(("ge", "gt", "le", "lt"), t[2:6]) if x is not None}
            return self.bounded(self.cls[t[1]], **kw), t
        if k == "Validated":
            key = ("V", t[1])
            if key not in self._vcache:
                self._vcache[key] = self.validated(PREDICATES[t[1]], name=f"p{t[1]}")
            return self._vcache[key], t
        raise AssertionError(t)

    # ---- values
    def val(self, v):
        k = v[0]
        if k == "none":
            return None
        if k in ("bool", "int", "str"):
            return v[1]
        if k == "float":
            return v[1] / 2
        if k == "bytes":
            return v[1].encode()
        if k == "tuple":
            return tuple(self.val(x) for x in v[1])
        if k == "list":
            return [self.val(x) for x in v[1]]
        if k == "set":
            return {self.val(x) for x in v[1]}
        if k == "frozenset":
            return frozenset(self.val(x) for x in v[1])
        if k == "dict":
            return {self.val(a): self.val(b) for a, b in v[1]}
        if k == "class":
            return self.cls[v[1]]
        if k == "inst":
            return self.cls[v[1]]()
        raise AssertionError(v)

    def run(self, obj, value):
        """1 / 0 / negative error code, as in Corr/TyCorr.v:out_of_res"""
        try:
            r = self.check_type(value, obj)
        except BaseException as e:
            if isinstance(e, (KeyboardInterrupt, SystemExit, AssertionError)):
                raise
            return ERR_CODES[outcome_class(e)], type(e).__name__
        if r is True:
            return 1, None
        if r is False:
            return 0, None
        return -99, f"non-bool result {r!r}"

    def lattice(self):
        objs = [self.cls[c] for c in CLS]
        return [[j for j, b in enumerate(objs) if issubclass(a, b)] for a in objs]


def const_py(c):
    return c[1].encode() if isinstance(c, list) else c     # ["bytes", "a"] | None | bool | int | str


def num_py(x):
    return x[1] / 2 if isinstance(x, list) else x          # ["half", h] | int


# ------------------------------------------------------------------ Coq side
def word_code(s):
    n = 0
    for ch in s:
        n = n * 2 + {"a": 1, "b": 2, 97: 1, 98: 2}[ch]
    return n


def c_val_obj(env, o):
    """Coq term of a live Python value (sets/dicts in their iteration order)."""
    if o is None:
        return "VNone"
    if o is True or o is False:
        return f"(VBool {'true' if o else 'false'})"
    if type(o) is int:
        return f"(VInt {cz(o)})"
    if type(o) is float:
        h = o * 2
        assert h == int(h), o
        return f"(VFloat {cz(int(h))})"
    if type(o) is str:
        return f"(VStr {word_code(o)})"
    if type(o) is bytes:
        return f"(VBytes {word_code(o)})"
    seq = lambda xs: "[" + "; ".join(c_val_obj(env, x) for x in xs) + "]"
    if type(o) is tuple:
        return f"(VTuple {seq(o)})"
    if type(o) is list:
        return f"(VList {seq(o)})"
    if type(o) is set:
        return f"(VSet {seq(list(o))})"
    if type(o) is frozenset:
        return f"(VFrozenSet {seq(list(o))})"
    if type(o) is dict:
        return "(VDict [" + "; ".join(f"({c_val_obj(env, a)}, {c_val_obj(env, b)})" for a, b in o.items()) + "])"
    if isinstance(o, type) or o is numbers.Real:
        return f"(VClass {env.cls_name[o]})"
    return f"(VInst {UCLS[env.cls_name[type(o)]]})"


def c_num(x):
    if x is None:
        return "None"
    return f"(Some (NHalf {cz(x[1])}))" if isinstance(x, list) else f"(Some (NInt {cz(x)}))"


def c_const(c):
    if c is None:
        return "KNone"
    if c is True or c is False:
        return f"(KBool {'true' if c else 'false'})"
    if isinstance(c, int):
        return f"(KInt {cz(c)})"
    if isinstance(c, str):
        return f"(KStr {word_code(c)})"
    return f"(KBytes {word_code(c[1])})"


def c_ty(t):
    k = t[0]
    if k in ("Any", "TypeVar", "None"):
        return "T" + k
    if k == "Cls":
        return f"(TCls {t[1]})"
    if k == "Union":
        return f"(TUnion {'UPep604' if t[1] == 'pep604' else 'UTyping'} [" + "; ".join(c_ty(x) for x in t[2]) + "])"
    if k == "Lit":
        return "(TLit [" + "; ".join(c_const(c) for c in t[1]) + "])"
    if k in ("List", "Set", "TupleVar", "Type"):
        return f"(T{k} {t[1]} {c_ty(t[2])})"
    if k == "Dict":
        return f"(TDict {t[1]} {c_ty(t[2])} {c_ty(t[3])})"
    if k == "Tuple":
        return f"(TTuple {t[1]} [" + "; ".join(c_ty(x) for x in t[2]) + "])"
    if k == "Bounded":
        return f"(TBounded {t[1]} {c_num(t[2])} {c_num(t[3])} {c_num(t[4])} {c_num(t[5])})"
    if k == "Validated":
        return f"(TValidated {t[1]})"
    raise AssertionError(t)


# ------------------------------------------------------------------ structure helpers
def children(t):
    k = t[0]
    if k in ("Union", "Tuple"):
        return list(t[2])
    if k in ("List", "Set", "TupleVar", "Type"):
        return [t[2]]
    if k == "Dict":
        return [t[2], t[3]]
    return []


def depth(t):
    return 1 + max([depth(c) for c in children(t)], default=0)


def ty_size(t):
    return 1 + sum(ty_size(c) for c in children(t))


def val_children(v):
    if v[0] in ("tuple", "list", "set", "frozenset"):
        return list(v[1])
    if v[0] == "dict":
        return [x for kv in v[1] for x in kv]
    return []


def val_size(v):
    return 1 + sum(val_size(c) for c in val_children(v))


def hashable(v):
    if v[0] in ("list", "set", "dict"):
        return False
    if v[0] == "inst" and v[1] in ("CSpec", "CSpecSub"):
        return False        # spec classes define __eq__ and therefore no __hash__
    return all(hashable(c) for c in val_children(v))


def in_language(t):
    k = t[0]
    if k == "TypeVar":
        return False
    if k == "Type":
        return type_arg(t[2])
    if k == "Bounded":
        return t[1] in ("CInt", "CFloat", "CBool", "CReal")
    if k == "Validated":
        return t[1] in TOTAL_PREDICATES
    return all(in_language(c) for c in children(t))


def type_arg(t):
    return t[0] in ("Any", "None", "Cls") or (t[0] == "Union" and all(type_arg(c) for c in t[2]))


def top_kind(t):
    k = t[0]
    if k in ("List", "Set", "Dict", "Tuple", "TupleVar", "Type"):
        return f"{k}/{t[1]}"
    if k == "Union":
        return f"Union/{t[3] if len(t) > 3 else t[1]}"
    return k


# ------------------------------------------------------------------ value pools
V = lambda k, *a: [k, *a]
NONE = V("none")
I = lambda z: V("int", z)
F = lambda h: V("float", h)          # h / 2
S = lambda s: V("str", s)
B = lambda s: V("bytes", s)
BASE = [
    NONE, V("bool", True), V("bool", False), I(0), I(1), I(-1), I(2), I(3), F(1), F(0), F(2), F(-1), F(3),
    S(""), S("a"), S("b"), S("ab"), B(""), B("a"), V("tuple", []), V("tuple", [I(1)]), V("tuple", [I(1), S("a")]),
    V("list", []), V("list", [I(1)]), V("list", [S("a")]), V("set", []), V("set", [I(1)]), V("frozenset", []),
    V("frozenset", [I(1)]), V("dict", []), V("dict", [[I(1), S("a")]]), V("dict", [[S("a"), I(1)]]),
    V("class", "CInt"), V("class", "CBool"), V("class", "CStr"), V("class", "CFloat"), V("class", "CUser"),
    V("class", "CUserSub"), V("class", "CSpec"), V("class", "CSpecSub"), V("class", "CNoneType"), V("class", "CList"),
    V("class", "CObject"), V("class", "CType"), V("class", "CReal"),
    V("inst", "CUser"), V("inst", "CUserSub"), V("inst", "CSpec"), V("inst", "CSpecSub"),
]
CLS_CONF = {
    "CObject": [I(1), NONE], "CInt": [I(1), V("bool", True), I(0)], "CFloat": [F(1), I(1), V("bool", False), F(0)],
    "CReal": [F(3), I(2)], "CStr": [S("a"), S("")], "CBool": [V("bool", True), V("bool", False)],
    "CBytes": [B("a"), B("")], "CNoneType": [NONE], "CUser": [V("inst", "CUser"), V("inst", "CUserSub")],
    "CUserSub": [V("inst", "CUserSub")], "CSpec": [V("inst", "CSpec"), V("inst", "CSpecSub")],
    "CSpecSub": [V("inst", "CSpecSub")], "CList": [V("list", []), V("list", [I(1)])],
    "CSet": [V("set", [I(1)]), V("set", [])], "CFrozenSet": [V("frozenset", [I(1)])],
    "CDict": [V("dict", [[I(1), S("a")]]), V("dict", [])], "CTuple": [V("tuple", [I(1)]), V("tuple", [])],
    "CType": [V("class", "CInt"), V("class", "CUser")],
}
# near misses for a class: values of a neighbouring class
CLS_FAIL = {
    "CObject": [], "CInt": [F(2), F(1), S("a"), NONE], "CFloat": [S("a"), NONE, V("class", "CFloat")],
    "CReal": [S("a")], "CStr": [B("a"), I(1), NONE], "CBool": [I(1), I(0), NONE], "CBytes": [S("a"), I(1)],
    "CNoneType": [V("bool", False), I(0), V("class", "CNoneType")],
    "CUser": [V("inst", "CSpec"), V("class", "CUser"), NONE], "CUserSub": [V("inst", "CUser"), V("class", "CUserSub")],
    "CSpec": [V("inst", "CUser"), V("class", "CSpec")], "CSpecSub": [V("inst", "CSpec")],
    "CList": [V("tuple", [I(1)]), V("set", [I(1)])], "CSet": [V("frozenset", [I(1)]), V("list", [I(1)])],
    "CFrozenSet": [V("set", [I(1)])], "CDict": [V("list", [V("tuple", [I(1), S("a")])]), V("set", [I(1)])],
    "CTuple": [V("list", [I(1)])], "CType": [V("inst", "CUser"), I(1)],
}
SUBS = {"CInt": ["CInt", "CBool"], "CReal": ["CInt", "CFloat", "CBool"], "CUser": ["CUser", "CUserSub"],
        "CSpec": ["CSpec", "CSpecSub"], "CObject": ["CInt", "CUser", "CType"]}


def const_val(c):
    if c is None:
        return NONE
    if c is True or c is False:
        return V("bool", c)
    if isinstance(c, int):
        return I(c)
    if isinstance(c, str):
        return S(c)
    return B(c[1])


def bound_candidates(t):
    out = []
    for x in t[2:6]:
        if x is None:
            continue
        h = x[1] if isinstance(x, list) else 2 * x
        for d in (-2, -1, 0, 1, 2):
            out.append(F(h + d))
            if (h + d) % 2 == 0:
                out.append(I((h + d) // 2))
    out += [V("bool", True), V("bool", False), I(0), F(1)]
    return out


def conforming(t, lim=3):
    """values the generator expects to conform (the judgement is Coq's)"""
    k = t[0]
    if k in ("Any", "TypeVar"):
        return [I(1), S("a"), V("list", [NONE])][:lim]
    if k == "None":
        return [NONE]
    if k == "Cls":
        return CLS_CONF[t[1]][:lim]
    if k == "Union":
        out = []
        for c in t[2]:
            out += conforming(c, 1)
        return out[:lim + 1]
    if k == "Lit":
        out = [const_val(c) for c in t[1]]
        for c in t[1]:
            if c is True or c == 1 and not isinstance(c, (str, list)):
                out += [I(1), V("bool", True), F(2)]
            if c is False or c == 0 and not isinstance(c, (str, list)) and c is not None:
                out += [I(0), V("bool", False), F(0)]
        return out[:lim + 3]
    if k in ("List", "Set", "TupleVar"):
        mk = {"List": "list", "Set": "set", "TupleVar": "tuple"}[k]
        cs = conforming(t[2], 2)
        if k == "Set":
            cs = [c for c in cs if hashable(c)]
        out = [V(mk, [])]
        if cs:
            out.append(V(mk, [cs[0]]))
            out.append(V(mk, [cs[-1], cs[0], cs[-1]] if k != "Set" else cs))
        return out[:lim]
    if k == "Dict":
        ks = [c for c in conforming(t[2], 2) if hashable(c)]
        vs = conforming(t[3], 2)
        out = [V("dict", [])]
        if ks and vs:
            out.append(V("dict", [[ks[0], vs[0]]]))
            if len(ks) > 1:
                out.append(V("dict", [[ks[0], vs[0]], [ks[1], vs[-1]]]))
        return out[:lim]
    if k == "Tuple":
        per = [conforming(c, 2) for c in t[2]]
        if any(not p for p in per):
            return []
        return [V("tuple", [p[0] for p in per]), V("tuple", [p[-1] for p in per])][:lim]
    if k == "Type":
        a = t[2]
        if a[0] in ("Any", "TypeVar"):
            return [V("class", "CInt"), V("class", "CUser"), V("class", "CNoneType")][:lim]
        if a[0] == "None":
            return [V("class", "CNoneType")]
        if a[0] == "Cls":
            return [V("class", c) for c in SUBS.get(a[1], [a[1]])][:lim]
        if a[0] == "Union":
            out = []
            for c in a[2]:
                out += conforming(["Type", t[1], c], 1)
            return out[:lim]
        return []
    if k == "Bounded":
        return bound_candidates(t)
    if k == "Validated":
        return [[I(0), I(2), V("bool", False)], [S("a"), S("ab")], [I(1), F(1)], [I(1), S("a"), V("list", [I(1)])], []][t[1]][:lim]
    raise AssertionError(t)


def failing(t, rng, lim=6):
    """values built to fail at each structural position of t"""
    k = t[0]
    out = []
    if k in ("Any", "TypeVar"):
        return []
    if k == "None":
        return CLS_FAIL["CNoneType"][:lim]
    if k == "Cls":
        return CLS_FAIL[t[1]][:lim]
    if k == "Union":
        for c in t[2]:
            out += failing(c, rng, 2)
        return out[:lim]
    if k == "Lit":
        out = [I(7), S("ab"), B("a"), S("a"), NONE, V("list", [I(1)]), F(1), V("bool", True), V("bool", False), I(0)]
        return out[:lim + 3]
    if k in ("List", "Set", "TupleVar"):
        mk = {"List": "list", "Set": "set", "TupleVar": "tuple"}[k]
        wrong = {"List": ["tuple", "set"], "Set": ["frozenset", "list"], "TupleVar": ["list"]}[k]
        good = conforming(t[2], 2)
        bad = failing(t[2], rng, 3)
        if k == "Set":
            good, bad = [c for c in good if hashable(c)], [c for c in bad if hashable(c)]
        for w in wrong:
            items = good[:1]
            if w in ("set", "frozenset") and not all(hashable(i) for i in items):
                items = []
            out.append(V(w, items))
        out.append(NONE)
        for b in bad:
            out.append(V(mk, [b]))                      # fails at position 0
            if good:
                out.append(V(mk, [good[0], b]))          # fails at the last position
                out.append(V(mk, [good[0], b, good[-1]]))  # fails in the middle
        return out[:lim + 3]
    if k == "Dict":
        gk = [c for c in conforming(t[2], 2) if hashable(c)]
        gv = conforming(t[3], 2)
        bk = [c for c in failing(t[2], rng, 3) if hashable(c)]
        bv = failing(t[3], rng, 3)
        out += [V("list", [V("tuple", [gk[0], gv[0]])] if gk and gv else []), NONE]
        for b in bk[:2]:
            if gv:
                out.append(V("dict", [[b, gv[0]]]))                     # wrong key
                if gk:
                    out.append(V("dict", [[gk[0], gv[0]], [b, gv[-1]]]))  # wrong key, second entry
        for b in bv[:2]:
            if gk:
                out.append(V("dict", [[gk[0], b]]))                     # wrong value
                if len(gk) > 1 and gv:
                    out.append(V("dict", [[gk[0], gv[0]], [gk[1], b]]))
        return out[:lim + 4]
    if k == "Tuple":
        per = [conforming(c, 2) for c in t[2]]
        ok = [p[0] for p in per] if all(per) else None
        out.append(V("list", ok or []))
        out.append(NONE)
        if ok is not None:
            out.append(V("tuple", ok + [I(1)]))               # too long
            if ok:
                out.append(V("tuple", ok[:-1]))               # too short
                out.append(V("tuple", []))
            for i, c in enumerate(t[2]):
                for b in failing(c, rng, 2):
                    out.append(V("tuple", ok[:i] + [b] + ok[i + 1:]))   # fails at position i
        else:
            out.append(V("tuple", [I(1)] * len(t[2])))
        return out[:lim + 4]
    if k == "Type":
        out = [V("inst", "CUser"), I(1), NONE, V("class", "CBytes"), V("class", "CUser"), V("class", "CInt"),
               V("class", "CBool"), V("class", "CFloat"), V("class", "CObject"), V("class", "CSpecSub")]
        rng.shuffle(out)
        return out[:lim]
    if k == "Bounded":
        return [S("a"), NONE, V("list", [I(1)])][:lim]
    if k == "Validated":
        return [[I(1), V("bool", True), S("a"), F(4)], [S(""), I(1), B("a")], [I(0), I(-1), S("a"), NONE],
                [I(0), S(""), V("list", []), NONE], [I(1)]][t[1]][:lim]
    raise AssertionError(t)


def pool_for(t, rng, nbase=3):
    vals = conforming(t) + failing(t, rng) + rng.sample(BASE, nbase)
    seen, out = set(), []
    for v in vals:
        key = json.dumps(v)
        if key not in seen:
            seen.add(key)
            out.append(v)
    return out


# ------------------------------------------------------------------ annotation generation
def cl(c, sp="class"):
    return ["Cls", c, sp]


def half(h):
    return ["half", h]


LITS = [["Lit", [1]], ["Lit", [True]], ["Lit", [0, "a"]], ["Lit", ["a", "b"]], ["Lit", [None]],
        ["Lit", [["bytes", "a"], "a"]], ["Lit", [1, 2, 3]], ["Lit", [False, None, "ab"]]]
BOUNDS = [
    ["Bounded", "CInt", 0, None, None, None], ["Bounded", "CInt", None, 0, None, None],
    ["Bounded", "CInt", None, None, 0, None], ["Bounded", "CInt", None, None, None, 0],
    ["Bounded", "CFloat", 0, None, None, None], ["Bounded", "CFloat", None, 0, None, None],
    ["Bounded", "CFloat", None, None, 0, None], ["Bounded", "CFloat", None, None, None, 0],
    ["Bounded", "CFloat", half(0), None, None, half(0)], ["Bounded", "CFloat", None, half(0), half(0), None],
    ["Bounded", "CInt", 1, None, 3, None], ["Bounded", "CInt", None, -1, None, 2],
    ["Bounded", "CFloat", half(1), None, None, half(3)], ["Bounded", "CFloat", None, half(-1), 1, None],
    ["Bounded", "CInt", None, None, None, None], ["Bounded", "CFloat", 0, None, 0, None],
    ["Bounded", "CInt", 0, 1, None, None],        # both lower bounds: constructible because `if ge and gt` uses truthiness
    ["Bounded", "CFloat", None, None, 3, 0],
    ["Bounded", "CBool", 1, None, None, None],
    ["Bounded", "CStr", 0, None, None, None],     # outside the language: str < int raises
    ["Bounded", "CObject", None, None, 1, None],  # outside the language
]
VALIDATED = [["Validated", p] for p in range(len(PREDICATES))]
SCALARS = [["Any"], cl("CInt"), cl("CFloat"), cl("CStr"), cl("CBool"), cl("CBytes"), cl("CNoneType"), ["None"],
           cl("CUser"), cl("CUserSub"), cl("CSpec"), cl("CSpecSub")]
BARE = [cl("CList"), cl("CList", "alias"), cl("CSet"), cl("CSet", "alias"), cl("CDict"), cl("CDict", "alias"),
        cl("CTuple"), cl("CTuple", "alias"), cl("CType"), cl("CType", "alias"), cl("CFrozenSet"),
        cl("CFrozenSet", "alias"), cl("CObject"), cl("CReal"), ["TypeVar"]]
ATOMS = SCALARS + BARE + LITS + BOUNDS + VALIDATED
CORE = [["Any"], cl("CInt"), cl("CFloat"), cl("CStr"), cl("CBool"), cl("CNoneType"), ["None"], cl("CUser"),
        cl("CSpec"), ["Lit", [1, "a"]], ["Bounded", "CFloat", None, 0, None, None], ["Bounded", "CInt", 0, None, None, 2],
        ["Validated", 0], ["Validated", 3]]
FORMS = ("Typing", "Builtin")


def compose(args1, pairs, triples, rng, quick):
    """annotations whose arguments are drawn from args1 (unary), pairs, triples"""
    out = []
    for f in FORMS:
        for a in args1:
            out += [["List", f, a], ["Set", f, a], ["TupleVar", f, a], ["Type", f, a], ["Tuple", f, [a]]]
        out.append(["Tuple", f, []])
        for a, b in pairs:
            out += [["Dict", f, a, b], ["Tuple", f, [a, b]]]
        for a, b, c in triples:
            out.append(["Tuple", f, [a, b, c]])
    for a in args1:
        out.append(["Union", "typing", [a, cl("CNoneType")], "Optional"])
        out.append(["Union", "pep604", [a, ["None"]]])
    for a, b in pairs:
        out.append(["Union", "typing", [a, b]])
        out.append(["Union", "pep604", [a, b]])
    for a, b, c in triples:
        out.append(["Union", "typing", [a, b, c]])
        out.append(["Union", "pep604", [c, a, b]])
    return out


def generate_annotations(rng, tier):
    quick = tier == "quick"
    d1 = list(ATOMS)
    # depth 2: every atom under every unary constructor; pairs over the core atoms
    # (all of them) plus sampled pairs/triples over all atoms
    pairs = [(a, b) for a in CORE for b in CORE]
    allpairs = [(a, b) for a in ATOMS for b in ATOMS]
    pairs += rng.sample(allpairs, 150 if quick else 1200)
    triples = [tuple(rng.choice(ATOMS) for _ in range(3)) for _ in range(60 if quick else 500)]
    d2 = compose(ATOMS, pairs, triples, rng, quick)
    # depth 3 (sampled): arguments are depth-2 annotations mixed with atoms
    n3 = 250 if quick else 5000
    mix = lambda: rng.choice(d2) if rng.random() < 0.75 else rng.choice(ATOMS)
    args1 = [rng.choice(d2) for _ in range(n3 // 5)]
    pairs3 = [(mix(), mix()) for _ in range(n3 // 5)]
    triples3 = [(mix(), mix(), mix()) for _ in range(n3 // 20)]
    d3 = [t for t in compose(args1, pairs3, triples3, rng, quick) if depth(t) == 3]
    if quick:
        d3 = rng.sample(d3, min(len(d3), 700))
    out = [(t, 1) for t in d1] + [(t, 2) for t in d2] + [(t, 3) for t in d3]
    if not quick:
        # depth 4: one more layer, a small sample (the theorems carry no depth bound)
        d4 = [t for t in compose([rng.choice(d3) for _ in range(200)], [(rng.choice(d3), mix()) for _ in range(200)], [], rng, quick)
              if depth(t) == 4]
        out += [(t, 4) for t in rng.sample(d4, min(len(d4), 600))]
    return out


# ------------------------------------------------------------------ evaluation
class Tracer:
    """records executed lines of the anchored files"""

    def __init__(self, repo):
        self.files = {os.path.join(repo, "spec_classes/utils/type_checking.py"): "type_checking.py",
                      os.path.join(repo, "spec_classes/types/validated.py"): "validated.py"}
        self.lines = {v: set() for v in self.files.values()}

    def __call__(self, frame, event, arg):
        name = self.files.get(frame.f_code.co_filename)
        if name is None:
            return None
        s = self.lines[name]

        def local(frame, event, arg):
            if event == "line":
                s.add(frame.f_lineno)
            return local
        s.add(frame.f_lineno)
        return local


def evaluate(env, cases, tag="c", fn="check_case", trace=None):
    """cases: list of (ty_ast, val_ast).  Runs the implementation and Coq.
    Returns (results, bad, logs): results[i] = (norm_ty, outcome, exc name) or None when the
    case could not be built; bad = [(index, code)]."""
    results, terms, idx = [], [], []
    if trace is not None:
        sys.settrace(trace)
    try:
        for i, (t, v) in enumerate(cases):
            try:
                obj, nt = env.ann(t)
                value = env.val(v)
            except TypeError:
                results.append(None)        # unhashable element / unbuildable annotation: not a case
                continue
            out, exc = env.run(obj, value)
            results.append((nt, out, exc))
            terms.append(f"mkcase {c_ty(nt)} {c_val_obj(env, value)} {cz(out)}")
            idx.append(i)
    finally:
        if trace is not None:
            sys.settrace(None)
    bad, logs = coq_eval("C15", PRELUDE, fn, terms, shard=400, tag=tag, case_type="case")
    return results, [(idx[j], code) for j, code in bad], logs


def shrink(env, case, code, fn="check_case"):
    """smaller (annotation, value) pairs with the same code"""
    cur = case
    for _ in range(10):
        t, v = cur
        cands = []
        for t2 in [t] + children(t):
            for v2 in [v] + val_children(v):
                if (t2, v2) != (t, v):
                    cands.append((t2, v2))
        # drop one alternative / position / element
        if t[0] in ("Union", "Tuple") and len(t[2]) > 1:
            for j in range(len(t[2])):
                t2 = list(t)
                t2[2] = t[2][:j] + t[2][j + 1:]
                cands.append((t2, v))
                if t[0] == "Tuple" and v[0] == "tuple" and len(v[1]) == len(t[2]):
                    cands.append((t2, [v[0], v[1][:j] + v[1][j + 1:]]))
        if v[0] in ("tuple", "list", "set", "frozenset", "dict") and len(v[1]) > 0:
            for j in range(len(v[1])):
                cands.append((t, [v[0], v[1][:j] + v[1][j + 1:]]))
        if not cands:
            break
        _, bad, _ = evaluate(env, cands, tag="s", fn=fn)
        hit = [i for i, c in bad if c == code]
        if not hit:
            break
        best = min(hit, key=lambda i: (ty_size(cands[i][0]) + val_size(cands[i][1]), i))
        if ty_size(cands[best][0]) + val_size(cands[best][1]) >= ty_size(t) + val_size(v):
            break
        cur = cands[best]
    return cur


def show_out(out, exc):
    return {1: "True", 0: "False"}.get(out, f"raised {exc}")


def describe(env, case, code):
    t, v = case
    obj, nt = env.ann(t)
    out, exc = env.run(obj, env.val(v))
    return {"annotation": t, "annotation_repr": repr(obj), "value": v, "value_repr": repr(env.val(v)),
            "observed": show_out(out, exc), "code": code, "in_language": in_language(nt),
            "meaning": {1: "model and implementation differ; the specification accepts the implementation's answer",
                        2: "the implementation's answer violates the specification (conforms / never raises)"}.get(code, "?"),
            "replay": "bin/check C15 --replay <this file>"}


def lattice_term(tbl):
    return "[" + "; ".join("[" + "; ".join(str(j) for j in row) + "]" for row in tbl) + "]"


def main(tier, replay=None):
    chk = Check("C15", tier)
    env = Env()
    legacy = os.environ.get("C15_LEGACY_MODEL") == "1"     # self-test: compare against the pre-fix model
    fn = "check_case_legacy" if legacy else "check_case"
    if replay:
        r = json.load(open(replay))
        if r.get("kind") in ("proof", "coq-eval", "lattice"):
            print("replay: not an input case:", r.get("what", "")[:300])
            return 1
        case = (r["annotation"], r["value"])
        results, bad, logs = evaluate(env, [case], tag="r", fn=fn)
        print("annotation:", repr(env.ann(case[0])[0]), " value:", repr(env.val(case[1])))
        print("expected (stored):", r.get("observed"), "code", r.get("code"))
        print("observed now:", show_out(results[0][1], results[0][2]))
        print("replay:", ("still failing code=%s" % bad[0][1]) if bad else "passes now", logs)
        return 1 if bad or logs else 0
    chk.proofs()

    # 1. class lattice, regenerated from the interpreter
    tbl = env.lattice()
    lbad, llogs = coq_eval("C15", PRELUDE, "lattice_check", [lattice_term(tbl)], tag="lat", case_type="list (list Z)")
    for _, code in lbad:
        chk.violation("issubclass table of the interpreter differs from " +
                      ("the specification's lattice" if code == 2 else "the model's table"),
                      {"kind": "lattice", "table": tbl, "classes": CLS}, no_input=True)
    # 2. cases
    anns = generate_annotations(chk.rng, tier)
    cases, meta = [], []
    for t, d in anns:
        for v in pool_for(t, chk.rng):
            cases.append((t, v))
            meta.append(d)
    corpus_dir = os.path.join(os.path.dirname(os.path.dirname(os.path.abspath(__file__))), "corpus", "C15")
    ncorpus = 0
    if os.path.isdir(corpus_dir):
        for f in sorted(os.listdir(corpus_dir)):
            if f.endswith(".json"):
                r = json.load(open(os.path.join(corpus_dir, f)))
                cases.insert(0, (r["annotation"], r["value"]))
                meta.insert(0, depth(r["annotation"]))
                ncorpus += 1
    tracer = Tracer(os.environ.get("VERIF_REPO", "/repo"))
    results, bad, logs = evaluate(env, cases, fn=fn, trace=tracer)

    # 3. report
    reported = set()
    for i, code in sorted(bad, key=lambda b: (-b[1], ty_size(cases[b[0]][0]) + val_size(cases[b[0]][1])))[:60]:
        small = shrink(env, cases[i], code, fn=fn)
        d = describe(env, small, code)
        sig = {"annotation": top_kind(small[0]), "inner": top_kind(children(small[0])[0]) if children(small[0]) else "",
               "observed": d["observed"].split(" ")[0]}
        key = (json.dumps(sig), code)
        if key in reported:
            continue
        reported.add(key)
        what = (f"check_type({d['value_repr']}, {d['annotation_repr']}) = {d['observed']}: " +
                ("violates `accepted exactly when it conforms / never raises`" if code == 2 else "differs from the model"))
        chk.violation(what, d, sig=sig, no_input=(code != 2))
    for lg in logs + llogs:
        chk.violation("correspondence evaluation failed: " + lg[-500:], {"kind": "coq-eval", "log": lg}, no_input=True)

    done = [(c, r, m) for c, r, m in zip(cases, results, meta) if r is not None]
    hist_kind, hist_depth, hist_out, hist_err, hist_val = {}, {}, {}, {}, {}
    inlang = 0
    distinct = set()
    for (t, v), (nt, out, exc), d in done:
        hist_kind[top_kind(nt)] = hist_kind.get(top_kind(nt), 0) + 1
        hist_depth[d] = hist_depth.get(d, 0) + 1
        o = show_out(out, exc)
        hist_out[o.split(" ")[0]] = hist_out.get(o.split(" ")[0], 0) + 1
        if exc:
            hist_err[exc] = hist_err.get(exc, 0) + 1
        hist_val[v[0]] = hist_val.get(v[0], 0) + 1
        inlang += in_language(nt)
        distinct.add(json.dumps([nt, v]))
    src = {}
    for name in tracer.lines:
        path = [p for p, n in tracer.files.items() if n == name][0]
        code_lines = set()
        try:
            import dis
            mod = compile(open(path).read(), path, "exec")
            want = ("check_type", "check_subclass", "validator", "__instancecheck__")
            stack = [(mod, False)]
            while stack:
                co, inside = stack.pop()
                inside = inside or co.co_name in want
                if inside:
                    code_lines |= {ln for _, ln in dis.findlinestarts(co) if ln}
                stack += [(c, inside) for c in co.co_consts if hasattr(c, "co_code")]
        except OSError:
            pass
        src[name] = {"executed": sorted(tracer.lines[name] & code_lines),
                     "not_executed": sorted(code_lines - tracer.lines[name])}
    ann_total = len(anns)
    pick = [done[0], done[len(done) // 2], done[-1]] if done else []
    extra = {
        "correspondence": {
            "cases": len(done), "unbuildable_skipped": len(cases) - len(done), "annotations": ann_total,
            "annotations_by_depth": {d: sum(1 for _, dd in anns if dd == d) for d in sorted({dd for _, dd in anns})},
            "in_language_cases": inlang, "outside_language_cases": len(done) - inlang,
            "disagreements": len(bad), "corpus_cases": ncorpus, "model": "legacy (pre-fix)" if legacy else "current",
            "annotation_kind_histogram": hist_kind, "depth_histogram": hist_depth, "outcome_histogram": hist_out,
            "error_histogram": hist_err, "value_kind_histogram": hist_val,
            "lattice": {"classes": CLS, "pairs_compared": len(CLS) ** 2, "differences": len(lbad)},
            "anchored_lines": src,
        },
        "evaluations": len(done), "distinct_nontrivial": len(distinct),
        "rule": ("a case = (annotation, value, implementation answer); annotations: every atom (depth 1), every atom under every "
                 "unary constructor in both spellings, all pairs over 14 core atoms plus sampled pairs/triples for Dict/Tuple/Union "
                 "(depth 2), sampled depth 3 (thorough: more, and depth 4); values per annotation: conforming values, values "
                 "failing at each structural position (wrong container class, wrong element at first/middle/last position, wrong key, "
                 "wrong value, wrong length), and 3 random base values; distinct = distinct (normalised annotation, value) pairs; "
                 "every case exercises check_type once and is judged in Coq by conformsb (specification) and check_type (model)"),
        "samples": [dict(annotation=c[0], value=c[1], observed=show_out(r[1], r[2])) for c, r, _ in pick],
        "exhaustive": False,
    }
    return chk.finish(
        trusted_base=["Coq 8.16.1 kernel and vm_compute", "no axioms (Print Assumptions: closed under the global context)",
                      "hand-written model coq/Ty/CheckType.v tied to /repo by this run's correspondence",
                      "class lattice table compared with the interpreter's issubclass on every run",
                      "harness/c15.py: annotation/value encoders, the Python predicates vs Corr/TyCorr.v:psem_pool",
                      "CPython 3.12 typing internals (normalisation of Union/Optional/Literal arguments) as observed, not verified"],
        assumptions=["Literal equality is Python ==: True == 1 == 1.0 (docs/C15.md)",
                     "floats are multiples of 1/2 (no NaN/inf); strings are words over {a,b}",
                     "validated() predicates are arbitrary in the theorems; `in the language` requires them to be total",
                     "Type[T] arguments in the language: Any, None, classes and unions of those"],
        extra=extra)
