"""C08: sentinel values handed to the constructor as keyword values (implementation-level probe).

`spec_classes.types` exports three sentinels (MISSING, EMPTY, UNCHANGED).  A constructor keyword carrying one
of them is still a construction in the sense of the property: afterwards the instance must not share mutable
state with the class-level default, i.e. an in-place mutation through the instance must leave the class-level
default (and what a fresh instance holds) as it was.  The Coq theorems about the constructor
(`C08_constructor_installs_defaults`, `C08_holds_defaults_history`, the peers theorems) carry the guard
`kw_nu` (no keyword is UNCHANGED); `C08_unchanged_keyword_refuted` shows the guard is needed.  This probe keeps
the refuted case under observation on the implementation: the UNCHANGED signature is a recorded open finding,
anything else it finds is a violation.
"""
import copy


def _classes():
    from typing import Dict, List, Set
    from spec_classes import Attr, spec_class

    @spec_class
    class Leaf:
        v: int = 0

    @spec_class
    class Box:
        xs: List[int] = [1]
        d: Dict[str, int] = {"a": 1}
        s: Set[int] = Attr(default_factory=lambda: {1})
        leaf: Leaf = Leaf(v=7)
        n: int = 3

    @spec_class
    class SubBox(Box):
        ys: List[int] = [2]

    class PlainBox(Box):
        xs = [9]

    return Leaf, [Box, SubBox, PlainBox]


def _snapshot_defaults(cls):
    out = {}
    for k in cls.__mro__:
        for a, v in vars(k).items():
            if a in ("xs", "d", "ys", "leaf") and (k.__name__, a) not in out:
                out[(k.__name__, a)] = (id(v), copy.deepcopy(v))
    return out


def _mutators(leaf_cls):
    return {
        "xs": lambda o: o.with_x(5, _inplace=True),
        "d": lambda o: o.with_d("z", 9, _inplace=True),
        "s": lambda o: o.with_s(5, _inplace=True) if hasattr(o, "with_s") else o.update_s({5}, _inplace=True),
        "leaf": lambda o: o.update_leaf(v=99, _inplace=True),
        "ys": lambda o: o.with_y(5, _inplace=True),
    }


def run():
    """-> dict(cases, failures=[{class, attr, sentinel, what}])"""
    from spec_classes.types import EMPTY, MISSING, UNCHANGED
    leaf_cls, classes = _classes()
    failures, cases = [], 0
    for sname, sent in (("MISSING", MISSING), ("EMPTY", EMPTY), ("UNCHANGED", UNCHANGED)):
        for cls in classes:
            attrs = [a for a in cls.__spec_class__.attrs if a != "n"]
            for a in attrs:
                cases += 1
                before = _snapshot_defaults(cls)
                fresh_before = repr(cls())
                try:
                    o = cls(**{a: sent})
                except Exception:
                    continue            # a rejected keyword shares nothing
                mut = _mutators(leaf_cls).get(a)
                try:
                    mut(o)
                except Exception:
                    pass
                after = _snapshot_defaults(cls)
                what = None
                for key, (ident, val) in before.items():
                    ident2, val2 = after.get(key, (None, None))
                    if ident2 != ident or val2 != val:
                        what = "in-place mutation through the instance changed the class-level default %s.%s: %r -> %r" % (
                            key[0], key[1], val, val2)
                        break
                if what is None and repr(cls()) != fresh_before:
                    what = "a fresh instance no longer holds the defaults: %s -> %s" % (fresh_before, repr(cls()))
                if what:
                    failures.append({"class": cls.__name__, "attr": a, "sentinel": sname, "what": what})
    return {"cases": cases, "failures": failures}


def probe(chk, extra):
    r = run()
    seen = set()
    for f in r["failures"]:
        k = (f["sentinel"],)
        if k in seen:
            continue
        seen.add(k)
        chk.violation("C08 violated by the implementation: %s(%s=%s) then an in-place helper: %s"
                      % (f["class"], f["attr"], f["sentinel"], f["what"]), dict(f, kind="sentinel-keyword"),
                      sig={"kind": "sentinel-keyword", "sentinel": f["sentinel"]})
    extra["sentinel_keyword_probe"] = {
        "cases": r["cases"], "failing": len(r["failures"]),
        "failing_by_sentinel": {s: sum(1 for f in r["failures"] if f["sentinel"] == s) for s in ("MISSING", "EMPTY", "UNCHANGED")},
        "rule": "implementation only: constructor keyword carrying MISSING / EMPTY / UNCHANGED for each mutable-default attribute "
                "of a spec class, a spec subclass and a plain subclass, then the in-place helper of that attribute; the class-level "
                "defaults (identity and content) and a fresh instance must be as before"}


if __name__ == "__main__":
    import json
    print(json.dumps(run(), indent=1))
