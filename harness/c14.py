"""C14 - KeyedSet: correspondence of KS/Model.v with spec_classes.types.keyed.KeyedSet
(and the inherited collections.abc Set/MutableSet mixins) and property oracle
(KS/Spec.v) on the implementation's observations."""
import itertools
import json

from common import Check, ERR_CODES, cbool, clist, cz, czlist, outcome_class

PRELUDE = """From Coq Require Import List ZArith Bool.
From SC Require Import Base.Res Base.PyList KS.Model KS.Spec Corr.Enc Corr.KSCorr.
Import ListNotations.
Open Scope Z_scope.
"""

# universe -> (hashable items?, key function defined on bare keys?)
UNIVERSES = {
    "self": dict(hashable=True, bare=True),     # self-keyed strings
    "tuple": dict(hashable=True, bare=True),    # ('a', p), key=lambda t: t[0], one-character keys
    "spec": dict(hashable=False, bare=True, hash_ok=True),  # keyed spec-class instances (hash by identity), default key function
    "intkey": dict(hashable=True, bare=False),  # (k, p), key=lambda t: t[0], int keys
    "dict": dict(hashable=False, bare=False),   # {'k': 'k1', 'p': p}, key=lambda d: d['k']
    "list": dict(hashable=False, bare=True),    # ['a', p], key=lambda l: l[0]
    # universes with FALSY items that share a key with truthy unequal ones (bool(stored) must play no role)
    "int": dict(hashable=True, bare=False),     # k*16+p, key=lambda i: 'k%d' % (i // 16): item (0, 0) is 0
    "ftuple": dict(hashable=True, bare=True),   # tuple subclass, falsy when p == 0, key=lambda t: t[0]
    "fdict": dict(hashable=False, bare=False),  # dict subclass, falsy when p == 0, key=lambda d: d['k']
    # typed only, NO key function, item type wider than the key type: an item can be a valid T
    # while its (default-extracted) key is not a K - only the key-type check can reject it
    "uself": dict(hashable=True, bare=True, typed_only=True),    # KeyedSet[Union[int, str], str]; the int items are ill-KEYED
    "uspec": dict(hashable=False, bare=True, hash_ok=True, typed_only=True),  # Item.k: Union[int, str] in KeyedSet[Item, str]; Item(k=9) is ill-keyed
    # items whose DEFAULT-extracted key (no key function) is FALSY: bool(key) must play no role in
    # KeyedBase.__get_item_key / key() nor in any probe "argument as a key, then as an item"
    "fspec": dict(hashable=False, bare=True, hash_ok=True),   # keyed spec items, k: int; key index 0 is the key 0 (payload even) or False (payload odd; False == 0: one dict key)
    "fspecs": dict(hashable=False, bare=True, hash_ok=True),  # keyed spec items, k: str; key index 0 is the key ""
    "fself": dict(hashable=True, bare=True),                  # self-keyed strings; item (0, 0) is ""
}
UNAMES = list(UNIVERSES)
# same objects and encoding as the base universe (except for what the comments above say)
BASE = {"uself": "self", "uspec": "spec", "fspec": "spec", "fspecs": "spec", "fself": "self"}


def base(u):
    return BASE.get(u, u)
CMP = {"Le": "<=", "Lt": "<", "Ge": ">=", "Gt": ">"}
SWAP = {"Le": "Ge", "Lt": "Gt", "Ge": "Le", "Gt": "Lt"}
BIN = ("And", "Or", "Sub", "Xor")
OPERAND_OPS = ("Eq", "Ne", "Le", "Lt", "Ge", "Gt", "IsDisjoint", "And", "Or", "Sub", "Xor",
               "RAnd", "ROr", "RSub", "RXor", "IOr", "IAnd", "ISub", "IXor")


class FalsyTuple(tuple):
    """a tuple whose truth value is that of its payload: (c, 0) is falsy"""
    def __bool__(self):
        return self[1] != 0


class FalsyDict(dict):
    """a dict whose truth value is that of its payload: {'k': .., 'p': 0} is falsy"""
    def __bool__(self):
        return self["p"] != 0


class FakeD:
    """a mapping that is not a dict (ill-typed item of the `dict` universe)"""
    __hash__ = None

    def __init__(self, k, p):
        self.d = {"k": k, "p": p}

    def __getitem__(self, n):
        return self.d[n]

    def __eq__(self, other):
        return isinstance(other, FakeD) and self.d == other.d

    def __repr__(self):
        return f"FakeD({self.d})"


# ------------------------------------------------------------------ implementation side
class Impl:
    def __init__(self, universe, typed, enf):
        from spec_classes import spec_class
        from spec_classes.types import KeyedSet
        self.name = universe
        universe = base(universe)
        self.u, self.typed, self.enf, self.KeyedSet = universe, typed, enf, KeyedSet
        self.keyf = {"self": None, "spec": None, "tuple": (lambda t: t[0]), "intkey": (lambda t: t[0]),
                     "dict": (lambda d: d["k"]), "list": (lambda l: l[0]),
                     "int": (lambda i: "k%d" % (i // 16)), "ftuple": (lambda t: t[0]),
                     "fdict": (lambda d: d["k"])}[universe]
        if universe == "spec":
            from typing import Union
            ktype = Union[int, str] if self.name == "uspec" else int if self.name == "fspec" else str
            otype = int if self.name == "fspec" else str

            @spec_class(key="k")
            class Item:
                k: ktype
                p: int

            @spec_class(key="k")
            class Other:
                k: otype
                p: int
            self.Item, self.Other = Item, Other

    def skey(self, k, p=0):
        """key (attribute `k`) of the keyed spec item (k, p); as a bare key argument p = 0"""
        if self.name == "fspec":
            return k if k != 0 else (False if p % 2 == 1 else 0)   # 0 (falsy int) or False (falsy bool), the same dict key
        if self.name == "fspecs":
            return f"k{k}" if k != 0 else ""
        return f"k{k}"

    # item (k, p) -> python object
    def item(self, kp):
        k, p = kp
        u = self.u
        if u == "self":
            if self.name == "fself" and kp == (0, 0):
                return ""
            return 1000 + k if p == 9 else f"{k}.{p}"
        if u == "tuple":
            if k == 9:
                return (9, p)
            return f"{chr(97 + k)}9" if p == 9 else (chr(97 + k), p)
        if u == "spec":
            if k == 9:
                # uspec only: a valid Item whose key is not a str (9, or the FALSY 0 for an even payload)
                return self.Item(k=9 if p % 2 else 0, p=p)
            return self.Other(k=self.skey(k, p), p=9) if p == 9 else self.Item(k=self.skey(k, p), p=p)
        if u == "intkey":
            if k == 9:
                return ("nine", p)
            return bytes([k, 9]) if p == 9 else (k, p)
        if u == "dict":
            if k == 9:
                return {"k": 9, "p": p}
            return FakeD(f"k{k}", 9) if p == 9 else {"k": f"k{k}", "p": p}
        if u == "int":
            return float(k * 16 + 9) if p == 9 else k * 16 + p
        if u == "ftuple":
            if k == 9:
                return FalsyTuple((9, p))
            return f"{chr(97 + k)}9" if p == 9 else FalsyTuple((chr(97 + k), p))
        if u == "fdict":
            if k == 9:
                return FalsyDict(k=9, p=p)
            return FakeD(f"k{k}", 9) if p == 9 else FalsyDict(k=f"k{k}", p=p)
        if k == 9:
            return [9, p]
        return (chr(97 + k), 9) if p == 9 else [chr(97 + k), p]

    def keyarg(self, kp):
        k = kp[0]
        u = self.u
        if u == "self":
            return self.item(kp)
        if u == "intkey":
            return k
        if u == "spec":
            return self.skey(k, kp[1])   # fspec: the bare key 0 is given as 0 or as False
        if u in ("dict", "int", "fdict"):
            return f"k{k}"
        return chr(97 + k)

    def arg(self, a):
        return self.item(a[1]) if a[0] == "I" else self.keyarg(a[1])

    def dec_key(self, k):
        try:
            u = self.u
            if u == "self":
                return self.dec_item(k)
            if u == "intkey":
                return (9 if k == "nine" else int(k), 0)
            if self.name == "fspec":
                return (int(k), 0) if isinstance(k, int) else (60, 0)
            if self.name == "fspecs" and isinstance(k, str) and k == "":
                return (0, 0)
            if u == "spec" and isinstance(k, int):
                return (9, 0)   # uspec: the ill-typed keys 9 and 0
            if u in ("spec", "dict", "int", "fdict"):
                return (9 if k == 9 else int(k[1:]), 0)
            return (9 if k == 9 else ord(k) - 97, 0)
        except Exception:
            return (60, 0)

    def dec_item(self, o):
        try:
            u = self.u
            if u == "self":
                if isinstance(o, int):
                    return (o - 1000, 9)
                if self.name == "fself" and isinstance(o, str) and o == "":
                    return (0, 0)
                a, b = o.split(".")
                return (int(a), int(b))
            if u == "spec":
                return (self.dec_key(o.k)[0], 9 if isinstance(o, self.Other) else o.p)
            if u in ("dict", "fdict"):
                return (self.dec_key(o["k"])[0], 9 if isinstance(o, FakeD) else o["p"])
            if u == "int":
                return (int(o) // 16, 9) if isinstance(o, float) else (o // 16, o % 16)
            if u in ("tuple", "ftuple") and isinstance(o, str):
                return (ord(o[0]) - 97, 9)
            if u == "intkey" and isinstance(o, bytes):
                return (o[0], 9)
            if u == "list" and isinstance(o, tuple):
                return (ord(o[0]) - 97, 9)
            return (self.dec_key(o[0])[0], o[1])
        except Exception:
            return (60, 0)

    def enc_item(self, o):
        k, p = self.dec_item(o)
        return k * 16 + p

    def enc_key(self, k):
        kk = self.dec_key(k)
        return kk[0] * 16 + kk[1] if self.u == "self" else kk[0]

    def enc_pairs(self, d):
        return [self.enc_key(k) * 1000 + self.enc_item(v) for k, v in d.items()]

    def ks_type(self):
        KS = self.KeyedSet
        if not self.typed:
            return KS
        if self.name == "uself":
            from typing import Union
            return KS[Union[int, str], str]
        if self.name == "fspec":
            return KS[self.Item, int]
        return {"self": lambda: KS[str, str], "tuple": lambda: KS[tuple, str], "spec": lambda: KS[self.Item, str],
                "intkey": lambda: KS[tuple, int], "dict": lambda: KS[dict, str], "list": lambda: KS[list, str],
                "int": lambda: KS[int, str], "ftuple": lambda: KS[tuple, str], "fdict": lambda: KS[dict, str]}[self.u]()

    def new(self, items):
        return self.ks_type()([self.item(x) for x in items], key=self.keyf, enforce_item_equivalence=self.enf)

    def operand(self, s, p):
        """python operand and the operand as the model must see it"""
        kind = p[0]
        if kind == "Self":
            return s, p
        if kind == "KS":
            return self.KeyedSet([self.item(x) for x in p[2]], key=self.keyf, enforce_item_equivalence=p[1]), p
        if kind == "List":
            return [self.item(x) for x in p[1]], p
        o = set(self.item(x) for x in p[1])
        return o, ("Set", [self.dec_item(x) for x in o])   # the model gets the iteration order

    def enc_new(self, s, r):
        if not isinstance(r, self.KeyedSet) or r is s:
            return [-99]
        if r._key is not s._key or r.enforce_item_equivalence != s.enforce_item_equivalence or r._type != s._type:
            return [-96]
        return [8] + self.enc_pairs(r._dict)

    def apply(self, s, op):
        """returns (encoded output, op as resolved for the model)"""
        name = op[0]
        if name not in OPERAND_OPS:
            return self.apply_simple(s, op), op
        o, p = self.operand(s, op[1])
        swapped = len(op) > 2 and op[2]
        rop = (name, p) + tuple(op[2:])
        snap = lambda: (list(o._dict.items()) if isinstance(o, self.KeyedSet) else set(o) if isinstance(o, set) else list(o))
        before = None if o is s else snap()
        try:
            out = self.apply_operand(s, name, o, swapped)
        except BaseException as e:  # BaseTypeError derives from BaseException
            if isinstance(e, (KeyboardInterrupt, SystemExit, AssertionError)):
                raise
            out = [ERR_CODES[outcome_class(e)]]
        if before is not None and before != snap():
            out = [-97]   # the operand was changed
        return out, rop

    def apply_operand(self, s, name, o, swapped):
        b = lambda r: [3, int(r)] if isinstance(r, bool) else [-99]
        if name == "Eq":
            return b(o == s if swapped else s == o)
        if name == "Ne":
            return b(o != s if swapped else s != o)
        if name in CMP:
            if swapped:
                return b(eval(f"o {CMP[SWAP[name]]} s", {"o": o, "s": s}))
            return b(eval(f"s {CMP[name]} o", {"o": o, "s": s}))
        if name == "IsDisjoint":
            return b(s.isdisjoint(o))
        sym = {"And": "&", "Or": "|", "Sub": "-", "Xor": "^"}
        if name in BIN:
            return self.enc_new(s, eval(f"s {sym[name]} o", {"o": o, "s": s}))
        if name[0] == "R":
            if isinstance(o, self.KeyedSet):   # the operator syntax would dispatch to o's own method
                r = getattr(s, {"RAnd": "__rand__", "ROr": "__ror__", "RSub": "__rsub__", "RXor": "__rxor__"}[name])(o)
            else:
                r = eval(f"o {sym[name[1:]]} s", {"o": o, "s": s})
            return self.enc_new(s, r)
        s0 = s
        if name == "IOr":
            s |= o
        elif name == "IAnd":
            s &= o
        elif name == "ISub":
            s -= o
        elif name == "IXor":
            s ^= o
        else:
            raise AssertionError(name)
        return [9] if s is s0 else [-99]

    def apply_simple(self, s, op):
        name, a = op[0], op[1:]
        if name == "Add":
            r = s.add(self.item(a[0])); return [0] if r is None else [-99]
        if name == "Discard":
            r = s.discard(self.arg(a[0])); return [0] if r is None else [-99]
        if name == "Remove":
            r = s.remove(self.arg(a[0])); return [0] if r is None else [-99]
        if name == "Pop":
            return [1, self.enc_item(s.pop())]
        if name == "Clear":
            s.clear(); return [0]
        if name == "Contains":
            r = self.arg(a[0]) in s; return [3, int(r)] if isinstance(r, bool) else [-99]
        if name == "GetItem":
            return [1, self.enc_item(s[self.arg(a[0])])]
        if name == "Get":
            v = s.get(self.keyarg(a[0])); return [5] if v is None else [5, self.enc_item(v)]
        if name == "Len":
            return [4, len(s)]
        if name == "Iter":
            return [2] + [self.enc_item(x) for x in iter(s)]
        if name == "Keys":
            return [6] + [self.enc_key(k) for k in s.keys()]
        if name == "Items":
            return [7] + [self.enc_key(k) * 1000 + self.enc_item(v) for k, v in s.items()]
        raise AssertionError(name)

    def run(self, init, ops):
        s = self.new(init)
        seen, resolved = [], []
        for op in ops:
            try:
                out, rop = self.apply(s, op)
            except BaseException as e:  # BaseTypeError derives from BaseException
                if isinstance(e, (KeyboardInterrupt, SystemExit, AssertionError)):
                    raise
                out, rop = [ERR_CODES[outcome_class(e)]], op
            seen.append((out, self.enc_pairs(s._dict)))
            resolved.append(rop)
        return seen, resolved


# ------------------------------------------------------------------ Coq side
def c_item(kp):
    return f"({cz(kp[0])}, {cz(kp[1])})"


def c_key(u, kp):
    return c_item(kp) if base(u) == "self" else cz(kp[0])


def c_arg(u, a):
    return f"(AItem {c_item(a[1])})" if a[0] == "I" else f"(AKey {c_key(u, a[1])})"


def c_operand(p):
    if p[0] == "Self":
        return "PSelf"
    if p[0] == "KS":
        return f"(PKS {cbool(p[1])} {clist(p[2], c_item)})"
    return f"(P{p[0]} {clist(p[1], c_item)})"


def c_op(u, op):
    n, a = op[0], op[1:]
    if n == "Add":
        return f"OAdd {c_item(a[0])}"
    if n in ("Discard", "Remove", "Contains", "GetItem"):
        return f"O{n} {c_arg(u, a[0])}"
    if n == "Get":
        return f"OGet {c_key(u, a[0])}"
    if n in OPERAND_OPS:
        return f"O{n} {c_operand(a[0])}"
    return f"O{n}"


def c_case(u, typed, enf, init, ops, seen):
    obs = clist(seen, lambda o: f"({czlist(o[0])}, {czlist(o[1])})")
    hash_ok = UNIVERSES[u]["hashable"] or UNIVERSES[u].get("hash_ok", False)
    return (f"mkcase {cbool(typed)} {cbool(enf)} {cbool(UNIVERSES[u]['bare'])} {cbool(hash_ok)} {clist(init, c_item)} "
            f"{clist(ops, lambda o: c_op(u, o))} {obs}")


# ------------------------------------------------------------------ generation
def bad_items(u, keys, pays, typed):
    bad = []
    if typed:
        bad.append((keys[0], 9))
        if u not in ("self", "spec", "int", "uself", "fspec", "fspecs", "fself"):
            bad.append((9, pays[0]))
    return bad


def operand_lists(u, keys, pays, typed):
    items = [(k, p) for k in keys for p in pays]
    bad = bad_items(u, keys, pays, typed)
    lists = [[]] + [[x] for x in items + bad]
    two = [[a, b] for i, a in enumerate(items) for b in items[i + 1:]]
    lists += two[::2] + [[b, a] for a, b in two[1::4]]
    lists += [[items[0], items[3], items[-1]], [items[-1], items[1], items[2]]][:2 if len(items) > 3 else 0]
    lists += [[items[0], x] for x in bad] + [[x, items[-1]] for x in bad]
    return lists


def operand_pool(u, keys, pays, typed):
    pool = []
    for xs in operand_lists(u, keys, pays, typed):
        if len({x[0] for x in xs}) == len(xs):
            pool += [("KS", False, xs), ("KS", True, xs)]
        if UNIVERSES[u]["hashable"]:
            pool.append(("Set", xs))
        pool.append(("List", xs))
    pool.append(("List", [(keys[0], pays[0]), (keys[0], pays[0])]))
    pool.append(("Self",))
    return pool


def op_instances(u, keys, pays, typed):
    """every operation instance over the item universe keys x pays"""
    items = [(k, p) for k in keys for p in pays]
    bad = bad_items(u, keys, pays, typed)
    ops = [("Add", x) for x in items + bad]
    args = [("I", x) for x in items + bad[:1]]
    args += [("K", (k, pays[0])) for k in keys] if base(u) != "self" else []
    for a in args:
        ops += [("Discard", a), ("Remove", a), ("Contains", a), ("GetItem", a)]
    ops += [("Get", (k, pays[0])) for k in keys] if base(u) != "self" else [("Get", x) for x in items]
    ops += [("Pop",), ("Clear",), ("Len",), ("Iter",), ("Keys",), ("Items",)]
    if not UNIVERSES[u]["hashable"]:
        ops += [(n, ("Set", []), sw) for n in ("Eq", "Ne") for sw in (False, True)]
    for p in operand_pool(u, keys, pays, typed):
        for n in OPERAND_OPS:
            if n in ("Eq", "Ne", "Le", "Lt", "Ge", "Gt") and p[0] == "Set":
                ops += [(n, p, False), (n, p, True)]
            else:
                ops.append((n, p))
    return ops


def states(keys, pays, maxlen):
    out = [[]]
    for n in range(1, maxlen + 1):
        for ks in itertools.permutations(keys, n):
            for ps in itertools.product(pays, repeat=n):
                out.append(list(zip(ks, ps)))
    return out


SIMPLE = ("Add", "Add", "Add", "Discard", "Remove", "Contains", "GetItem", "Get", "Pop", "Clear", "Len", "Iter",
          "Keys", "Items")


def random_op(rng, u, typed):
    keys, pays = rng.sample(range(5), 3), rng.sample([0, 1, 2], 2)
    items = [(k, p) for k in keys for p in pays]
    bad = bad_items(u, keys, pays, typed)
    if rng.random() < 0.45:
        n = rng.choice(SIMPLE)
        if n == "Add":
            return (n, rng.choice(items + bad))
        if n == "Get":
            return (n, rng.choice(items))
        if n in ("Discard", "Remove", "Contains", "GetItem"):
            if base(u) != "self" and rng.random() < 0.4:
                return (n, ("K", rng.choice(items)))
            return (n, ("I", rng.choice(items + bad[:1])))
        return (n,)
    n = rng.choice(OPERAND_OPS)
    xs = [rng.choice(items + bad) if rng.random() < 0.15 else rng.choice(items) for _ in range(rng.choice([0, 1, 1, 2, 2, 3, 4]))]
    kinds = ["KS", "KS", "List", "Self"] + (["Set", "Set"] if UNIVERSES[u]["hashable"] else [])
    kind = rng.choice(kinds)
    if n in ("Eq", "Ne") and not UNIVERSES[u]["hashable"] and rng.random() < 0.2:
        return (n, ("Set", []), rng.random() < 0.5)
    if kind == "Self":
        return (n, ("Self",))
    if kind == "KS":
        seen, ys = set(), []
        for x in xs:
            if x[0] not in seen:
                seen.add(x[0]); ys.append(x)
        return (n, ("KS", rng.random() < 0.5, ys))
    if kind == "Set":
        ys = [x for i, x in enumerate(xs) if x not in xs[:i]]
        if n in ("Eq", "Ne", "Le", "Lt", "Ge", "Gt"):
            return (n, ("Set", ys), rng.random() < 0.5)
        return (n, ("Set", ys))
    return (n, ("List", xs))


def random_case(rng, u, typed, maxops):
    keys, pays = list(range(5)), [0, 1, 2]
    n0 = rng.choice([0, 1, 2, 3, 4, 5])
    ks = rng.sample(keys, n0)
    init = [(k, rng.choice(pays)) for k in ks]
    return init, [random_op(rng, u, typed) for _ in range(rng.randint(1, maxops))]


def generate(rng, tier):
    cases = []
    quick = tier == "quick"
    configs = [(u, t, e) for u in UNAMES for t in (False, True) for e in (False, True)
               if t or not UNIVERSES[u].get("typed_only")]
    # small scope: every state of <= 2 items over 3 keys x 2 payloads (thorough: <= 3
    # items) x a stride through every operation instance, depth 1
    for u, typed, enf in configs:
        keys, pays = [0, 1, 2], [0, 1]
        insts = op_instances(u, keys, pays, typed)
        for init in states(keys, pays, 2 if quick else 3):
            st = 40 if quick else (4 if len(init) < 3 else 32)
            for op in insts[rng.randrange(st)::st]:
                cases.append((u, typed, enf, init, [op], "exh1"))
    # every entry point that can reach the equivalence check, with an incoming item that
    # shares its key with a stored (possibly falsy: payload 0 / the int 0) unequal item:
    # add, |=, ^=, the binary operators (results are built by the constructor), and
    # construction from an iterable with two items under one key; all operand kinds
    for u, typed, enf in configs:
        if typed:
            continue   # the type parameters play no role in the equivalence check
        keys, pays = [0, 1], [0, 1]
        for k in (keys if enf else keys[:1]):
            for p in pays:
                x, other = (k, 1 - p), (1 - k, p)
                for init in ([(k, p)], [other, (k, p)], []):
                    ops = [("Add", x)]
                    for xs in ([x], [other, x], [(k, p), x]):
                        operands = [("List", xs)]
                        if len({y[0] for y in xs}) == len(xs):
                            operands += [("KS", False, xs), ("KS", True, xs)]
                        if UNIVERSES[u]["hashable"]:
                            operands.append(("Set", xs))
                        for o in operands:
                            ops += [(n, o) for n in ("IOr", "IXor", "Or", "ROr", "Xor", "RXor", "And", "RSub")]
                    for op in ops:
                        cases.append((u, typed, enf, init, [op], "equiv"))
    # depth 2 over a smaller universe
    for u, typed, enf in configs:
        keys, pays = [0, 1], [0, 1]
        insts = op_instances(u, keys, pays, typed)
        for init in states(keys, pays, 2):
            for _ in range(6 if quick else 120):
                cases.append((u, typed, enf, init, [rng.choice(insts), rng.choice(insts)], "exh2"))
    # random longer sequences over 5 keys x 3 payloads
    n_rand = 4800 if quick else 80000
    for i in range(n_rand):
        u, typed, enf = configs[i % len(configs)]
        init, ops = random_case(rng, u, typed, 8 if quick else 16)
        cases.append((u, typed, enf, init, ops, "rand"))
    return cases


# ------------------------------------------------------------------ check
def ks_eval(prelude, check_fn, case_terms, tag, case_type, shard=300):
    """common.coq_eval, but in a directory private to this process (concurrent
    runs of this check, or somebody tidying coq/Corr/gen, cannot take the case
    files away) and with one retry of shards whose file vanished or that died."""
    import os
    import re
    import shutil
    from concurrent.futures import ThreadPoolExecutor
    from common import GEN, JOBS, _eval_shard
    d = os.path.join(GEN, f"C14_{os.getpid()}")
    texts = {}
    for k in range(0, len(case_terms), shard):
        path = os.path.join(d, f"C14_{tag}_{k // shard}.v")
        texts[path] = (k, prelude + "\n" + f"Definition cases : list ({case_type}) := [\n"
                       + ";\n".join(case_terms[k:k + shard]) + "\n].\n"
                       + f"Definition result := Eval vm_compute in (failing (map {check_fn} cases)).\nPrint result.\n")
    bad, logs, todo = [], [], list(texts)
    for attempt in (1, 2):
        os.makedirs(d, exist_ok=True)
        for path in todo:
            with open(path, "w") as fh:
                fh.write(texts[path][1])
        again = []
        with ThreadPoolExecutor(max_workers=JOBS) as ex:
            for path, rc, out in ex.map(_eval_shard, [(p,) for p in todo]):
                m = re.search(r"result\s*=\s*(.*?)\s*:\s*list", out, re.S) if rc == 0 else None
                if not m:
                    if attempt == 1:
                        again.append(path)
                    else:
                        logs.append(f"{path}: rc={rc}\n{out[:600]} ... {out[-600:]}")
                    continue
                for a, b in re.findall(r"\((\d+)%?n?a?t?,\s*(\d+)%?n?a?t?\)", m.group(1)):
                    bad.append((texts[path][0] + int(a), int(b)))
        todo = again
        if not todo:
            break
    shutil.rmtree(d, ignore_errors=True)
    return bad, logs


def evaluate(cases, tag="c"):
    """run implementation and Coq on cases; returns ([(index, code, seen, resolved ops)], logs)"""
    impls = {}
    by_u = {"self": [], "fst": []}
    for i, (u, typed, enf, init, ops, _) in enumerate(cases):
        impl = impls.setdefault((u, typed, enf), Impl(u, typed, enf))
        try:
            seen, rops = impl.run(init, ops)
        except BaseException as e:
            if isinstance(e, (KeyboardInterrupt, SystemExit)):
                raise
            seen, rops = [([-98], [])], ops[:1]  # initial container failed / operand mutated
        by_u["self" if base(u) == "self" else "fst"].append((i, c_case(u, typed, enf, init, rops, seen), seen, rops))
    bad, logs = [], []
    for g, fn, ty in (("self", "check_ks_self", "@case kitem"), ("fst", "check_ks_fst", "@case Z")):
        if not by_u[g]:
            continue
        b, lg = ks_eval(PRELUDE, fn, [t for _, t, _, _ in by_u[g]], tag=f"{tag}{g}", case_type=ty)
        bad += [(by_u[g][j][0], code, by_u[g][j][2], by_u[g][j][3]) for j, code in b]
        logs += lg
    return bad, logs


def shrink(case, code):
    u, typed, enf, init, ops, kind = case
    cur = (u, typed, enf, list(init), list(ops), kind)
    for _ in range(16):
        cands = []
        for j in range(len(cur[4])):
            cands.append(cur[:4] + (cur[4][:j] + cur[4][j + 1:], kind))
        for j in range(len(cur[3])):
            cands.append(cur[:3] + (cur[3][:j] + cur[3][j + 1:], cur[4], kind))
        # shrink the operand of the last operation
        last = cur[4][-1]
        if last[0] in OPERAND_OPS and last[1][0] != "Self":
            p = last[1]
            xs = p[-1]
            for j in range(len(xs)):
                q = p[:-1] + (xs[:j] + xs[j + 1:],)
                cands.append(cur[:4] + (cur[4][:-1] + [(last[0], q) + tuple(last[2:])], kind))
        cands = [c for c in cands if c[4]]
        if not cands:
            break
        bad, _ = evaluate(cands, tag="s")
        hit = [i for i, c, _, _ in bad if c == code]
        if not hit:
            break
        cur = cands[min(hit)]
    return cur


def describe(case, code, seen, rops):
    u, typed, enf, init, ops, kind = case
    return {"universe": u, "typed": typed, "enforce_item_equivalence": enf, "init": init, "ops": ops,
            "ops_as_seen_by_model": rops, "observed": seen, "code": code,
            "meaning": {1: "model and implementation differ; the map specification still accepts the run",
                        2: "the implementation's run is not a run of the map specification",
                        3: "initial container not constructible"}.get(code, "?"),
            "encoding": "item (k, p) -> k*16+p; observation = (output, [key*1000+item for _dict.items()]); "
                        "outputs: [0] None, [1,x] item, [2,..] items, [3,b] bool, [4,n] int, [5,x?] optional, "
                        "[6,..] keys, [7,..] pairs, [8,..] new KeyedSet, [9] self, [-n] error class n, "
                        "[-96] result lost key function/flag/type, [-97] operand changed, [-99] wrong kind of result",
            "replay": "bin/check C14 --replay <this file>"}


def fix_operand(p):
    p = list(p)
    if p[0] == "Self":
        return ("Self",)
    if p[0] == "KS":
        return ("KS", bool(p[1]), [tuple(x) for x in p[2]])
    return (p[0], [tuple(x) for x in p[1]])


def fix_op(o):
    """JSON turns tuples into lists; restore the shapes used above."""
    n = o[0]
    if n in OPERAND_OPS:
        return (n, fix_operand(o[1])) + tuple(bool(x) for x in o[2:])
    if n == "Add" or n == "Get":
        return (n, tuple(o[1]))
    if n in ("Discard", "Remove", "Contains", "GetItem"):
        return (n, (o[1][0], tuple(o[1][1])))
    return (n,)


def op_kind(op):
    return op[0] + ("/" + op[1][0] if op[0] in OPERAND_OPS else "")


def anchored_code():
    """code objects of the anchored functions: KeyedSet's and KeyedBase's own
    methods and the collections.abc Set / MutableSet mixins it inherits"""
    import _collections_abc as abc
    from spec_classes.types.keyed import KeyedBase, KeyedSet
    out = {}
    for cls, label in ((KeyedSet, "KeyedSet"), (KeyedBase, "KeyedBase"), (abc.Set, "Set"), (abc.MutableSet, "MutableSet")):
        for name, f in vars(cls).items():
            fs = []
            if isinstance(f, property):
                fs = [g for g in (f.fget, f.fset) if g]
            elif isinstance(f, classmethod):
                fs = [f.__func__]
            elif callable(f) and hasattr(f, "__code__"):
                fs = [f]
            for g in fs:
                if name in ("__spec_class_check_type__", "_hash", "__repr__"):
                    continue   # not part of the modelled behaviour
                if label in ("Set", "MutableSet") and name in ("add", "discard", "__eq__", "__ior__", "__ixor__",
                                                                  "_from_iterable", "__contains__", "__iter__", "__len__"):
                    continue   # replaced by KeyedSet (not reached through super()) / abstract
                if g.__code__ in out.values():
                    continue   # __rand__ = __and__ etc.: one code object
                out[f"{label}.{name}" + (".setter" if isinstance(f, property) and g is f.fset else "")] = g.__code__
    return out


def line_coverage(cases):
    """lines of the anchored functions executed while running `cases` on the implementation"""
    import sys
    codes = anchored_code()
    wanted = {c: n for n, c in codes.items()}
    hit = {n: set() for n in codes}

    def tracer(frame, event, arg):
        n = wanted.get(frame.f_code)
        if n is None:
            # generator expressions / nested code inside the mixins
            return tracer if frame.f_code.co_filename.endswith(("_collections_abc.py", "keyed.py")) else None
        if event == "line":
            hit[n].add(frame.f_lineno)
        return tracer

    def local(frame, event, arg):
        return tracer(frame, event, arg)

    impls = {}
    sys.settrace(local)
    try:
        for c in cases:
            impl = impls.setdefault(c[:3], Impl(*c[:3]))
            try:
                impl.run(c[3], c[4])
            except BaseException:
                pass
    finally:
        sys.settrace(None)
    report, missed = {}, {}
    for n, code in codes.items():
        lines = {ln for _, _, ln in code.co_lines() if ln is not None and ln != code.co_firstlineno}
        if not lines:
            continue
        got = hit[n] & lines
        report[n] = f"{len(got)}/{len(lines)}"
        if lines - got:
            missed[n] = sorted(lines - got)
    return report, missed


def main(tier, replay=None):
    chk = Check("C14", tier)
    if replay:
        r = json.load(open(replay))
        if r.get("kind") in ("proof", "coq-eval"):
            ok = chk.proofs()
            print("replay: proof obligations", "check" if ok else "still fail")
            return 0 if ok else 1
        case = (r["universe"], r["typed"], r["enforce_item_equivalence"], [tuple(x) for x in r["init"]],
                [fix_op(o) for o in r["ops"]], "replay")
        bad, logs = evaluate([case], tag="r")
        print("replay:", "still failing code=%s" % bad[0][1] if bad else "passes now", logs)
        print("observed now:", Impl(case[0], case[1], case[2]).run(case[3], case[4])[0])
        return 1 if bad or logs else 0
    chk.proofs()
    cases = generate(chk.rng, tier)
    bad, logs = evaluate(cases)
    hist, errs, sizes, outs = {}, {}, {}, 0
    for c in cases:
        for o in c[4]:
            hist[op_kind(o)] = hist.get(op_kind(o), 0) + 1
        sizes[len(c[3])] = sizes.get(len(c[3]), 0) + 1
    # error kinds actually observed on the implementation (sampled again on a subset to keep this cheap)
    inv = {v: k for k, v in ERR_CODES.items()}
    impls = {}
    for c in cases[::7]:
        impl = impls.setdefault(c[:3], Impl(*c[:3]))
        try:
            seen, _ = impl.run(c[3], c[4])
        except BaseException:
            continue
        for o, _d in seen:
            outs += 1
            if o and o[0] < 0:
                errs[inv.get(o[0], str(o[0]))] = errs.get(inv.get(o[0], str(o[0])), 0) + 1
    distinct = {repr(c[:5]) for c in cases}
    reported = set()
    for i, code, seen, rops in sorted(bad, key=lambda b: (-b[1], len(cases[b[0]][4])))[:40]:
        small = shrink(cases[i], code)
        last = small[4][-1]
        sig = {"op": last[0], "operand": last[1][0] if last[0] in OPERAND_OPS else None,
               "universe": small[0], "typed": small[1], "enforce": small[2]}
        key = (sig["op"], sig["operand"], small[2], code)
        if key in reported:
            continue
        reported.add(key)
        seen2, rops2 = Impl(small[0], small[1], small[2]).run(small[3], small[4])
        what = (f"KeyedSet {'violates the map specification' if code == 2 else 'differs from the model'}: "
                f"universe={small[0]} typed={small[1]} enforce={small[2]} init={small[3]} ops={small[4]}")
        chk.violation(what, describe(small, code, seen2, rops2), sig=sig, no_input=(code != 2))
    for lg in logs:
        chk.violation("correspondence evaluation failed: " + lg[-500:], {"kind": "coq-eval", "log": lg}, no_input=True)
    kinds = {}
    for c in cases:
        kinds[c[5]] = kinds.get(c[5], 0) + 1
    pick = [cases[0], cases[len(cases) // 2], cases[-1]]
    cov_report, cov_missed = line_coverage(cases[::(9 if tier == "quick" else 37)])
    extra = {
        "anchored_line_coverage": {"executed/total per function": cov_report,
                                   "modelled, not tied in this run (lines never executed)": cov_missed},
        "correspondence": {"cases": len(cases), "operations": sum(len(c[4]) for c in cases),
                           "disagreements": len(bad), "by_generator": kinds, "op_histogram": hist,
                           "initial_size_histogram": sizes,
                           "error_kinds_observed_on_every_7th_case": errs, "outputs_in_that_sample": outs,
                           "universes": UNAMES, "typed_and_untyped": True, "both_flag_settings": True,
                           "operand_kinds": ["KeyedSet (either flag)", "built-in set", "list", "the receiver itself"]},
        "evaluations": len(cases), "distinct_nontrivial": len(distinct),
        "rule": "case = (universe, typed, enforce_item_equivalence, initial items, operation list); depth-1: every state "
                "of <=2 (thorough <=3) items of 3 keys x 2 payloads x a stride through every operation instance "
                "(quick: every 40th; thorough: every 4th for <=2 items, every 32nd for 3); 'equiv': every entry point reaching the equivalence check x every operand kind x stored/incoming items under one key (payload 0 is falsy in three universes), exhaustive over 2 keys x 2 payloads, sampled depth-2, random "
                "sequences of <=8/16 operations over 5 keys x 3 payloads; distinct = distinct tuples; every case has >=1 operation",
        "samples": [dict(universe=c[0], typed=c[1], enforce=c[2], init=c[3], ops=c[4]) for c in pick],
        "exhaustive": False,
    }
    return chk.finish(
        trusted_base=["Coq 8.16.1 kernel and vm_compute", "no axioms (Print Assumptions: closed under the global context)",
                      "hand-written model coq/KS/Model.v (KeyedSet + collections.abc Set/MutableSet mixins + dict semantics) "
                      "tied to /repo by this run's correspondence",
                      "harness/c14.py encoders and the fourteen item universes"],
        assumptions=["items are values: == on items is equality; key functions are total on items and, on bare keys, "
                     "either return the key or raise TypeError (DESIGN section 7)",
                     "an item that can itself be used as a dictionary key is its own key (the class docstring warns "
                     "against universes where an item is another item's key)",
                     "KeyedSet operands of binary operators use the receiver's key function and are unparameterised; "
                     "a built-in set operand is given to the model in its iteration order",
                     "== is mapping equality (same keys, equal items); with enforce_item_equivalence=True, or against "
                     "operands holding a different item under a shared key, the algebra is on (key, item) pairs - "
                     "key-set laws are proved for operands that agree on shared keys (docs/C14.md)"],
        extra=extra)
