"""Generators for the instance-level properties: class tables and operation histories."""

INT, STR = ("int",), ("str",)


def V(n):
    return ("int", n)


def S(z):
    return ("str", z)


NONE, MISSING, UNCHANGED, EMPTY = ("none",), ("missing",), ("unchanged",), ("empty",)


def gen_table(rng, flavour=None):
    """K1 leaf (maybe keyed / frozen), K2 node with scalar, nested and collection
    attributes, K3 spec subclass of K2."""
    keyed = rng.random() < 0.5
    k1_frozen = rng.random() < (0.5 if flavour == "frozen" else 0.12)
    k2_frozen = rng.random() < (0.5 if flavour == "frozen" else 0.08)
    if flavour == "frozen_parent":      # frozen holder of non-frozen nested values
        k1_frozen, k2_frozen = False, True
    decl = lambda: rng.choice(["plain", "Attr", "field"])
    k1 = {"id": 1, "eager": rng.random() < 0.5, "frozen": k1_frozen, "key": 2 if keyed else None, "attrs": [
        {"aid": 2, "ty": STR, "default": rng.choice([None, S(7)]) if not keyed else rng.choice([None, None, S(7)]), "decl": decl()},
        {"aid": 1, "ty": INT, "default": rng.choice([None, V(0), V(5)]), "decl": decl()},
        {"aid": 3, "ty": ("opt", INT), "default": rng.choice([None, NONE]), "decl": decl()},
    ]}
    k1_noarg = not (keyed and k1["attrs"][0]["default"] is None)
    a4_choices = [(None, None)]
    if k1_noarg:
        a4_choices.append((None, ("inst", 1)))
    a4d, a4f = rng.choice(a4_choices)
    lst_default = rng.choice([(None, None), (("list", [V(1), V(2)]), None), (None, ("list", [])), (None, ("list", [V(3)]))])
    dct_default = rng.choice([(None, None), (("dict", [(S(7), V(1))]), None), (None, ("dict", []))])
    set_default = rng.choice([(None, None), (("set", [V(1)]), None), (None, ("set", []))])
    a1_prep = rng.choice([None, None, ("id",), ("addint", 1)])
    c50_prep_item = rng.choice([None, None, None, ("addint", 10), ("id",)])
    c51_prep_item = rng.choice([None, None, None, ("addint", 10), ("id",)])
    # (no item preparer on the set attribute: Python iterates a set in hash order, the model in
    # insertion order, and with a callback made to fail at its n-th invocation the order shows)
    c52_prep_item = None
    k2_attrs = [
        {"aid": 1, "ty": INT, "default": rng.choice([None, V(3)]), "decl": decl(), "prepare": a1_prep},
        {"aid": 4, "ty": ("spec", 1), "default": a4d, "factory": a4f, "dnc": rng.random() < 0.15},
        {"aid": 50, "ty": ("list", INT), "default": lst_default[0], "factory": lst_default[1], "decl": decl(),
         "prepare_item": c50_prep_item, "dnc": rng.random() < 0.1},
        {"aid": 51, "ty": ("dict", STR, INT), "default": dct_default[0], "factory": dct_default[1], "decl": decl(),
         "prepare_item": c51_prep_item, "dnc": rng.random() < 0.1},
        {"aid": 52, "ty": ("set", INT), "default": set_default[0], "factory": set_default[1], "decl": decl(),
         "prepare_item": c52_prep_item},
        {"aid": 53, "ty": ("list", ("spec", 1)), "default": None, "factory": rng.choice([None, ("list", [])]),
         "prepare_item": rng.choice([None, None, None, ("id",)])},
        {"aid": 54, "ty": ("dict", STR, ("spec", 1)), "default": None, "factory": rng.choice([None, ("dict", [])]),
         "prepare_item": rng.choice([None, None, None, ("id",)])},
        {"aid": 3, "ty": ("opt", INT), "default": rng.choice([None, NONE, V(4)]), "decl": "Attr",
         "inv_by": rng.choice([[], [], [1], [99]])},
    ]
    if flavour == "inv_factory":
        # a dependant whose reset runs a default factory (a user callback that may raise): the
        # set attribute is invalidated by attribute 1.  Exactly one dependant: the implementation
        # resets several dependants in set-iteration order, which the model does not have.
        k2_attrs[4].update(default=None, factory=("set", []), inv_by=[1], decl="Attr",
                           prepare=rng.choice([None, ("id",)]))
        k2_attrs[7]["inv_by"] = []
    k2 = {"id": 2, "eager": rng.random() < 0.5, "frozen": k2_frozen, "attrs": k2_attrs,
          "post_copy": rng.choice([None, None, None, ("id",)])}
    k3 = {"id": 3, "base": 2, "eager": rng.random() < 0.5, "frozen": k2_frozen, "frozen_inherited": True, "attrs": [
        {"aid": 1, "inherited": True, **({"override": V(9)} if rng.random() < 0.5 else {})},
        {"aid": 4, "inherited": True, "dnc": k2_attrs[1]["dnc"]}, {"aid": 50, "inherited": True, "dnc": k2_attrs[2]["dnc"]},
        {"aid": 51, "inherited": True, "dnc": k2_attrs[3]["dnc"]},
        {"aid": 52, "inherited": True}, {"aid": 53, "inherited": True}, {"aid": 54, "inherited": True},
        {"aid": 3, "inherited": True},
        {"aid": 5, "ty": INT, "default": rng.choice([None, V(1)]), "decl": decl()},
    ]}
    if flavour == "wide":        # Union and Optional[spec] positions
        k2_attrs.append({"aid": 6, "ty": ("union", INT, STR), "default": rng.choice([None, V(1), S(7)]),
                         "decl": rng.choice(["plain", "Attr"])})
        k2_attrs.append({"aid": 8, "ty": ("opt", ("spec", 1)), "default": rng.choice([None, NONE])})
        k3["attrs"][-1:-1] = [{"aid": 6, "inherited": True}, {"aid": 8, "inherited": True}]
    # a dnc flag is a class-level decorator argument: inherited attributes get
    # re-built with the subclass's own (empty) do_not_copy list, so drop it there
    table = [k1, k2, k3]
    if flavour == "plain":       # a plain (undecorated) subclass of K2 overriding some defaults
        ov = []
        if rng.random() < 0.7:
            ov.append({"aid": 1, "inherited": True, "override": V(rng.choice([8, 9]))})
        if rng.random() < 0.5:
            ov.append({"aid": 50, "inherited": True, "override": ("list", [V(7)])})
        if rng.random() < 0.4:
            ov.append({"aid": 3, "inherited": True, "override": V(6)})
        table.append({"id": 4, "base": 2, "kind": "plain", "frozen": k2_frozen, "frozen_inherited": True, "attrs": ov})
    return table


class Hist:
    """Builds a history; tracks what each root is expected to be."""

    def __init__(self, rng, table, nd):
        self.rng, self.table, self.nd = rng, table, nd
        self.ops = []
        self.kinds = ["default"] * nd    # per root: ("inst", cid) | ("list",..) | ...
        self.k1 = table[0]
        self.keyed = self.k1["key"] is not None
        self.k1_noarg = not (self.keyed and self.k1["attrs"][0]["default"] is None)
        self.prefer_nested = False

    def add(self, op, kind, fail_at=None):
        self.ops.append((op, fail_at))
        if op[0] != "same":
            self.kinds.append(kind)
            return len(self.kinds) - 1
        return None

    def roots_of(self, pred):
        return [i for i, k in enumerate(self.kinds) if pred(k)]

    # ---- argument construction
    def alloc(self, obj):
        return ("root", self.add(("alloc", obj), (obj[0],)))

    def new_k1(self, bad=False):
        rng = self.rng
        kw = []
        pos = None
        if self.keyed:
            if rng.random() < 0.5:
                pos = S(rng.choice([7, 8, 9]))
            else:
                kw.append((2, S(rng.choice([7, 8, 9]))))
        elif rng.random() < 0.5 or self.k1["attrs"][0]["default"] is None:
            kw.append((2, S(rng.choice([0, 7, 8]))))
        if rng.random() < 0.7 or self.k1["attrs"][1]["default"] is None:
            kw.append((1, V(rng.choice([0, 1, 2])) if not bad else S(7)))
        if rng.random() < 0.3:
            kw.append((3, rng.choice([NONE, V(4)])))
        return ("root", self.add(("construct", 1, pos, kw), ("inst", 1)))

    def int_val(self, bad=False):
        if bad:
            return self.rng.choice([S(7), NONE, ("bool", True), ("atom", 0)])
        return V(self.rng.choice([0, 1, 2, 7, -1]))

    def list_int(self, bad=False):
        r = self.rng
        xs = [V(r.choice([0, 1, 2, 3])) for _ in range(r.choice([0, 1, 2, 3]))]
        if bad:
            xs.insert(r.randrange(len(xs) + 1), S(7))
        return self.alloc(("list", xs))

    def dict_str_int(self, bad=False):
        r = self.rng
        ks = r.sample([7, 8, 9, 0], r.choice([0, 1, 2]))
        kv = [(S(k), V(r.choice([0, 1, 2]))) for k in ks]
        if bad:
            kv.append(r.choice([(S(10), S(7)), (V(1), V(1))]))
        return self.alloc(("dict", kv))

    def set_int(self, bad=False):
        r = self.rng
        xs = [V(x) for x in r.sample([0, 1, 2, 3], r.choice([0, 1, 2]))]
        if bad:
            xs.append(S(7))
        return self.alloc(("set", xs))

    def k1_value(self, bad=False):
        r = self.rng.random()
        if bad:
            return self.rng.choice([V(1), NONE, S(7) if not self.keyed else V(2)])
        if r < 0.6:
            return self.new_k1()
        kv = [(S(1), V(self.rng.choice([0, 1])))]
        if self.keyed or self.rng.random() < 0.5:
            kv.append((S(2), S(self.rng.choice([7, 8]))))
        return self.alloc(("dict", kv))   # dict-as-kwargs

    def list_k1(self, bad=False):
        n = self.rng.choice([0, 1, 2])
        xs = [self.new_k1() for _ in range(n)]
        if self.keyed and self.rng.random() < 0.3:
            xs.append(S(self.rng.choice([10, 11])))   # bare key, promoted
        if bad:
            xs.append(V(3))
        return self.alloc(("list", xs))

    def dict_k1(self, bad=False):
        n = self.rng.choice([0, 1, 2])
        kv = [(S(k), self.new_k1()) for k in self.rng.sample([7, 8, 9], n)]
        if bad:
            kv.append((S(10), V(3)))
        return self.alloc(("dict", kv))

    def value_for(self, a, bad=False):
        t = a["ty"]
        if t == INT:
            return self.int_val(bad)
        if t == STR:
            return S(self.rng.choice([0, 7, 8])) if not bad else V(1)
        if t == ("opt", INT):
            return self.rng.choice([NONE, V(1), V(2)]) if not bad else S(7)
        if t == ("spec", 1):
            return self.k1_value(bad)
        if t == ("union", INT, STR):
            if bad:
                return self.rng.choice([NONE, self.alloc(("list", [V(1)])), ("atom", 0)])
            return self.rng.choice([V(2), S(8), ("bool", True)])
        if t == ("opt", ("spec", 1)):
            if not bad and self.rng.random() < 0.3:
                return NONE
            return self.k1_value(bad)
        if t == ("list", INT):
            return self.list_int(bad) if self.rng.random() < 0.9 else self.rng.choice([NONE, V(5)])
        if t == ("dict", STR, INT):
            return self.dict_str_int(bad)
        if t == ("set", INT):
            return self.set_int(bad)
        if t == ("list", ("spec", 1)):
            return self.list_k1(bad)
        if t == ("dict", STR, ("spec", 1)):
            return self.dict_k1(bad)
        raise AssertionError(t)

    # ---- instances
    def attrs_of(self, cid):
        if cid == 1:
            return self.table[0]["attrs"]
        base = self.table[1]["attrs"]
        if cid in (2, 4):        # K4: plain subclass of K2, same managed attributes
            return base
        return base + [a for a in self.table[2]["attrs"] if not a.get("inherited")]

    def construct(self, cid, bad_rate=0.0):
        rng = self.rng
        if cid == 1:
            return self.new_k1(bad=rng.random() < bad_rate)[1]
        kw = []
        for a in self.attrs_of(cid):
            need = a.get("default") is None and a.get("factory") is None and "override" not in a
            if rng.random() < (0.75 if need else 0.35):
                kw.append((a["aid"], self.value_for(a, bad=rng.random() < bad_rate)))
        if rng.random() < bad_rate / 2:
            kw.append((7, V(1)))   # unknown keyword
        rng.shuffle(kw)
        return self.add(("construct", cid, None, kw), ("inst", cid))

    def fn_for(self, t, bad=False, raising=False):
        rng = self.rng
        if raising:
            return ("raise",)
        if t in (INT, ("opt", INT)):
            return rng.choice([("addint", 1), ("id",), ("const", V(7))]) if not bad else rng.choice([("const", S(7)), ("newlist", [V(1)])])
        if t == STR:
            return rng.choice([("id",), ("const", S(8))]) if not bad else ("const", V(1))
        if t == ("list", INT):
            return rng.choice([("appended", V(4)), ("newlist", [V(1), V(2)]), ("id",)]) if not bad else rng.choice([("appended", S(7)), ("const", V(1))])
        if t == ("dict", STR, INT):
            return rng.choice([("dictof", 7, V(1)), ("id",)]) if not bad else ("dictof", 7, S(8))
        if t[0] == "spec":
            return ("id",) if not bad else ("const", V(1))
        return ("id",) if not bad else ("const", V(1))

    def scalar_helper(self, x, cid, bad_rate, inplace_rate, fail_rate=0.0):
        rng = self.rng
        a = rng.choice(self.attrs_of(cid))
        if self.prefer_nested and cid != 1 and rng.random() < 0.6:
            a = [x for x in self.attrs_of(cid) if x["aid"] == 4][0]
        t, aid = a["ty"], a["aid"]
        h = {"inplace": rng.random() < inplace_rate, "if_": rng.random() > 0.07}
        bad = rng.random() < bad_rate
        kind = rng.choice(["with", "with", "update", "transform", "reset"])
        if self.prefer_nested and aid == 4:
            kind = rng.choice(["update", "update", "transform", "with"])
        fail_at = None
        if kind == "with":
            r = rng.random()
            if r < 0.07:
                h["pos"] = [rng.choice([MISSING, UNCHANGED, EMPTY])]
            elif r < 0.12:
                h["pos"] = []
            else:
                h["pos"] = [self.value_for(a, bad)]
            if t == ("spec", 1) and rng.random() < 0.4:
                if rng.random() < 0.5:
                    h["pos"] = []
                h["kw"] = self.k1_kw(bad)
        elif kind == "update":
            if t == ("spec", 1):
                h["pos"] = [] if rng.random() < 0.7 else [self.value_for(a, bad)]
                h["kw"] = self.k1_kw(bad) if rng.random() < 0.8 else None
            else:
                h["pos"] = [self.value_for(a, bad)]
        elif kind == "transform":
            if t == ("spec", 1) and rng.random() < 0.6:
                h["kwfn"] = self.k1_kwfn(bad, fail_rate)
                if rng.random() < 0.3:
                    h["fn"] = ("id",)
            else:
                h["fn"] = self.fn_for(t, bad, raising=rng.random() < fail_rate)
        if rng.random() < fail_rate:
            fail_at = rng.choice([1, 1, 2, 3])
        return self.add(("helper", x, (kind, aid), h), ("inst", cid), fail_at)

    def k1_kw(self, bad=False):
        """keywords for a nested K1 value; when `bad`, exactly one keyword (at a random
        position, so that correct ones may precede it) carries an ill-typed value"""
        rng = self.rng
        kw = []
        if rng.random() < 0.8:
            kw.append((1, self.int_val(False)))
        if rng.random() < 0.4 or not kw:
            kw.append((2, S(rng.choice([7, 8]))))
        if rng.random() < 0.25:
            kw.append((3, rng.choice([NONE, V(4)])))
        rng.shuffle(kw)
        if bad:
            i = rng.randrange(len(kw))
            aid = kw[i][0]
            kw[i] = (aid, self.int_val(True) if aid == 1 else V(1) if aid == 2 else S(7))
        return kw

    def k1_kwfn(self, bad=False, fail_rate=0.0):
        """attribute transforms for a nested K1 value: one or two, the ill-typed / raising
        one at a random position"""
        rng = self.rng
        aids = [1] if rng.random() < 0.55 else rng.sample([1, 3], 2)
        tys = {1: INT, 3: ("opt", INT)}
        j = rng.randrange(len(aids))
        out = []
        for i, aid in enumerate(aids):
            hit = i == j
            out.append((aid, self.fn_for(tys[aid], bad and hit, raising=hit and rng.random() < fail_rate)))
        return out

    def item_helper(self, x, cid, bad_rate, inplace_rate, fail_rate=0.0):
        rng = self.rng
        colls = [a for a in self.attrs_of(cid) if a["ty"][0] in ("list", "dict", "set")]
        a = rng.choice(colls)
        if self.prefer_nested and rng.random() < 0.6:
            a = rng.choice([x for x in colls if x["aid"] in (53, 54)])
        t, aid = a["ty"], a["aid"]
        fam, ity = t[0], t[-1]
        h = {"inplace": rng.random() < inplace_rate, "if_": rng.random() > 0.05}
        bad = rng.random() < bad_rate
        kind = rng.choice(["with_item", "with_item", "update_item", "transform_item", "without_item"])
        idx = V(rng.choice([0, 1, -1, 2, 5, -3]))
        fail_at = rng.choice([1, 2]) if rng.random() < fail_rate else None

        def item(bad=False):
            if ity == INT:
                return self.int_val(bad)
            if bad:
                return rng.choice([V(3), NONE])
            if self.keyed and rng.random() < 0.25:
                return S(rng.choice([10, 11, 7]))
            return self.k1_value()
        key = S(rng.choice([7, 8, 9, 0]))
        if kind == "with_item":
            if fam == "list":
                h["pos"] = [item(bad)] if rng.random() < 0.9 else []
                r = rng.random()
                if r < 0.35:
                    h["index"] = idx
                    h["insert"] = rng.random() < 0.5
                if ity != INT and rng.random() < 0.3:
                    h["pos"] = [] if rng.random() < 0.5 else h["pos"]
                    h["kw"] = self.k1_kw(bad)
            elif fam == "dict":
                h["pos"] = [key if not (bad and rng.random() < 0.5) else V(1), item(bad and rng.random() < 0.7)]
                if ity != INT and rng.random() < 0.3:
                    h["pos"] = [key]
                    h["kw"] = self.k1_kw(bad)
            else:
                h["pos"] = [item(bad)]
        elif kind == "update_item":
            if fam == "list":
                h["pos"] = [idx if ity != INT or rng.random() < 0.5 else self.int_val(), item(bad)]
                if ity == INT:
                    h["by_index"] = rng.choice([None, True, False])
                elif rng.random() < 0.5:
                    h["pos"] = [idx]
                    h["kw"] = self.k1_kw(bad)
            elif fam == "dict":
                h["pos"] = [key, item(bad)]
                if ity != INT and rng.random() < 0.5:
                    h["pos"] = [key]
                    h["kw"] = self.k1_kw(bad)
            else:
                h["pos"] = [V(rng.choice([0, 1, 2, 3])), item(bad)]
        elif kind == "transform_item":
            if fam == "list":
                h["pos"] = [idx if ity != INT or rng.random() < 0.5 else self.int_val()]
                if ity == INT:
                    h["by_index"] = rng.choice([None, True, False])
            elif fam == "dict":
                h["pos"] = [key]
            else:
                h["pos"] = [V(rng.choice([0, 1, 2, 3]))]
            if ity != INT and rng.random() < 0.5:
                h["kwfn"] = self.k1_kwfn(bad, fail_rate)
                h["fn"] = ("id",)
            else:
                h["fn"] = self.fn_for(ity, bad, raising=rng.random() < fail_rate)
        else:
            if fam == "list":
                h["pos"] = [idx if ity != INT or rng.random() < 0.5 else self.int_val()]
                if ity == INT:
                    h["by_index"] = rng.choice([None, True, False])
            elif fam == "dict":
                h["pos"] = [key]
            else:
                h["pos"] = [V(rng.choice([0, 1, 2, 3]))]
        return self.add(("helper", x, (kind, aid), h), ("inst", cid), fail_at)

    def top_helper(self, x, cid, bad_rate, inplace_rate, fail_rate=0.0):
        rng = self.rng
        h = {"inplace": rng.random() < inplace_rate, "if_": rng.random() > 0.05}
        kind = rng.choice(["update_top", "transform_top", "reset_top"])
        attrs = self.attrs_of(cid)
        fail_at = rng.choice([1, 2]) if rng.random() < fail_rate else None
        if kind == "update_top":
            kw = []
            for a in rng.sample(attrs, rng.choice([1, 1, 2, 3])):
                kw.append((a["aid"], self.value_for(a, bad=rng.random() < bad_rate)))
            h["kw"] = kw
        elif kind == "transform_top":
            kwfn = []
            for a in rng.sample(attrs, rng.choice([1, 1, 2])):
                if a["ty"][0] in ("set",) or a["ty"][-1] == ("spec", 1) and a["ty"][0] != "spec":
                    continue
                kwfn.append((a["aid"], self.fn_for(a["ty"], bad=rng.random() < bad_rate,
                                                   raising=rng.random() < fail_rate)))
            if not kwfn or rng.random() < 0.3:
                h["fn"] = ("id",)   # a transform that hands back the object it was given
            h["kwfn"] = kwfn
        return self.add(("helper", x, (kind, None), h), ("inst", cid), fail_at)


def gen_history(rng, table, nd, n_ops, bad_rate=0.2, inplace_rate=0.3, fail_rate=0.0, weights=None,
                prefer_nested=False):
    h = Hist(rng, table, nd)
    h.prefer_nested = prefer_nested
    w = weights or {"construct": 2, "setattr": 2, "delattr": 1, "scalar": 5, "item": 5, "top": 2, "deepcopy": 1}
    kinds = [k for k, n in w.items() for _ in range(n)]
    if prefer_nested:
        # a holder whose nested attribute and nested collections are populated
        x = h.construct(rng.choice([2, 3]))
        for a in h.attrs_of(2):
            if a["aid"] in (4, 53, 54) and rng.random() < 0.8:
                h.add(("helper", x, ("with", a["aid"]), {"pos": [h.value_for(a)]}), ("inst", h.kinds[x][1]))
                x = len(h.kinds) - 1
    else:
        h.construct(rng.choice([2, 2, 3, 1] + ([4, 4, 4] if len(table) > 3 else [])))
    for _ in range(n_ops):
        insts = h.roots_of(lambda k: k[0] == "inst")
        k = rng.choice(kinds)
        if k == "construct" or not insts:
            h.construct(rng.choice([1, 2, 2, 3] + ([4, 4, 4] if len(table) > 3 else [])), bad_rate)
            continue
        x = rng.choice(insts[-4:])
        cid = h.kinds[x][1]
        if k == "setattr":
            a = rng.choice(h.attrs_of(cid))
            h.add(("setattr", x, a["aid"], h.value_for(a, bad=rng.random() < bad_rate)), ("none",))
        elif k == "delattr":
            a = rng.choice(h.attrs_of(cid))
            h.add(("delattr", x, a["aid"]), ("none",))
        elif k == "scalar":
            h.scalar_helper(x, cid, bad_rate, inplace_rate, fail_rate)
        elif k == "item" and cid != 1:
            h.item_helper(x, cid, bad_rate, inplace_rate, fail_rate)
        elif k == "top":
            h.top_helper(x, cid, bad_rate, inplace_rate, fail_rate)
        elif k == "deepcopy":
            h.add(("deepcopy", x), ("inst", cid))
    return h.ops


def gen_case(rng, n_ops=6, **kw):
    from inst_common import resolve_table
    table = gen_table(rng, kw.pop("flavour", None))
    _, heap0 = resolve_table(table)
    ops = gen_history(rng, table, len(heap0), n_ops, **kw)
    return {"table": table, "ops": ops, "nd": len(heap0)}


# ---------------------------------------------------------------------------
# Aimed element cases: small containers with KNOWN contents, every element helper, targets
# that are present and absent, replacement values that conform and that do not, nested
# keywords with the failing one first or last; copy-on-write and in place.  (Random histories
# rarely address an element that exists.)
def element_cases(rng, n, inplace_values=(False, True), flavour=None, handover=0.2):
    from inst_common import resolve_table
    out = []
    guard = 0
    while len(out) < n and guard < 20 * n:
        guard += 1
        table = gen_table(rng, flavour)
        if table[1].get("frozen"):
            continue
        _, heap0 = resolve_table(table)
        h = Hist(rng, table, len(heap0))
        fam = rng.choice(["list", "set", "dict", "list_k1", "dict_k1"])
        if rng.random() < handover:
            fam = "handover"
        inplace = rng.choice(list(inplace_values))
        hargs = {"inplace": inplace, "if_": True}
        if fam == "handover":
            # an EXISTING instance (which the caller keeps) handed over together with keyword
            # overrides: the holder gets an updated copy, the caller's object stays as it is
            item = h.new_k1()
            kw = [(1, V(rng.choice([3, 4])))]
            if rng.random() < 0.4:
                kw.append((3, V(4)))
            if rng.random() < 0.25:
                kw[rng.randrange(len(kw))] = (kw[0][0], S(7)) if kw[0][0] == 1 else (3, S(7))
            aid = rng.choice([53, 53, 54, 4, 4])
            x = h.add(("construct", 2, None, [(1, V(1))]), ("inst", 2))
            if aid == 53:
                kind = "with_item"
                hargs["pos"] = [item]
                if rng.random() < 0.3:
                    hargs["index"] = V(rng.choice([0, -1]))
                    hargs["insert"] = True
            elif aid == 54:
                kind = "with_item"
                hargs["pos"] = [S(7), item]
            else:
                kind = rng.choice(["with", "update"])
                hargs["pos"] = [item]
            hargs["kw"] = kw
        elif fam in ("list", "set", "dict"):
            vals = rng.sample([0, 1, 2, 3], rng.choice([1, 2, 3]))
            aid = {"list": 50, "set": 52, "dict": 51}[fam]
            if fam == "dict":
                coll = h.alloc(("dict", [(S(7 + i), V(v)) for i, v in enumerate(vals)]))
                present, absent = S(7), S(0)
            else:
                coll = h.alloc((fam, [V(v) for v in vals]))
                present, absent = V(vals[0]), V(9)
            x = h.add(("construct", 2, None, [(aid, coll), (1, V(1))]), ("inst", 2))
            kind = rng.choice(["with_item", "update_item", "transform_item", "without_item"])
            target = present if rng.random() < 0.75 else absent
            new = rng.choice([V(5), V(vals[-1]), S(7), NONE, ("bool", True)])
            if fam == "list":
                idx = V(rng.choice([0, -1, len(vals) - 1, len(vals), -len(vals) - 1]))
                by_value = rng.random() < 0.4
                first = target if by_value else idx
                if kind == "with_item":
                    hargs["pos"] = [new]
                    if rng.random() < 0.6:
                        hargs["index"] = idx
                        hargs["insert"] = rng.random() < 0.5
                elif kind == "update_item":
                    hargs["pos"] = [first, new]
                    hargs["by_index"] = (not by_value) if rng.random() < 0.7 else None
                elif kind == "transform_item":
                    hargs["pos"] = [first]
                    hargs["by_index"] = (not by_value) if rng.random() < 0.7 else None
                    hargs["fn"] = rng.choice([("addint", 1), ("const", S(7)), ("raise",), ("id",)])
                else:
                    hargs["pos"] = [first]
                    hargs["by_index"] = (not by_value) if rng.random() < 0.7 else None
            elif fam == "set":
                if kind == "with_item":
                    hargs["pos"] = [new]
                elif kind == "update_item":
                    hargs["pos"] = [target, new]
                elif kind == "transform_item":
                    hargs["pos"] = [target]
                    hargs["fn"] = rng.choice([("addint", 1), ("const", S(7)), ("raise",), ("id",)])
                else:
                    hargs["pos"] = [target]
            else:
                if kind == "with_item":
                    hargs["pos"] = [target if rng.random() < 0.8 else V(1), new]
                elif kind == "update_item":
                    hargs["pos"] = [target, new]
                elif kind == "transform_item":
                    hargs["pos"] = [target]
                    hargs["fn"] = rng.choice([("addint", 1), ("const", S(7)), ("raise",), ("id",)])
                else:
                    hargs["pos"] = [target]
        else:
            items = [h.new_k1() for _ in range(rng.choice([1, 2]))]
            aid = 53 if fam == "list_k1" else 54
            if fam == "list_k1":
                coll = h.alloc(("list", items))
                target = V(rng.choice([0, -1, len(items) - 1, 5]))
            else:
                coll = h.alloc(("dict", [(S(7 + i), it) for i, it in enumerate(items)]))
                target = S(rng.choice([7, 7, 8, 0]))
            x = h.add(("construct", 2, None, [(aid, coll), (1, V(1))]), ("inst", 2))
            kind = rng.choice(["update_item", "update_item", "transform_item", "with_item"])
            bad = rng.random() < 0.7
            if kind == "transform_item":
                hargs["pos"] = [target]
                hargs["kwfn"] = h.k1_kwfn(bad, 0.3)
                if len(hargs["kwfn"]) == 1 and rng.random() < 0.7:      # two transforms, the second failing
                    hargs["kwfn"] = [(1, ("addint", 1)), (3, rng.choice([("const", S(7)), ("raise",)]))]
                hargs["fn"] = ("id",)
            else:
                hargs["pos"] = [target]
                kw = h.k1_kw(False)
                if len(kw) < 2:
                    kw = [(1, V(2)), (3, V(4))]
                if bad:
                    i = rng.choice([0, len(kw) - 1, len(kw) - 1])
                    a = kw[i][0]
                    kw[i] = (a, h.int_val(True) if a == 1 else V(1) if a == 2 else S(7))
                hargs["kw"] = kw
        fail_at = rng.choice([1, 2]) if rng.random() < 0.1 else None
        h.add(("helper", x, (kind, aid), hargs), ("inst", 2), fail_at)
        out.append({"table": table, "ops": h.ops, "nd": len(heap0)})
    return out


# ---------------------------------------------------------------------------
# Aimed by-value cases: an element of a List of spec items addressed BY VALUE with an
# INSTANCE (not by index) -- the receiver's own element object, the caller's original of
# which the receiver holds a copy, a free-standing equal instance, or an instance equal to
# no element -- together with keyword attrs / attribute transforms / a replacement / a
# transform.  The lookup object is an argument the caller keeps: it (and, where it is the
# receiver's own element, the receiver) stays as it is.  (The random histories and
# `element_cases` address elements of such lists by index only.)
def byvalue_cases(rng, n, inplace_values=(False,), flavour=None):
    from inst_common import resolve_table
    out = []
    guard = 0
    while len(out) < n and guard < 20 * n:
        guard += 1
        table = gen_table(rng, flavour)
        if table[1].get("frozen"):
            continue
        _, heap0 = resolve_table(table)
        h = Hist(rng, table, len(heap0))
        # items with pairwise different contents (so that the lookup hits a known element),
        # sometimes followed by a duplicate of the first
        n_items = rng.choice([1, 2, 2, 3])
        items, item_ops = [], []
        strs = rng.sample([7, 8, 9, 0][:3 if h.keyed else 4], n_items)
        for i in range(n_items):
            pos, kw = None, []
            if h.keyed and rng.random() < 0.5:
                pos = S(strs[i])
            else:
                kw.append((2, S(strs[i])))
            kw.append((1, V(i)))
            if rng.random() < 0.3:
                kw.append((3, rng.choice([NONE, V(4)])))
            op = ("construct", 1, pos, kw)
            items.append(("root", h.add(op, ("inst", 1))))
            item_ops.append(op)
        members = list(items)
        if not h.keyed and rng.random() < 0.2:
            members.append(items[0])            # the same object twice
        coll = h.alloc(("list", members))
        cid = rng.choice([2, 2, 2, 3] + ([4] if len(table) > 3 else []))
        mode = rng.choice(["ctor", "ctor", "assign", "assign", "with"])
        if mode == "ctor":          # the constructor copies: the item roots are the caller's originals
            x = h.add(("construct", cid, None, [(53, coll), (1, V(1))]), ("inst", cid))
        else:
            x = h.add(("construct", cid, None, [(1, V(1))]), ("inst", cid))
            if mode == "assign":    # assignment stores the caller's list: the item roots ARE the elements
                h.add(("setattr", x, 53, coll), ("none",))
            else:
                x = h.add(("helper", x, ("with", 53), {"pos": [coll]}), ("inst", cid))
        j = rng.randrange(n_items)
        r = rng.random()
        if r < 0.55:
            lookup = items[j]                   # own element / the caller's original of element j
        elif r < 0.85:                          # a free-standing equal instance
            lookup = ("root", h.add(item_ops[j], ("inst", 1)))
        else:                                   # equal to no element
            lookup = ("root", h.add(("construct", 1, None, [(2, S(10)), (1, V(9))]), ("inst", 1)))
        inplace = rng.choice(list(inplace_values))
        hargs = {"inplace": inplace, "if_": rng.random() > 0.04}
        by_index = rng.choice([None, None, None, False, False, True])
        if by_index is not None:
            hargs["by_index"] = by_index
        kind = rng.choice(["update_item", "update_item", "update_item", "transform_item", "transform_item",
                           "without_item", "with_item"])
        bad = rng.random() < 0.3

        def kws():
            kw = [(1, V(rng.choice([5, 6])))]
            if rng.random() < 0.5:
                kw.append((3, V(4)))
            if not h.keyed and rng.random() < 0.3:
                kw.append((2, S(8)))
            rng.shuffle(kw)
            if bad:
                i = rng.choice([0, len(kw) - 1])
                a = kw[i][0]
                kw[i] = (a, h.int_val(True) if a == 1 else V(1) if a == 2 else S(7))
            return kw
        if kind == "update_item":
            r = rng.random()
            if r < 0.7:
                hargs["pos"] = [lookup]
                hargs["kw"] = kws()
            else:                               # a replacement (another instance the caller keeps)
                new = rng.choice(items) if rng.random() < 0.5 else h.new_k1()
                hargs["pos"] = [lookup, new]
                if r < 0.85:
                    hargs["kw"] = kws()
        elif kind == "transform_item":
            hargs["pos"] = [lookup]
            if rng.random() < 0.75:
                hargs["kwfn"] = h.k1_kwfn(bad, 0.15)
                if rng.random() < 0.4:
                    hargs["kwfn"] = [(1, ("addint", 1)), (3, rng.choice([("const", V(4)), ("const", S(7)), ("raise",)]))]
                hargs["fn"] = ("id",)
            else:
                hargs["fn"] = rng.choice([("id",), ("const", V(1)), ("raise",)])
        elif kind == "without_item":
            hargs["pos"] = [lookup]
        else:                                   # with_<item>(<instance>, **attrs): add (a copy of) it
            hargs.pop("by_index", None)
            hargs["pos"] = [lookup]
            if rng.random() < 0.7:
                hargs["kw"] = kws()
            if rng.random() < 0.4:
                hargs["index"] = V(rng.choice([0, -1, n_items]))
                hargs["insert"] = rng.random() < 0.5
        fail_at = rng.choice([1, 2]) if rng.random() < 0.08 else None
        h.add(("helper", x, (kind, 53), hargs), ("inst", cid), fail_at)
        out.append({"table": table, "ops": h.ops, "nd": len(heap0)})
    return out


# ---------------------------------------------------------------------------
# Aimed replacement cases: an EXISTING instance which the caller keeps as a root is handed to a
# helper as the complete replacement / new value TOGETHER with two or more keywords, an accepted
# keyword before the rejected one (or none rejected: the copy-on-write call returns):
#   x.update(<replacement>, kw1=ok, kw2=<rejected>)          top-level, any class of the table
#   x.transform(<fn handing back the instance it is given>, a=f, b=<failing g>)
#   x.update_<attr>(<replacement>, kw...), x.with_<attr>(<instance>, kw...)     nested attribute
#   x.with_<item>(<instance>, kw...), x.with_<item>(<key>, <instance>, kw...),
#   x.update_<item>(<index / key>, <replacement>, kw...)                       spec elements
# rejected = ill-typed scalar, collection with an ill-typed member, wrong nested value, or a user
# callback (preparer / item preparer / __post_copy__) made to raise at its 1st..3rd invocation.
# The keywords are applied to a COPY of the handed-over instance: the caller's object (and the
# receiver) stay as they are whether the call returns or raises.  (The random histories call
# top-level `update` with keywords only; `element_cases(handover)` never has an accepted keyword
# in front of the rejected one.)
def replacement_cases(rng, n, inplace_values=(False,), flavour=None, inplace_top=False):
    """inplace_values: drawn for the nested shapes; the top-level shapes are copy-on-write unless
    `inplace_top` (top-level multi-keyword `_inplace=True` calls commit keyword by keyword)"""
    from inst_common import resolve_table
    out = []
    guard = 0
    while len(out) < n and guard < 20 * n:
        guard += 1
        table = gen_table(rng, flavour)
        if table[1].get("frozen"):
            continue
        if rng.random() < 0.4 and table[1]["attrs"][0].get("prepare") is None:
            table[1]["attrs"][0]["prepare"] = rng.choice([("id",), ("addint", 1)])   # a scalar preparer
        _, heap0 = resolve_table(table)
        h = Hist(rng, table, len(heap0))
        inplace = rng.choice(list(inplace_values))
        hargs = {"inplace": inplace, "if_": True}
        fail_at = None
        holders = [2, 2, 3] + ([4] if len(table) > 3 else [])
        shape = rng.choice(["top", "top", "top", "top", "transform", "nested", "nested", "nested", "nested"])
        reject = rng.choice(["bad", "bad", "bad", "bad", "callback", "none"])

        def later(k):
            """position of the rejected keyword among k: usually not the first"""
            return rng.choice([0] + 5 * list(range(1, k))) if k > 1 else 0

        def holder(cid):
            """a K2/K3/K4 instance built from few arguments (short histories shrink fast)"""
            kw = []
            for a in rng.sample(h.attrs_of(cid), rng.choice([0, 1, 2, 2])):
                kw.append((a["aid"], h.value_for(a)))
            return h.add(("construct", cid, None, kw), ("inst", cid))

        def k1_keywords():
            aids = rng.sample([1, 2, 3], rng.choice([2, 2, 3]))
            good = {1: lambda: V(rng.choice([3, 4, 5])), 2: lambda: S(rng.choice([7, 8, 9])),
                    3: lambda: rng.choice([V(4), V(6), NONE])}
            kw = [(a, good[a]()) for a in aids]
            if reject != "none":
                j = later(len(kw))
                a = kw[j][0]
                kw[j] = (a, h.int_val(True) if a == 1 else V(1) if a == 2 else S(7))
            return kw

        if shape in ("top", "transform") and not inplace_top:
            hargs["inplace"] = inplace = False
        if shape == "top":
            cid = rng.choice(holders + [1])
            if cid == 1:
                x = h.new_k1()[1]
                r = x if rng.random() < 0.1 else h.new_k1()[1]
                kw = k1_keywords()
            else:
                x = holder(cid)
                r_cid = cid if rng.random() < 0.8 else rng.choice(holders)
                r = x if rng.random() < 0.1 else holder(r_cid)
                # keywords both classes manage (the generated `update` only takes the receiver's
                # attribute names; a name the replacement's class lacks would become a plain attribute)
                attrs = h.attrs_of(cid if r == x or r_cid == cid or cid != 3 else 2)
                chosen = rng.sample(attrs, rng.choice([2, 2, 3]))
                if reject == "callback":
                    # the callback-bearing attributes last, an ordinary one before them
                    cb = [a for a in attrs if a.get("prepare") or a.get("prepare_item")]
                    plain = [a for a in attrs if not (a.get("prepare") or a.get("prepare_item")) and a["aid"] != 4]
                    if cb and plain:
                        chosen = [rng.choice(plain), rng.choice(cb)]
                kw = [(a["aid"], h.value_for(a)) for a in chosen]
                if reject == "bad":
                    j = later(len(kw))
                    kw[j] = (chosen[j]["aid"], h.value_for(chosen[j], bad=True))
            if reject == "callback":
                fail_at = rng.choice([1, 1, 2, 3])
            hargs["pos"] = [("root", r)] if rng.random() < 0.95 else [NONE]
            hargs["kw"] = kw
            h.add(("helper", x, ("update_top", None), hargs), ("inst", cid), fail_at)
        elif shape == "transform":
            cid = rng.choice(holders)
            x = holder(cid)
            attrs = [a for a in h.attrs_of(cid)
                     if not (a["ty"][0] in ("set",) or a["ty"][-1] == ("spec", 1) and a["ty"][0] != "spec")]
            chosen = rng.sample(attrs, rng.choice([2, 2, 3]))
            j = later(len(chosen))
            kwfn = []
            for i, a in enumerate(chosen):
                hit = i == j and reject != "none"
                kwfn.append((a["aid"], h.fn_for(a["ty"], bad=hit and reject == "bad",
                                                raising=hit and reject == "callback")))
            hargs["fn"] = ("id",)        # hands back the (existing) instance it is given
            hargs["kwfn"] = kwfn
            h.add(("helper", x, ("transform_top", None), hargs), ("inst", cid), None)
        else:
            cid = rng.choice(holders)
            item = h.new_k1()
            kw = k1_keywords()
            # (the helpers of an Optional[spec] attribute -- aid 8 of the "wide" flavour -- take no
            # nested keywords in the implementation, which the model does not know: not drawn)
            aid = rng.choice([4, 4, 4, 53, 53, 54])
            ckw = [(1, V(1))]
            if aid == 4:
                if rng.random() < 0.6:
                    ckw.append((aid, h.new_k1()))
                x = h.add(("construct", cid, None, ckw), ("inst", cid))
                kind = rng.choice(["with", "update", "update"])
                hargs["pos"] = [item]
            else:
                members = [h.new_k1() for _ in range(rng.choice([0, 1, 2]))]
                if aid == 53:
                    coll = h.alloc(("list", members))
                else:
                    coll = h.alloc(("dict", [(S(7 + i), m) for i, m in enumerate(members)]))
                x = h.add(("construct", cid, None, ckw + [(aid, coll)]), ("inst", cid))
                kind = rng.choice(["with_item", "with_item", "update_item"])
                if aid == 53 and kind == "with_item":
                    hargs["pos"] = [item]
                    if rng.random() < 0.4:
                        hargs["index"] = V(rng.choice([0, -1]))
                        hargs["insert"] = rng.random() < 0.6
                elif aid == 53:
                    hargs["pos"] = [V(rng.choice([0, -1, 1])), item]
                else:
                    hargs["pos"] = [S(rng.choice([7, 7, 8, 0])), item]
            hargs["kw"] = kw
            if reject == "callback":
                fail_at = rng.choice([1, 2])
            h.add(("helper", x, (kind, aid), hargs), ("inst", cid), fail_at)
        out.append({"table": table, "ops": h.ops, "nd": len(heap0)})
    return out


# ---------------------------------------------------------------------------
# Aimed cases: a copy-on-write element helper (`with_<item>`, no `_inplace`) on a receiver
# whose collection attribute is EMPTY (control: one element), with a user callback of the
# CLOSING step of the call raising -- `__post_copy__` of the receiver while it is copied, the
# default factory / preparer of an `invalidated_by` dependant while it is reset on the copy.
# The element has been added to the working collection by then; that collection must be a
# private copy also when the receiver's container is empty.  (The random histories and
# `element_cases` start from containers with 1..3 elements; a callback fails in 10 % only and
# mostly in front of the write.)
def empty_container_cases(rng, n, flavour=None, control=0.15):
    from inst_common import resolve_table
    out = []
    guard = 0
    while len(out) < n and guard < 20 * n:
        guard += 1
        table = gen_table(rng, flavour)
        k2 = table[1]
        if k2.get("frozen"):
            continue
        fam = rng.choice(["list", "set", "dict", "list_k1", "dict_k1"])
        aid = {"list": 50, "set": 52, "dict": 51, "list_k1": 53, "dict_k1": 54}[fam]
        by_aid = {a["aid"]: a for a in k2["attrs"]}
        k2["post_copy"] = ("id",)                   # the receiver's copy hook: runs after the element was added
        if rng.random() < 0.7:                      # mostly no item preparer: the hook is the 1st callback invocation
            by_aid[aid]["prepare_item"] = None
        if aid != 52 and flavour is None and rng.random() < 0.4:
            # exactly one dependant of the written collection, reset through a default factory (+ preparer)
            by_aid[52].update(default=None, factory=("set", []), inv_by=[aid], decl="Attr",
                              prepare=rng.choice([None, ("id",)]))
            by_aid[3]["inv_by"] = []
        _, heap0 = resolve_table(table)
        h = Hist(rng, table, len(heap0))
        cid = rng.choice([2, 2, 3])
        empty = rng.random() >= control
        if fam in ("list", "set"):
            coll = h.alloc((fam, [] if empty else [V(1)]))
        elif fam == "dict":
            coll = h.alloc(("dict", [] if empty else [(S(8), V(1))]))
        elif fam == "list_k1":
            coll = h.alloc(("list", [] if empty else [h.new_k1()]))
        else:
            coll = h.alloc(("dict", [] if empty else [(S(8), h.new_k1())]))
        x = h.add(("construct", cid, None, [(aid, coll), (1, V(1))]), ("inst", cid))
        hargs = {"inplace": False, "if_": True}
        if fam == "list":
            hargs["pos"] = [V(5)]
            if rng.random() < 0.3:
                hargs["index"] = V(0)
                hargs["insert"] = True
        elif fam == "set":
            hargs["pos"] = [V(5)]
        elif fam == "dict":
            hargs["pos"] = [S(7), V(5)]
        else:
            hargs["pos"] = [h.new_k1()] if fam == "list_k1" else [S(7), h.new_k1()]
            if rng.random() < 0.4:
                hargs["kw"] = [(1, V(rng.choice([3, 4])))]
        fail_at = rng.choice([1, 1, 2, 3]) if rng.random() < 0.85 else None
        h.add(("helper", x, ("with_item", aid), hargs), ("inst", cid), fail_at)
        out.append({"table": table, "ops": h.ops, "nd": len(heap0)})
    return out
