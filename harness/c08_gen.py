"""C08 histories: construction, in-place mutation, reset_<attr> / reset / del (in place or on a
copy), construction of further instances, and `same` assertions comparing the attribute after
reset/del with the same attribute of a freshly constructed instance of the same class."""
import c02_gen
import inst_common as ic
import inst_gen as ig

V, S = ig.V, ig.S


def class_frozen(table, cid):
    return bool(table[0]["frozen"]) if cid == 1 else bool(table[1]["frozen"])


def fresh_instance(h, cid):
    """a new instance of the class built with as few keywords as the class allows"""
    if cid == 1:
        kw = []
        if h.keyed and h.k1["attrs"][0]["default"] is None:
            kw.append((2, S(7)))
        return h.add(("construct", 1, None, kw), ("inst", 1))
    return h.add(("construct", cid, None, []), ("inst", cid))


def gen_case_c08(rng, n_ops=7):
    table = c02_gen.gen_table_c02(rng, mutable_override=0.6)
    _, heap0 = ic.resolve_table(table)
    nd = len(heap0)
    h = ig.Hist(rng, table, nd)
    cid = rng.choice([2, 3, 3, 2, 1])
    cur = h.construct(cid)
    frozen = class_frozen(table, cid)
    for _ in range(n_ops):
        r = rng.random()
        attrs = h.attrs_of(cid)
        if r < 0.3 and not frozen:
            q = rng.random()
            if q < 0.45 and cid != 1:
                h.item_helper(cur, cid, 0.03, 1.0)
            elif q < 0.8:
                h.scalar_helper(cur, cid, 0.03, 1.0)
            else:
                a = rng.choice(attrs)
                h.add(("setattr", cur, a["aid"], h.value_for(a)), ("none",))
        elif r < 0.7:
            a = rng.choice(attrs)
            forms = ["reset_cow", "reset_top_cow"] if frozen else ["del", "reset_inplace", "reset_cow",
                                                                    "reset_top_inplace", "reset_top_cow"]
            form = rng.choice(forms)
            target, names = cur, [a["aid"]]
            if form == "del":
                h.add(("delattr", cur, a["aid"]), ("none",))
            elif form == "reset_inplace":
                h.add(("helper", cur, ("reset", a["aid"]), {"inplace": True}), ("inst", cid))
            elif form == "reset_cow":
                target = h.add(("helper", cur, ("reset", a["aid"]), {}), ("inst", cid))
            else:
                res = h.add(("helper", cur, ("reset_top", None), {"inplace": form == "reset_top_inplace"}), ("inst", cid))
                target = cur if form == "reset_top_inplace" else res
                names = [x["aid"] for x in rng.sample(attrs, min(3, len(attrs)))]
            y = fresh_instance(h, cid)
            for aid in names:
                if cid == 1 and aid == 2:
                    continue        # the key may have been given to the fresh instance
                h.add(("same", target, y, aid), None)
            if rng.random() < 0.5:
                cur = target
        elif r < 0.85:
            h.construct(rng.choice([1, 2, 3]))
        else:
            (h.item_helper if (cid != 1 and rng.random() < 0.5) else h.scalar_helper)(cur, cid, 0.03, 0.0)
    return {"table": table, "ops": h.ops, "nd": nd}


def sanitize(case):
    """drop `same` assertions that refer to a root whose operation failed on the implementation
    (ill-typed constructor arguments etc.): they would compare nothing with something"""
    r, err = ic.run_case(case)
    if r is None:
        return case
    ok_root, n = {}, case["nd"]
    for (op, _), (out, _) in zip(case["ops"], r[1]):
        if op[0] == "same":
            continue
        ok_root[n] = out == [0] and op[0] in ("construct", "helper", "deepcopy")
        # a copy / helper result derived from a root whose own operation failed is no instance either
        if op[0] in ("helper", "deepcopy") and isinstance(op[1], int) and op[1] >= case["nd"] and not ok_root.get(op[1], False):
            ok_root[n] = False
        n += 1
    ops = [(op, fa) for op, fa in case["ops"]
           if op[0] != "same" or (ok_root.get(op[1]) and ok_root.get(op[2]))]
    return dict(case, ops=ops)


def same_signature(case, mask):
    op = case["ops"][-1][0]
    if op[0] != "same":
        import inst_check
        return inst_check.signature(case, mask)
    aid = op[3]
    prepared = False
    for c in case["table"]:
        for a in c["attrs"]:
            if a["aid"] == aid and not a.get("inherited") and (a.get("prepare") or a.get("prepare_item")):
                prepared = True
    return {"kind": "same", "prepared_default": prepared}


# ------------------------------------------------------------------ plain subclasses as CONSTRUCTED classes
# (seeded change C08-E1: the constructor stopped copying keyword arguments when type(self) is a
# plain subclass of the class that owns the generated __init__)
SPEC_OF = {4: 2, 5: 2, 6: 3, 7: 3}     # plain class -> the spec class whose metadata / __init__ it shares
MUTABLE_AIDS = (4, 50, 51, 52, 53, 54)


class FamHist(ig.Hist):
    """Hist over the plain family: K4 / K5 manage what K2 manages, K6 / K7 what K3 manages"""

    def attrs_of(self, cid):
        return ig.Hist.attrs_of(self, SPEC_OF.get(cid, cid))


def plain_family_table(rng):
    """c02 table (K1 leaf, K2 node, K3 spec subclass) plus K4 = plain subclass of K2, K5 = plain
    subclass of K4 (second level), K6 = plain subclass of the spec subclass K3, K7 = plain subclass
    of K6; each plain class may override scalar and mutable defaults by class attributes"""
    while True:
        t = c02_gen.gen_table_c02(rng, mutable_override=0.4, flavour="plain")
        if not t[1]["frozen"] or rng.random() < 0.1:
            break
    frozen = t[1]["frozen"]

    def overrides():
        ov = []
        if rng.random() < 0.4:
            ov.append({"aid": 1, "inherited": True, "override": V(rng.choice([8, 9]))})
        if rng.random() < 0.4:
            ov.append({"aid": 50, "inherited": True, "override": ("list", [V(rng.choice([5, 6]))])})
        if rng.random() < 0.3:
            ov.append({"aid": 51, "inherited": True, "override": ("dict", [(S(9), V(3))])})
        return ov
    for cid, base in ((5, 4), (6, 3), (7, 6)):
        t.append({"id": cid, "base": base, "kind": "plain", "frozen": frozen, "frozen_inherited": True,
                  "attrs": overrides()})
    return t


def gen_case_plain_ctor(rng, n_ops=4):
    """two (or three) peers - instances of plain subclasses, one and two levels, below a spec class
    and below a spec subclass, and of the spec classes themselves - built from the SAME mutable
    argument objects (list / dict / set of scalars, nested spec instance, list / dict of spec
    instances), then in-place mutation through every holder (peers, and the nested argument
    instances themselves), deletion / reset, and a further peer from the same arguments"""
    table = plain_family_table(rng)
    _, heap0 = ic.resolve_table(table)
    nd = len(heap0)
    h = FamHist(rng, table, nd)
    plain_first = rng.choice([4, 5, 6, 7])
    second = rng.choice([plain_first, plain_first, rng.choice([2, 3, 4, 5, 6, 7])])
    common = [a for a in h.attrs_of(2) if a["aid"] in MUTABLE_AIDS]
    chosen = rng.sample(common, rng.choice([1, 1, 2, 3]))
    kw = [(a["aid"], h.value_for(a)) for a in chosen]      # argument objects: roots the caller keeps
    nested_args = [v[1] for _, v in kw if v[0] == "root" and h.kinds[v[1]][0] == "inst"]
    extra_scalar = [(1, V(rng.choice([1, 2])))] if rng.random() < 0.5 else []
    peers = []
    for cid in (plain_first, second):
        k = list(kw) + extra_scalar
        rng.shuffle(k)
        peers.append((h.add(("construct", cid, None, k), ("inst", cid)), cid))
    frozen = class_frozen(table, 2)
    for _ in range(n_ops):
        x, cid = rng.choice(peers)
        r = rng.random()
        if r < 0.35:
            h.item_helper(x, cid, 0.0, 1.0)
        elif r < 0.55:
            h.scalar_helper(x, cid, 0.0, 1.0)
        elif r < 0.65 and nested_args:          # the caller mutates the instance it handed in
            y = rng.choice(nested_args)
            h.add(("helper", y, ("with", 1), {"inplace": True, "pos": [V(rng.choice([5, 6]))]}), ("inst", 1))
        elif r < 0.75 and not frozen:
            a = rng.choice(chosen)
            h.add(("delattr", x, a["aid"]), ("none",))
        elif r < 0.85:
            a = rng.choice(chosen)
            h.add(("helper", x, ("reset", a["aid"]), {"inplace": not frozen}), ("inst", cid))
        else:                                   # a further peer from the same argument objects
            cid2 = rng.choice([4, 5, 6, 7])
            k = list(kw)
            rng.shuffle(k)
            peers.append((h.add(("construct", cid2, None, k), ("inst", cid2)), cid2))
    return {"table": table, "ops": h.ops, "nd": nd}


# ------------------------------------------------------------------ a spec subclass's OWN do_not_copy list
# (seeded change C08-F2: a re-defaulted inherited attribute took `do_not_copy` over from its owner's
# Attr instead of from the subclass's decorator)
SPEC_OF.update({8: 3, 9: 2, 10: 3})
REDEFAULTS = {50: [("list", [V(7), V(8)]), ("list", []), ("list", [V(6)])],
              51: [("dict", [(S(8), V(2))]), ("dict", [])],
              52: [("set", [V(5)]), ("set", [])]}


def own_dnc_table(rng):
    """plain_family_table (K1; K2 node; K3 spec subclass; K4/K5 plain below K2; K6/K7 plain below K3)
    in which do_not_copy is decided PER SPEC CLASS: K2 lists one to three of its mutable attributes,
    K3 states its own list (mostly empty, a different subset, the parent's minus one, or the parent's)
    and re-defaults mutable attributes by bare class attributes - preferably those its parent lists;
    plus K8 = spec subclass of K3 (own list, own re-defaults), K9 = spec subclass of K2 that merely
    inherits (own list), K10 = plain subclass of K8.  Every inherited entry of a spec subclass carries
    an explicit "dnc" (inst_common.resolve_table takes the subclass's word for it)."""
    t = plain_family_table(rng)
    frozen = t[1]["frozen"]
    k2 = {a["aid"]: a for a in t[1]["attrs"]}
    d2 = set(rng.sample(MUTABLE_AIDS, rng.choice([1, 2, 2, 3])))
    for aid in MUTABLE_AIDS:
        k2[aid]["dnc"] = aid in d2

    def own_list():
        r = rng.random()
        if r < 0.5:
            return set()
        if r < 0.7:
            return set(rng.sample(MUTABLE_AIDS, rng.choice([1, 2])))
        if r < 0.85:
            return d2 - {rng.choice(sorted(d2))}
        return set(d2)

    def entries(aids, own, redefault_rate, keep=None):
        out = []
        for aid in aids:
            e = {"aid": aid, "inherited": True, "dnc": aid in own}
            old = (keep or {}).get(aid)
            if old is not None and "override" in old:
                e["override"] = old["override"]
            if aid in REDEFAULTS and rng.random() < (redefault_rate * (2.0 if aid in d2 else 1.0)):
                e["override"] = rng.choice(REDEFAULTS[aid])
            if aid == 1 and "override" not in e and rng.random() < redefault_rate:
                e["override"] = V(rng.choice([8, 9]))
            out.append(e)
        return out
    k2_aids = [a["aid"] for a in t[1]["attrs"]]
    k3_old = {a["aid"]: a for a in t[2]["attrs"] if a.get("inherited")}
    k3_own = [a for a in t[2]["attrs"] if not a.get("inherited")]
    d3 = own_list()
    t[2]["attrs"] = entries(k2_aids, d3, 0.4, keep=k3_old) + k3_own
    k3_aids = k2_aids + [a["aid"] for a in k3_own]
    t.append({"id": 8, "base": 3, "eager": rng.random() < 0.5, "frozen": frozen, "frozen_inherited": True,
              "attrs": entries(k3_aids, own_list(), 0.2)})
    t.append({"id": 9, "base": 2, "eager": rng.random() < 0.5, "frozen": frozen, "frozen_inherited": True,
              "attrs": entries(k2_aids, own_list(), 0.0 if rng.random() < 0.7 else 0.3)})
    ov = []
    if rng.random() < 0.4:
        ov.append({"aid": 50, "inherited": True, "override": ("list", [V(5)])})
    t.append({"id": 10, "base": 8, "kind": "plain", "frozen": frozen, "frozen_inherited": True, "attrs": ov})
    return t, d2, d3


def gen_case_own_dnc(rng, n_ops=5):
    """peers of the spec subclasses (K3 re-defaulting, K8 below it, the merely inheriting sibling K9),
    of the plain classes below them and of the parent, built from the SAME mutable argument objects
    given for attributes the PARENT lists in do_not_copy / the subclass re-defaults; then copies made
    by reset_<other>() / with_<other>() / deepcopy, in-place mutation through every holder (peer, copy,
    the caller's nested instance), del / reset_<a> with a `same` assertion against a new instance,
    further peers from the same arguments"""
    table, d2, d3 = own_dnc_table(rng)
    _, heap0 = ic.resolve_table(table)
    nd = len(heap0)
    h = FamHist(rng, table, nd)
    first = rng.choice([3, 3, 3, 6, 7, 8, 9, 10, 2])
    second = rng.choice([first, first, rng.choice([2, 3, 6, 8, 9, 10, 4])])
    redefaulted = {a["aid"] for a in table[2]["attrs"] if a.get("inherited") and "override" in a}
    mutable = [a for a in h.attrs_of(2) if a["aid"] in MUTABLE_AIDS]
    hot = [a for a in mutable if a["aid"] in d2 or a["aid"] in d3 or a["aid"] in redefaulted]
    chosen = rng.sample(hot, min(len(hot), rng.choice([1, 2, 2])))
    sharp = [a for a in hot if a["aid"] in redefaulted and (a["aid"] in d2) != (a["aid"] in d3)]
    if sharp and rng.random() < 0.7 and not any(a in sharp for a in chosen):
        chosen[0] = rng.choice(sharp)       # re-defaulted by K3 while K2 and K3 disagree about do_not_copy
    rest = [a for a in mutable if a not in chosen]
    if rest and rng.random() < 0.4:
        chosen.append(rng.choice(rest))
    kw = [(a["aid"], h.value_for(a)) for a in chosen]
    nested_args = [v[1] for _, v in kw if v[0] == "root" and h.kinds[v[1]][0] == "inst"]
    extra_scalar = [(1, V(rng.choice([1, 2])))] if rng.random() < 0.5 else []
    peers = []
    for cid in (first, second):
        k = list(kw) + extra_scalar
        rng.shuffle(k)
        peers.append((h.add(("construct", cid, None, k), ("inst", cid)), cid))
    frozen = class_frozen(table, 2)
    chosen_aids = {a["aid"] for a in chosen}
    for _ in range(n_ops):
        x, cid = rng.choice(peers)
        attrs = h.attrs_of(cid)
        others = [a for a in attrs if a["aid"] not in chosen_aids]
        r = rng.random()
        if r < 0.3 and others:                  # a copy that carries the chosen attributes over
            o = rng.choice(others)
            q = rng.random()
            if q < 0.5:
                y = h.add(("helper", x, ("reset", o["aid"]), {}), ("inst", cid))
            elif q < 0.8:
                y = h.add(("helper", x, ("with", o["aid"]), {"pos": [h.value_for(o)]}), ("inst", cid))
            else:
                y = h.add(("deepcopy", x), ("inst", cid))
            peers.append((y, cid))
        elif r < 0.55:
            h.item_helper(x, cid, 0.0, 1.0)
        elif r < 0.65:
            h.scalar_helper(x, cid, 0.0, 1.0)
        elif r < 0.72 and nested_args:          # the caller mutates the instance it handed in
            y = rng.choice(nested_args)
            h.add(("helper", y, ("with", 1), {"inplace": True, "pos": [V(rng.choice([5, 6]))]}), ("inst", 1))
        elif r < 0.9:                           # del / reset of a chosen attribute, compared with a new instance
            a = rng.choice(chosen)
            target = x
            if frozen:
                target = h.add(("helper", x, ("reset", a["aid"]), {}), ("inst", cid))
            elif rng.random() < 0.4:
                h.add(("delattr", x, a["aid"]), ("none",))
            else:
                inplace = rng.random() < 0.6
                res = h.add(("helper", x, ("reset", a["aid"]), {"inplace": inplace}), ("inst", cid))
                target = x if inplace else res
            y = h.add(("construct", cid, None, []), ("inst", cid))
            h.add(("same", target, y, a["aid"]), None)
            if target != x:
                peers.append((target, cid))
        else:                                   # a further peer from the same argument objects
            cid2 = rng.choice([3, 6, 8, 9, 10, 7])
            k = list(kw)
            rng.shuffle(k)
            peers.append((h.add(("construct", cid2, None, k), ("inst", cid2)), cid2))
    return {"table": table, "ops": h.ops, "nd": nd}


def own_dnc_shapes(cases):
    """how often the generated tables have the shape of seeded change C08-F2 and its neighbours"""
    out = {"k3_redefaults_attr_parent_lists_without_restating": 0, "k3_restates_parent_flag_on_redefaulted": 0,
           "k3_lists_redefaulted_attr_parent_does_not": 0, "argument_for_such_attr": 0, "cow_copies": 0}
    for c in cases:
        k2 = {a["aid"]: bool(a.get("dnc")) for a in c["table"][1]["attrs"]}
        hit = set()
        for a in c["table"][2]["attrs"]:
            if a.get("inherited") and "override" in a and a["aid"] in MUTABLE_AIDS:
                if k2.get(a["aid"]) and not a.get("dnc"):
                    hit.add(a["aid"])
                elif k2.get(a["aid"]) and a.get("dnc"):
                    out["k3_restates_parent_flag_on_redefaulted"] += 1
                elif a.get("dnc"):
                    out["k3_lists_redefaulted_attr_parent_does_not"] += 1
        if hit:
            out["k3_redefaults_attr_parent_lists_without_restating"] += 1
        for op, _ in c["ops"]:
            if op[0] == "construct" and op[1] in (3, 6, 7) and any(a in hit for a, _ in op[3]):
                out["argument_for_such_attr"] += 1
                break
        out["cow_copies"] += sum(1 for op, _ in c["ops"] if op[0] == "deepcopy"
                                 or (op[0] == "helper" and not op[3].get("inplace")))
    return out
