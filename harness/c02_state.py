"""C02 — implementation-level probe: instance state that is NOT a declared spec attribute.

`DeepCopyMethod.deepcopy` walks `instance.__dict__`, not the declared attributes, so everything
an instance keeps in its dictionary is part of "the instance" of the property text: private
bookkeeping created in `__post_init__` / a hand-written `__init__` / a plain subclass's
`__init__` / by assignment after construction, annotated attributes excluded with `attrs_skip`,
the cache of a `spec_property(cache=True)` or `functools.cached_property`, the override of an
overridable `spec_property`, the override a non-passthrough `Alias` stores under
`__spec_classes_Alias_<name>_override`, methods bound to the instance.  The class grammar of
inst_common (and the Coq model) has declared attributes only, so this is a probe whose oracle is
the property statement evaluated in Python on the implementation's objects (NOT a Coq evaluation):

  after deepcopy and after every copy-on-write helper kind, no mutable object is reachable from
  both result and receiver -- through `vars()` of either (at any depth, through containers,
  tuples, plain Python objects, nested spec instances and bound methods) or through `getattr` of
  every managed attribute / property / alias -- except the values of declared do_not_copy
  attributes and the caller's own arguments; then in-place changes of the private state and of
  the managed attributes of the result are invisible through the receiver and vice versa.
"""
import collections
import types


ATOMIC = (type(None), bool, int, float, complex, str, bytes, range, type, types.FunctionType,
          types.BuiltinFunctionType, types.ModuleType, type(Ellipsis), type(NotImplemented))


def sentinels():
    from spec_classes import EMPTY, MISSING, UNCHANGED
    return (MISSING, EMPTY, UNCHANGED)


def mutable_reach(roots, seen=None):
    """id -> object for every mutable object reachable from `roots`: containers, plain Python
    objects and spec instances (through their instance dictionaries), through tuples / frozensets
    and through the `__self__` of bound methods.  Atoms that deepcopy hands back as they are
    (numbers, strings, classes, functions, modules, the library's sentinels) are not objects of
    the property."""
    seen = {} if seen is None else seen
    sent = sentinels()
    stack = list(roots)
    while stack:
        o = stack.pop()
        if isinstance(o, ATOMIC) or any(o is s for s in sent):
            continue
        if isinstance(o, types.MethodType):
            stack.append(o.__self__)
            continue
        if isinstance(o, (tuple, frozenset)):
            stack.extend(o)
            continue
        if id(o) in seen:
            continue
        seen[id(o)] = o
        if isinstance(o, dict):
            stack.extend(o.keys())
            stack.extend(o.values())
        elif isinstance(o, (list, set, collections.deque)):
            stack.extend(o)
        else:
            try:
                stack.extend(object.__getattribute__(o, "__dict__").values())
            except AttributeError:
                pass
    return seen


def views(obj, names):
    """what the instance gives access to: its dictionary and `getattr` of every name in `names`
    (managed attributes incl. the class-attribute fallback, properties, aliases)"""
    out = list(object.__getattribute__(obj, "__dict__").values())
    for n in names:
        try:
            out.append(getattr(obj, n))
        except Exception:
            pass
    return out


def shared(a, b, names, exempt):
    ex = mutable_reach(exempt)
    ia, ib = mutable_reach([a] + views(a, names)), mutable_reach([b] + views(b, names))
    return [ia[i] for i in ia if i in ib and i not in ex]


def canon(obj, skip=(), skip_cls=None):
    """structural value of an object graph (no identities), as c02_gen.canon but also through
    tuples, plain Python objects and bound methods (named, not followed: their repr would show
    the owner's do_not_copy attributes).  `skip`: attribute names left out of the top-level object
    and of every instance of `skip_cls` (do_not_copy attributes are legitimately shared)."""
    def go(o, top, seen):
        if isinstance(o, types.MethodType):
            return ("method", o.__func__.__name__)
        if isinstance(o, ATOMIC):
            return ("scalar", type(o).__name__, repr(o))
        if id(o) in seen:
            return ("cycle",)
        seen = seen | {id(o)}
        if isinstance(o, (list, tuple, collections.deque)):
            return (type(o).__name__, tuple(go(x, False, seen) for x in o))
        if isinstance(o, (set, frozenset)):
            return (type(o).__name__, tuple(sorted(repr(go(x, False, seen)) for x in o)))
        if isinstance(o, dict):
            return ("dict", tuple((go(k, False, seen), go(v, False, seen)) for k, v in o.items()))
        try:
            st = object.__getattribute__(o, "__dict__")
        except AttributeError:
            return ("scalar", type(o).__name__, repr(o))
        drop = skip if (top or (skip_cls is not None and isinstance(o, skip_cls))) else ()
        return ("inst", type(o).__name__, tuple((k, go(v, False, seen)) for k, v in st.items() if k not in drop))
    return go(obj, True, frozenset())


class Box:
    """a plain Python object holding a list (private state need not be a builtin container)"""

    def __init__(self, items):
        self.items = items

    def __repr__(self):
        return "Box(%r)" % (self.items,)


NAMES = ("label", "entries", "reg", "ks", "count", "values", "table", "inner", "tags", "items",
         "shown", "peek", "index", "view", "plan", "extra", "sub_index", "pindex", "palias", "scratch")


def state_family(eager, dnc):
    """classes with the ten attributes of c02._dp_make plus state outside the declared attributes.
    Returns (K, holder-maker, members) with members = [(class, declared do_not_copy names)]."""
    import functools
    from typing import Dict, List, Set

    from spec_classes import Alias, spec_class, spec_property
    kw = {"bootstrap": True} if eager else {}
    M = "verif_generated"

    @spec_class(key="name", **kw)
    class K:
        __module__ = M
        name: str
        marks: List[int] = []

    def private_state(self):
        self._log = []
        self._memo = {"k": [1], "kid": K("m", marks=[3])}
        self._seen = {1}
        self._kid = K("p", marks=[1])
        self._box = Box([1, [2]])
        self._pair = ([1], {"a": [2]})

    class Mixin:
        """the unmanaged parts shared by the spec classes below (their names are not annotated)"""
        __module__ = M
        peek = Alias("entries")

        @spec_property(cache=True)
        def index(self):
            return {v: [i] for i, v in enumerate(self.values)}

        @spec_property(overridable=True, warn_on_override=False)
        def view(self):
            return [list(self.values)]

        @functools.cached_property
        def plan(self):
            return [list(self.values), {"n": self.count}]

        def note(self):
            self._log.append("noted %s" % self.label)
            return self

    ann = {"label": str, "entries": List[int], "reg": Dict[str, int], "ks": List[K], "count": int,
           "values": List[int], "table": Dict[str, List[int]], "inner": K, "tags": Set[int], "items": List[K],
           "shown": List[int]}

    def body(name, **more):
        b = {"__module__": M, "__qualname__": name, "__annotations__": dict(ann), "label": "base", "entries": [],
             "reg": {}, "ks": [], "count": 0, "values": [], "table": {}, "tags": set(), "items": [],
             "shown": Alias("values")}
        b.update(more)
        return b

    def post_init(self):
        private_state(self)

    dkw = {"do_not_copy": list(dnc)} if dnc else {}
    Base = spec_class(**dkw, **kw)(type("Base", (Mixin,), body("Base", __post_init__=post_init)))

    def sub_post_init(self):
        Base.__post_init__(self)
        self._sub_log = [[0]]

    def sub_index(self):
        return [list(self.extra), self.count]
    Sub = spec_class(**kw)(type("Sub", (Base,), {
        "__module__": M, "__qualname__": "Sub", "__annotations__": {"extra": List[int]}, "extra": [],
        "__post_init__": sub_post_init, "sub_index": spec_property(sub_index, cache=True)}))

    def plain_body(name, parent):
        def __init__(self, *a, **k):
            parent.__init__(self, *a, **k)
            self._plain = [0, [1]]

        def pindex(self):
            return {v: i for i, v in enumerate(self.values)}
        return {"__module__": M, "__qualname__": name, "__init__": __init__,
                "pindex": spec_property(pindex, cache=True, invalidated_by=["values"]),
                "palias": Alias("entries")}
    PlainBase = type("PlainBase", (Base,), plain_body("PlainBase", Base))
    PlainSub = type("PlainSub", (Sub,), plain_body("PlainSub", Sub))
    SpecOverPlain = spec_class(**kw)(type("SpecOverPlain", (PlainBase,), {
        "__module__": M, "__qualname__": "SpecOverPlain", "__annotations__": {"extra": List[int]}, "extra": []}))

    def own_init(self, **k):
        for a, v in k.items():
            setattr(self, a, v)
        private_state(self)
    OwnInit = spec_class(**dkw, **kw)(type("OwnInit", (Mixin,), body("OwnInit", __init__=own_init)))

    def skipped_post_init(self):
        private_state(self)
        self.scratch = {"s": [1]}
    sb = body("Skipped", __post_init__=skipped_post_init)
    sb["__annotations__"]["scratch"] = Dict[str, List[int]]
    Skipped = spec_class(attrs_skip=["scratch"], **dkw, **kw)(type("Skipped", (Mixin,), sb))

    members = [(Base, tuple(dnc)), (Sub, ()), (PlainBase, tuple(dnc)), (PlainSub, ()), (SpecOverPlain, ()),
               (OwnInit, tuple(dnc)), (Skipped, tuple(dnc))]

    def holder(cls):
        return spec_class(**kw)(type("Holder", (), {
            "__module__": M, "__qualname__": "Holder",
            "__annotations__": {"kid": cls, "kids": List[cls], "lookup": Dict[str, cls], "n": int}, "n": 0}))
    return K, holder, members


def prime(o, K, level):
    """level 0: the state the constructor left; level 1: caches filled, overrides stored, a private
    attribute assigned after construction, a method bound to the instance kept in the instance"""
    if level == 0:
        return o
    for n in ("index", "plan", "sub_index", "pindex"):
        try:
            getattr(o, n)
        except AttributeError:
            pass
    o.view = [7, [8]]
    o.shown = [4, 5]
    o.peek = [[1], 2]
    if hasattr(type(o), "palias"):
        o.palias = {"o": [1]}
    o._late = {"z": [0], "k": K("late", marks=[4])}
    o.hook = o.note
    return o


def poke_state(x):
    """in-place changes of the state outside the declared attributes, at every depth"""
    d = object.__getattribute__(x, "__dict__")
    ops = [lambda: x._log.append("p"), lambda: x.note(), lambda: x._memo["k"].append(9), lambda: x._memo.update(new=1),
           lambda: x._memo["kid"].marks.append(8), lambda: x._seen.add(99), lambda: x._kid.marks.append(9),
           lambda: x._kid.with_mark(5, _inplace=True), lambda: x._box.items.append(9), lambda: x._box.items[1].append(9),
           lambda: x._pair[0].append(9), lambda: x._pair[1]["a"].append(9), lambda: x._sub_log[0].append(9),
           lambda: x._plain[1].append(9), lambda: d["scratch"]["s"].append(9),
           lambda: d["index"].update({99: [99]}), lambda: [v.append(9) for v in d["index"].values()],
           lambda: d["plan"][0].append(9), lambda: d["plan"][1].update(n=99), lambda: d["sub_index"][0].append(9),
           lambda: d["pindex"].update({98: 98}), lambda: d["view"][1].append(9), lambda: d["view"].append(9),
           lambda: d["__spec_classes_Alias_shown_override"].append(9),
           lambda: d["__spec_classes_Alias_peek_override"][0].append(9),
           lambda: d["__spec_classes_Alias_palias_override"]["o"].append(9),
           lambda: d["_late"]["z"].append(9), lambda: d["_late"]["k"].marks.append(9), lambda: d["hook"]()]
    skipped = 0
    for f in ops:
        try:
            f()
        except (AttributeError, KeyError, IndexError, TypeError):
            skipped += 1        # this class / priming level does not have that piece of state
    return skipped


CONFIGS = [(e, d) for e in (False, True) for d in ((), ("entries", "ks"))]


def private_state_probe(chk, extra, only=None, full=False):
    """quick tier: lazy classes without do_not_copy and eager classes with a do_not_copy list; every
    call on receivers with filled caches / overrides, every fifth call also on receivers as the
    constructor left them; holders of three of the seven classes.  `full` (thorough tier, replays):
    all four configurations, both receiver states for every call, holders of every class."""
    import c02
    n = bad = raised = skipped = 0
    args = []

    def arg(x):
        args.append(x)
        return x

    def report(reasons, info):
        nonlocal bad
        bad += 1
        if bad <= 4:
            chk.violation("C02 violated by the implementation: %s on an instance of %s (%s; state outside the declared "
                          "attributes: %s; declared do_not_copy: %s): %s"
                          % (info["call"], info["class"], info["nesting"], info["state"], info["declared"],
                             "; ".join(reasons)),
                          dict(info, kind="private-state", reasons=reasons), sig={"kind": "private-state"})

    def where(o, objs):
        """names of the dictionary entries of `o` through which the shared objects are reached"""
        out = []
        for k, v in object.__getattribute__(o, "__dict__").items():
            r = mutable_reach([v])
            if any(id(s) in r for s in objs):
                out.append(k)
        return out

    configs = [c for c in CONFIGS if (c == only if only is not None else (full or c[0] == bool(c[1])))]
    for eager, dnc0 in configs:
        K, holder, members = state_family(eager, dnc0)
        calls = c02._dp_calls(K, arg)
        for cls, dnc in members:
            for level in (1, 0):
                info0 = {"eager": eager, "base_dnc": list(dnc0), "class": cls.__name__, "declared": list(dnc),
                         "state": "as the constructor left it" if level == 0 else
                                  "caches filled, property / alias overrides stored, late private attribute, bound method"}
                for ci, (name, call, touched) in enumerate(calls):
                    if level == 0 and not full and ci % 5:
                        continue
                    mode = "ctor" if (ci + level) % 2 == 0 else "inplace"
                    o = prime(c02._dp_make(cls, K, mode), K, level)
                    del args[:]
                    n += 1
                    try:
                        r = call(o)
                    except Exception as e:      # not this property; counted, must stay 0 on /repo
                        raised += 1
                        extra.setdefault("private_state_raised", []).append("%s.%s: %r" % (cls.__name__, name, e))
                        continue
                    so, sr = vars(o), vars(r)
                    reasons = []
                    if r is o:
                        reasons.append("the result is the receiver itself")
                    sh = shared(r, o, NAMES, [so[a] for a in dnc if a in so] + list(args))
                    if sh and r is not o:
                        reasons.append("%d mutable object(s) reachable from both result and receiver (through %s), e.g. %s"
                                       % (len(sh), ", ".join(where(o, sh)[:6]) or "getattr", repr(sh[0])[:80]))
                    for a in dnc:
                        if "*" not in touched and a not in touched and a in so and (a not in sr or sr[a] is not so[a]):
                            reasons.append("do_not_copy attribute %s duplicated" % a)
                    if not reasons:
                        before = canon(o, skip=dnc)
                        skipped += poke_state(r) + c02._dp_poke(r, K)
                        if canon(o, skip=dnc) != before:
                            reasons.append("in-place changes of the result are visible through the receiver")
                        before = canon(r, skip=dnc)
                        skipped += poke_state(o) + c02._dp_poke(o, K)
                        if canon(r, skip=dnc) != before:
                            reasons.append("in-place changes of the receiver are visible through the result")
                    if reasons:
                        report(reasons, dict(info0, call=name, nesting="receiver, built by " + mode))
            # ---- instances (with filled caches and overrides) nested in a copy-on-write holder
            if not full and cls.__name__ not in ("Base", "PlainSub", "OwnInit"):
                continue
            H = holder(cls)

            def mk(mode="ctor"):
                return prime(c02._dp_make(cls, K, mode), K, 1)
            info0 = {"eager": eager, "base_dnc": list(dnc0), "class": cls.__name__, "declared": list(dnc),
                     "state": "caches filled, property / alias overrides stored, late private attribute, bound method"}
            for name, call, whole in c02._dp_holder_calls(cls, K, arg):
                h = H(kid=mk(), kids=[mk(), mk("inplace")], lookup={"a": mk(), "b": mk()})
                nested = [h.kid] + list(h.kids) + list(h.lookup.values())
                for x in nested:        # the holder's constructor copied them: fill the copies' caches again
                    prime(x, K, 1)
                del args[:]
                n += 1
                try:
                    r = call(h)
                except Exception as e:
                    raised += 1
                    extra.setdefault("private_state_raised", []).append("Holder[%s].%s: %r" % (cls.__name__, name, e))
                    continue
                reasons = []
                if r is h:
                    reasons.append("the result is the receiver itself")
                exempt = [vars(x)[a] for x in nested for a in dnc if a in vars(x)] + list(args)
                sh = shared(r, h, ("kid", "kids", "lookup", "n"), exempt)
                if sh and r is not h:
                    reasons.append("%d mutable object(s) reachable from both result and receiver, e.g. %s"
                                   % (len(sh), repr(sh[0])[:80]))
                if not reasons:
                    before = canon(h, skip=dnc, skip_cls=cls)
                    for x in [vars(r).get("kid")] + list(vars(r).get("kids", [])) + list(vars(r).get("lookup", {}).values()):
                        if x is not None and not any(x is a for a in args):
                            skipped += poke_state(x) + c02._dp_poke(x, K)
                    if canon(h, skip=dnc, skip_cls=cls) != before:
                        reasons.append("in-place changes of the instances nested in the result are visible through the receiver")
                    before = canon(r, skip=dnc, skip_cls=cls)
                    for x in nested:
                        skipped += poke_state(x) + c02._dp_poke(x, K)
                    if canon(r, skip=dnc, skip_cls=cls) != before:
                        reasons.append("in-place changes of the instances nested in the receiver are visible through the result")
                if reasons:
                    report(reasons, dict(info0, call=name, nesting="nested in a holder: value, list elements, dict values"))
    extra["private_state_probe"] = {
        "cases": n, "failing": bad, "raised": raised, "inplace_followups_skipped": skipped, "configurations": len(configs),
        "rule": "implementation only: instance state outside the declared attributes (private attributes set in __post_init__ / "
                "own __init__ / a plain subclass's __init__ / after construction, attrs_skip attributes, spec_property and "
                "cached_property caches, overridable-property and Alias overrides, bound methods) on spec classes, spec "
                "subclasses, plain subclasses and a spec subclass of a plain subclass; deepcopy and every helper kind; as "
                "receiver and nested in a holder; oracle: nothing mutable reachable from both sides through vars() and "
                "getattr except declared do_not_copy attributes and the caller's arguments, in-place follow-ups on both sides"}
