"""C16 — decoration adds exactly the documented helpers and never replaces user code.

Correspondence of coq/Deco/Decorate.v with spec_classes.spec_class (bootstrap, method
registration, lazy descriptors) and property oracle (coq/Deco/DecoSpec.v through
coq/Corr/DecoCorr.v:spec_ok) on what the implementation did to the class dictionary."""
import dataclasses
import json
import keyword
import types
import typing

from common import Check, ERR_CODES, cbool, clist, copt, coq_eval, cz, outcome_class

PRELUDE = """From Coq Require Import String List ZArith Bool.
From SC Require Import Base.Res Deco.Naming Deco.Decorate Deco.DecoSpec Corr.Enc Corr.DecoCorr.
Import ListNotations.
Open Scope string_scope.
Open Scope Z_scope.
Definition U k z := OE (EUser (mkmember k z)).
Definition L k z := OE (ELifted (mkmember k z)).
Definition W k z := OE (EUnwrapped (mkmember k z)).
Definition M := OE EMeta.
Definition G g b := OE (EGen g b).
Definition B k z := mkmember k z.
Definition A t i h := mkaspec t i h.
"""

KINDS = ["function", "staticmethod", "property", "value"]
# plain values that are falsy: a body may bind a generated name to any of them
FALSY = {"none": None, "zero": 0, "false": False, "empty_str": "", "empty_tuple": ()}
COLL = {"list": "CSeq", "list_nested": "CSeq", "klist": "CSeq", "rawlist": "CSeq",
        "dict": "CMap", "dict_nested": "CMap", "set": "CSet", "kset": "CSet"}
SCALAR_TYS = ["int", "str", "nested", "any"]
ALL_TYS = SCALAR_TYS + list(COLL)


# ------------------------------------------------------------------ implementation side
class World:
    """nested spec classes and type objects, created once per process"""

    def __init__(self):
        from spec_classes import Attr, spec_class
        from spec_classes.types import KeyedList, KeyedSet

        @spec_class
        class Nested:
            p: int = 1
            q: str = "s"
            r: int = Attr(default=0, init=False)

        @spec_class(key="k")
        class KeyedNested:
            k: str
            v: int = 0
        self.Nested, self.KeyedNested, self.Attr, self.spec_class = Nested, KeyedNested, Attr, spec_class
        self.types = {
            "int": int, "str": str, "any": typing.Any, "nested": Nested,
            "list": typing.List[int], "rawlist": list, "dict": typing.Dict[str, int], "set": typing.Set[int],
            "list_nested": typing.List[Nested], "dict_nested": typing.Dict[str, Nested],
            "klist": KeyedList[KeyedNested, str], "kset": KeyedSet[KeyedNested, str],
        }


_WORLD = None


def world():
    global _WORLD
    if _WORLD is None:
        _WORLD = World()
    return _WORLD


def default_for(ty):
    return {"int": 3, "str": "d", "any": None, "list": [1], "rawlist": [], "dict": {"a": 1}, "set": {1}}.get(ty)


def build_class(desc):
    """desc -> (undecorated class, decorator kwargs)"""
    w = world()
    ns, ann = {}, {}
    for a in desc["attrs"]:
        if a["ty"] != "noann":
            ann[a["name"]] = w.types[a["ty"]]
        d = a.get("decl", "none")
        if d == "value":
            ns[a["name"]] = default_for(a["ty"])
        elif d == "attr":
            ns[a["name"]] = w.Attr(default=default_for(a["ty"]), init=a.get("init", True))
        elif d == "attr_nodefault":
            ns[a["name"]] = w.Attr()
        elif d == "attr_factory":
            ns[a["name"]] = w.Attr(default_factory=list)
        elif d == "field":
            ns[a["name"]] = dataclasses.field(default=default_for(a["ty"]))
        elif d == "field_nodefault":
            ns[a["name"]] = dataclasses.field()
        elif d == "property":
            ns[a["name"]] = property(lambda self: 1)
        elif d == "method":
            ns[a["name"]] = lambda self: 1
    if ann:
        ns["__annotations__"] = ann
    for o in desc.get("occupied", []):
        ns[o["name"]] = occupant(o["name"], o["kind"])
    cls = type("K", (), ns)
    c = desc["cfg"]
    kw = {}
    for f in ("init", "repr", "eq"):
        if not c.get(f, True):
            kw[f] = False
    if not c.get("lazy", True):
        kw["bootstrap"] = True
    if c.get("key") is not None:
        kw["key"] = c["key"]
    if c.get("attrs") is not None:
        kw["attrs"] = list(c["attrs"])
    if c.get("attrs_typed") is not None:
        kw["attrs_typed"] = {n: w.types[t] for n, t in c["attrs_typed"]}
    if c.get("attrs_skip") is not None:
        kw["attrs_skip"] = list(c["attrs_skip"])
    if c.get("overflow") is not None:
        kw["init_overflow_attr"] = c["overflow"]
    return cls, kw


def occupant(name, kind):
    if kind == "function":
        if name == "__new__":
            def f(cls, *a, **k):
                return object.__new__(cls)
        else:
            def f(self, *a, **k):
                return None
        return f
    if kind == "staticmethod":
        return staticmethod(lambda *a, **k: None)
    if kind == "classmethod":
        return classmethod(lambda cls, *a, **k: None)
    if kind == "property":
        return property(lambda self: 5)
    if kind in FALSY:
        return FALSY[kind]
    return 7


def member_kind(o):
    w = world()
    if isinstance(o, types.FunctionType):
        return "KFunction"
    if isinstance(o, staticmethod):
        return "KStatic"
    if isinstance(o, classmethod):
        return "KClassm"
    if isinstance(o, property):
        return "KProperty"
    if isinstance(o, (w.Attr, dataclasses.Field)):
        return "KDecl"
    if isinstance(o, (types.GetSetDescriptorType, types.MemberDescriptorType)):
        return "KOther"
    return "KValue"


DESC_CLASSES = {
    "WithAttrMethod": ("S", "SWith"), "UpdateAttrMethod": ("S", "SUpdate"),
    "TransformAttrMethod": ("S", "STransform"), "ResetAttrMethod": ("S", "SReset"),
    "UpdateMethod": ("T", "TUpdate"), "TransformMethod": ("T", "TTransform"), "ResetMethod": ("T", "TReset"),
}
IMPL_FUNCS = {
    "with_attr": ("S", "SWith"), "update_attr": ("S", "SUpdate"), "transform_attr": ("S", "STransform"),
    "reset_attr": ("S", "SReset"), "update": ("T", "TUpdate"), "transform": ("T", "TTransform"),
    "reset": ("T", "TReset"), "init": ("C", "CInit"),
}
for _k, _ck in (("Sequence", "CSeq"), ("Mapping", "CMap"), ("Set", "CSet")):
    for _p, _e in (("With", "EWith"), ("Update", "EUpdate"), ("Transform", "ETransform"), ("Without", "EWithout")):
        DESC_CLASSES[f"{_p}{_k}ItemMethod"] = ("E", _e, _ck)
        IMPL_FUNCS[f"{_p.lower()}_{_k.lower()}_item"] = ("E", _e, _ck)
EPREFIX = {"EWith": "with_", "EUpdate": "update_", "ETransform": "transform_", "EWithout": "without_"}


def cs(s):
    assert '"' not in s
    return '"' + s + '"'


def gen_term(tag, attr, nm):
    if tag[0] == "S":
        return f"(GScalar {tag[1]} {cs(attr)})"
    if tag[0] == "T":
        return f"(GTop {tag[1]})"
    if tag[0] == "C":
        return f"(GCore {tag[1]})"
    item = nm[len(EPREFIX[tag[1]]):] if nm.startswith(EPREFIX[tag[1]]) else "?" + nm
    return f"(GElem {tag[1]} {cs(attr)} {tag[2]} {cs(item)})"


def classify(name, obj, before, uid):
    """Coq term (oentry) for the object found under `name` in the class dictionary"""
    from spec_classes.methods import core as core_methods
    from spec_classes.methods.base import MethodDescriptor
    from spec_classes.spec_class import SpecClassMetadata, _SpecClassMetadataPlaceholder
    from spec_classes.types import MISSING
    if name in before and obj is before[name]:
        return f"U {member_kind(obj)} {uid[name]}"
    if name in before and member_kind(before[name]) == "KDecl":
        d = before[name].default
        lifted = MISSING if d is dataclasses.MISSING else d
        if obj is lifted:
            return f"L KDecl {uid[name]}"
    if name in before and isinstance(before[name], staticmethod) and obj is before[name].__func__:
        return f"W KStatic {uid[name]}"
    if name in before and isinstance(before[name], classmethod) and isinstance(obj, types.MethodType) \
            and obj.__func__ is before[name].__func__:
        return f"W KClassm {uid[name]}"
    for other, o in before.items():
        if obj is o and other != name and not isinstance(obj, (int, str, tuple, type(None))):
            return f"U {member_kind(o)} {uid[other]}"
    if isinstance(obj, MethodDescriptor):
        tag = DESC_CLASSES.get(type(obj).__name__)
        if tag is None:
            return "OOther 1"
        attr = getattr(getattr(obj, "attr_spec", None), "name", "")
        return f"G {gen_term(tag, attr, obj.name)} false"
    if isinstance(obj, (SpecClassMetadata, _SpecClassMetadataPlaceholder)):
        return "M"
    if name in ("__dataclass_fields__", "__annotations__") and isinstance(obj, dict):
        return "M"
    if isinstance(obj, types.FunctionType):
        if getattr(obj, "__spec_classes_new_wrapper__", False):
            return "G GNewHook true"
        q = obj.__qualname__
        if q.endswith("__new__.<locals>.__new__"):
            return "G GNewPlain true"
        if obj is core_methods.EqMethod.eq:
            return "G (GCore CEq) true"
        if obj is core_methods.ReprMethod.repr:
            return "G (GCore CRepr) true"
        if obj is core_methods.DeepCopyMethod.deepcopy:
            return "G (GCore CDeepCopy) true"
        for cn, cc in (("GetAttrMethod", "CGetAttr"), ("SetAttrMethod", "CSetAttr"), ("DelAttrMethod", "CDelAttr")):
            if q.startswith(cn + ".build_method"):
                return f"G (GCore {cc}) true"
        impl = obj.__globals__.get("implementation")
        if impl is not None and "validate_attrs" in obj.__globals__:
            f = getattr(impl, "func", impl)
            tag = IMPL_FUNCS.get(getattr(f, "__name__", ""))
            if tag is not None:
                args = getattr(impl, "args", ())
                attr = getattr(args[0], "name", "") if args and tag[0] in "SE" else ""
                return f"G {gen_term(tag, attr, obj.__name__)} true"
        return "OOther 2"
    return "OOther 3"


def aty_of(ty):
    return f"(TColl {COLL[ty]})" if ty in COLL else "TScalar"


def observe(desc):
    """run the implementation on a class description; returns the observation dict"""
    from spec_classes.utils.naming import INFLECT_ENGINE
    w = world()
    names = {a["name"] for a in desc["attrs"]} | set(desc["cfg"].get("attrs") or []) | \
        {n for n, _ in (desc["cfg"].get("attrs_typed") or [])}
    for x in (desc["cfg"].get("key"), desc["cfg"].get("overflow")):
        if x:
            names.add(x)
    sing = {}
    for n in sorted(names):
        try:
            r = INFLECT_ENGINE.singular_noun(n)
        except BaseException:
            r = False
        sing[n] = r if isinstance(r, str) else None
    cls, kw = build_class(desc)
    before = dict(cls.__dict__)
    uid = {n: i + 1 for i, n in enumerate(before)}
    body = [(n, member_kind(o), uid[n]) for n, o in before.items()]
    obs = {"sing": sing, "body": body, "outcome": 0, "after": [], "used": [], "attrs": [], "annots": [],
           "inst": False, "uses": []}
    try:
        deco = w.spec_class(**kw)
        if desc.get("prior"):
            # one configured decorator object applied to an earlier class first: what it learnt
            # there must not leak into this class (the model decorates `cls` alone)
            prior_cls, _ = build_class(dict(desc["prior"], cfg=desc["cfg"], occupied=[]))
            deco(prior_cls)
            prior_cls.__spec_class__
        deco(cls)
        cls.__spec_class__  # triggers the lazy bootstrap
        cls.__dict__["__spec_class__"].attrs
    except BaseException as e:
        if isinstance(e, (KeyboardInterrupt, SystemExit)):
            raise
        obs["outcome"] = ERR_CODES.get(outcome_class(e), -8)
        obs["error"] = f"{type(e).__name__}: {e}"[:200]
        # what the class dictionary looks like after the failed decoration (no user code may be gone)
        obs["after"] = [(n, classify(n, o, before, uid)) for n, o in dict(cls.__dict__).items()]
        return obs
    snap = dict(cls.__dict__)
    obs["after"] = [(n, classify(n, o, before, uid)) for n, o in snap.items()]
    if desc.get("inst", True):
        obs["inst"] = True
        try:
            cls()
        except BaseException as e:
            if isinstance(e, (KeyboardInterrupt, SystemExit)):
                raise
    meta = cls.__dict__["__spec_class__"]
    for a, s in meta.attrs.items():
        kind = s.collection_mutator_type.__name__ if s.is_collection else None
        ck = {"SequenceMutator": "CSeq", "MappingMutator": "CMap", "SetMutator": "CSet", None: None}[kind]
        obs["attrs"].append((a, ck, s.item_name if s.is_collection else None, s.helper_methods is not None))
    obs["annots"] = list(cls.__dict__.get("__annotations__", {}))
    uses = list(snap)
    obs["uses"] = uses
    for n in uses:
        try:
            getattr(cls, n)
        except BaseException as e:
            if isinstance(e, (KeyboardInterrupt, SystemExit)):
                raise
    obs["used"] = [(n, classify(n, o, before, uid)) for n, o in cls.__dict__.items()]
    return obs


# ------------------------------------------------------------------ Coq side
def c_case(desc, obs):
    c = desc["cfg"]
    cfg = "(mkcfg %s %s %s %s %s %s %s %s %s)" % (
        copt(c.get("key"), cs), cbool(c.get("init", True)), cbool(c.get("repr", True)), cbool(c.get("eq", True)),
        cbool(c.get("lazy", True)),
        copt(c.get("attrs"), lambda l: clist(l, cs)),
        copt(c.get("attrs_typed"), lambda l: clist(l, lambda p: f"({cs(p[0])}, {'None' if p[1] == 'any' else '(Some ' + aty_of(p[1]) + ')'})")),
        copt(c.get("attrs_skip"), lambda l: clist(l, cs)),
        copt(c.get("overflow"), cs))
    body = clist(obs["body"], lambda b: f"({cs(b[0])}, B {b[1]} {b[2]})")
    annots = clist([a for a in desc["attrs"] if a["ty"] != "noann"], lambda a: f"({cs(a['name'])}, {aty_of(a['ty'])})")
    sing = clist(sorted(obs["sing"].items()), lambda p: f"({cs(p[0])}, {copt(p[1], cs)})")
    ents = lambda l: clist(l, lambda p: f"({cs(p[0])}, {p[1]})")

    def aspec(t):
        a, ck, item, helpers = t
        # non-collections: the model stores the singular form it computed; it is not observable
        # (item_name is never used for them), so the harness recomputes it the documented way
        if ck is None:
            s = obs["sing"].get(a)
            item = s if (s and s != a) else a + "_item"
        return f"({cs(a)}, A {'(TColl ' + ck + ')' if ck else 'TScalar'} {cs(item)} {cbool(helpers)})"
    return (f"mkcase {cfg} (mkcls {body} {annots}) {sing} {cbool(obs['inst'])} {clist(obs['uses'], cs)} "
            f"{cz(obs['outcome'])} {ents(obs['after'])} {ents(obs['used'])} {clist(obs['attrs'], aspec)} "
            f"{clist(obs['annots'], cs)}")


# ------------------------------------------------------------------ generation
WORDS = ["x", "y", "items", "item", "values", "value", "foxes", "indices", "data", "children", "child",
         "people", "names", "name", "cfg", "boxes", "xs", "entries", "entry", "series", "sheep", "foo",
         "foo_items", "foo_item", "values_item", "values_items", "status", "agenda", "agendums", "algae", "algas"]
PRIVATE = ["_p", "_hidden", "__q"]


def collision_words():
    """words whose singular forms coincide, searched in inflect's own tables with the real engine"""
    import inflect
    from spec_classes.utils.naming import INFLECT_ENGINE as E
    words = set()

    def walk(o, depth=0):
        if isinstance(o, str):
            for w in o.replace("|", " ").replace("(?:", " ").replace(")", " ").replace("(", " ").split():
                if w.isidentifier() and w.islower() and len(w) > 2:
                    words.add(w)
        elif isinstance(o, (list, tuple, set, frozenset)) and depth < 3:
            for x in o:
                walk(x, depth + 1)
        elif isinstance(o, dict) and depth < 3:
            for k, v in o.items():
                walk(k, depth + 1)
                walk(v, depth + 1)
    for n in sorted(dir(inflect)):
        if not n.startswith("__"):
            walk(getattr(inflect, n))
    classical = inflect.engine()
    classical.classical(all=True)
    allw = set(words)
    for w in sorted(words):
        for eng in (E, classical):
            try:
                p = eng.plural_noun(w)
                if p and p.isidentifier() and p.islower():
                    allw.add(p)
            except BaseException:
                pass
        for suf in ("s", "es", "a", "i", "ae"):
            allw.add(w + suf)
            if w.endswith(("um", "us", "on", "is")):
                allw.add(w[:-2] + suf)
    sing = {}
    for w in sorted(allw):
        if keyword.iskeyword(w) or not w.isidentifier():
            continue
        try:
            r = E.singular_noun(w)
        except BaseException:
            continue
        if r and r != w and r.isidentifier():
            sing.setdefault(r, []).append(w)
    same = [(a, b) for s, ws in sorted(sing.items()) for i, a in enumerate(ws) for b in ws[i + 1:]]
    withname = [(w, s) for s, ws in sorted(sing.items()) for w in ws]
    return same, withname


def base_cfg(**kw):
    c = {"key": None, "init": True, "repr": True, "eq": True, "lazy": True, "attrs": None,
         "attrs_typed": None, "attrs_skip": None, "overflow": None}
    c.update(kw)
    return c


def random_desc(rng, nmax=5):
    n = rng.randint(0, nmax)
    names = rng.sample(WORDS, n)
    attrs = []
    for nm in names:
        ty = rng.choice(ALL_TYS)
        decl = rng.choice(["none", "none", "value", "attr", "attr_factory", "field", "property", "attr_nodefault"])
        if decl in ("value", "attr", "field") and default_for(ty) is None and ty != "any":
            decl = "none"
        if decl == "attr_factory" and ty not in ("list", "rawlist", "any"):
            decl = "none"
        attrs.append({"name": nm, "ty": ty, "decl": decl})
    if rng.random() < 0.4:
        attrs.insert(rng.randint(0, len(attrs)), {"name": rng.choice(PRIVATE), "ty": rng.choice(["int", "list"]),
                                                   "decl": rng.choice(["none", "value", "attr"])})
    c = base_cfg(init=rng.random() < 0.8, repr=rng.random() < 0.8, eq=rng.random() < 0.8, lazy=rng.random() < 0.5)
    pool = names + rng.sample(WORDS, 2)
    r = rng.random()
    if r < 0.25:
        c["attrs"] = rng.sample(pool, rng.randint(0, min(3, len(pool))))
    elif r < 0.45:
        c["attrs_typed"] = [(nm, rng.choice(ALL_TYS)) for nm in rng.sample(pool, rng.randint(0, min(3, len(pool))))]
    elif r < 0.55:
        c["attrs"] = rng.sample(pool, rng.randint(0, 2))
        c["attrs_typed"] = [(nm, rng.choice(ALL_TYS)) for nm in rng.sample(pool, rng.randint(0, 2))]
    if rng.random() < 0.3:
        c["attrs_skip"] = rng.sample(pool, rng.randint(0, min(2, len(pool))))
    if rng.random() < 0.08:
        c["attrs"] = (c["attrs"] or []) + [rng.choice(PRIVATE)]
    if rng.random() < 0.3:
        c["key"] = rng.choice(pool + PRIVATE[:1])
    if rng.random() < 0.2:
        c["overflow"] = rng.choice(["extra", "options", "_extras"] + pool[:1])
    for a in attrs:  # unannotated attributes reachable through attrs only
        if rng.random() < 0.1 and a["name"] in (c["attrs"] or []):
            a["ty"] = "noann"
    return {"attrs": attrs, "cfg": c, "occupied": [], "inst": rng.random() < 0.7}


FIXED = [
    {"attrs": [{"name": "x", "ty": "int", "decl": "value"}, {"name": "ys", "ty": "list", "decl": "attr_factory"},
               {"name": "z", "ty": "str", "decl": "field"}, {"name": "_p", "ty": "int", "decl": "value"}],
     "cfg": base_cfg()},
    {"attrs": [{"name": "n", "ty": "nested", "decl": "none"}, {"name": "children", "ty": "list_nested", "decl": "none"},
               {"name": "lookup", "ty": "dict_nested", "decl": "none"}, {"name": "tags", "ty": "set", "decl": "none"}],
     "cfg": base_cfg(lazy=False)},
    {"attrs": [{"name": "k", "ty": "str", "decl": "none"}, {"name": "members", "ty": "klist", "decl": "none"},
               {"name": "peers", "ty": "kset", "decl": "none"}],
     "cfg": base_cfg(key="k", init=False, eq=False)},
    {"attrs": [{"name": "item", "ty": "int", "decl": "none"}, {"name": "items", "ty": "list", "decl": "none"}],
     "cfg": base_cfg(repr=False)},
    {"attrs": [{"name": "a", "ty": "int", "decl": "none"}, {"name": "bs", "ty": "dict", "decl": "none"},
               {"name": "c", "ty": "noann", "decl": "value"}],
     "cfg": base_cfg(attrs=["c"], attrs_typed=[("ds", "list")], attrs_skip=["a"], overflow="extra")},
]


FIXED.append({"attrs": [{"name": "a", "ty": "int", "decl": "none"}, {"name": "bs", "ty": "list", "decl": "none"},
                        {"name": "c", "ty": "noann", "decl": "value"}],
              "cfg": base_cfg(attrs=["c"], attrs_skip=[])})
FIXED.append({"attrs": [{"name": "a", "ty": "int", "decl": "none"}, {"name": "ms", "ty": "dict", "decl": "none"}],
              "cfg": base_cfg(attrs_typed=[("ds", "list")], attrs_skip=[], lazy=False)})


# a private overflow attribute is a private name in the decorator's attribute table: must be refused
FIXED.append({"attrs": [{"name": "a", "ty": "int", "decl": "none"}], "cfg": base_cfg(overflow="_extras")})
FIXED.append({"attrs": [{"name": "a", "ty": "int", "decl": "none"}], "cfg": base_cfg(overflow="_extras", attrs=["a"], lazy=False)})


def expected_generated(desc):
    """names that decoration adds to this class (from the implementation itself)"""
    cls, kw = build_class(desc)
    before = set(cls.__dict__)
    try:
        world().spec_class(**kw)(cls)
        cls.__spec_class__
    except BaseException:
        return []
    return [n for n in cls.__dict__ if n not in before and n not in ("__spec_class__", "__dataclass_fields__", "__annotations__")]


def variants(desc, rng, per_name=None, falsy=None):
    """the class with each generated name occupied in its own body: `per_name` of the four
    callable/truthy kinds (None: all four) and `falsy` of the five falsy plain values (None: all five).
    __new__ included (the lazy hook must hand back whatever the body bound, falsy or not)."""
    out = []
    for n in expected_generated(desc) + ["__new__"]:
        kinds = KINDS if per_name is None else rng.sample(KINDS, per_name)
        if n == "__new__":
            kinds = ["function"] if per_name is not None else ["function", "staticmethod", "classmethod", "property", "value"]
        kinds = kinds + (list(FALSY) if falsy is None else rng.sample(list(FALSY), falsy))
        for kd in kinds:
            d = json.loads(json.dumps(desc))
            d["occupied"] = [{"name": n, "kind": kd}]
            d["inst"] = True
            out.append((d, "occupied"))
    return out


def generate(rng, tier):
    quick = tier == "quick"
    cases = []
    for j, d in enumerate(FIXED):
        d = dict(d, occupied=[], inst=True)
        cases.append((d, "fixed"))
        # every generated name (scalar, element, top-level, dunder) x 4 kinds x falsy plain values
        # (all five for the first fixed class in quick, for every fixed class in thorough)
        cases += variants(d, rng, falsy=None if (j == 0 or not quick) else 1)
    # random classes; every generated name occupied in 1 (quick) / all 4 (thorough) ways
    for i in range(40 if quick else 400):
        d = random_desc(rng)
        cases.append((d, "random"))
        if i < (12 if quick else 120):
            cases += variants(d, rng, per_name=1 if quick else None,
                              falsy=(1 if i < 6 else 0) if quick else 2)
    # one decorator object applied to two classes (the second one is the case)
    for i in range(30 if quick else 300):
        d = random_desc(rng, 4)
        p_ = random_desc(rng, 4)
        names_ = {a["name"] for a in d["attrs"]}
        p_["attrs"] = [a for a in p_["attrs"] if a["name"] not in names_ and not a["name"].startswith("_")
                       and a.get("decl", "none") in ("none", "value")]
        if not p_["attrs"]:
            p_["attrs"] = [{"name": "earlier", "ty": "list", "decl": "none"}]
        if i % 3 == 0:
            d["cfg"]["attrs_skip"] = []   # explicitly empty
        d["prior"] = {"attrs": p_["attrs"]}
        cases.append((d, "shared_decorator"))
    # occupied pairs
    for i in range(20 if quick else 200):
        d = random_desc(rng, 3)
        g = expected_generated(d)
        if len(g) >= 2:
            d["occupied"] = [{"name": n, "kind": rng.choice(KINDS + ["classmethod"] + list(FALSY))} for n in rng.sample(g, 2)]
            cases.append((d, "occupied2"))
    # singular / plural collisions found with the real inflect
    same, withname = collision_words()
    rng.shuffle(same)
    rng.shuffle(withname)
    ctys = ["list", "dict", "set", "list_nested", "klist"]
    for a, b in same[: 60 if quick else len(same)]:
        d = {"attrs": [{"name": a, "ty": rng.choice(ctys), "decl": "none"},
                       {"name": b, "ty": rng.choice(ctys), "decl": "none"}],
             "cfg": base_cfg(lazy=rng.random() < 0.5), "occupied": [], "inst": True}
        r = rng.random()
        if r < 0.25:    # the fallback of the second is taken as well
            d["attrs"].append({"name": b + "_item", "ty": rng.choice(["int", "list"]), "decl": "none"})
        elif r < 0.4:   # a third collection whose singular is the second's fallback
            d["attrs"].append({"name": b + "_items", "ty": "list", "decl": "none"})
        elif r < 0.5:
            d["attrs"].reverse()
        cases.append((d, "collision"))
    for wd, s in withname[: 40 if quick else 600]:
        d = {"attrs": [{"name": s, "ty": rng.choice(["int", "list"]), "decl": "none"},
                       {"name": wd, "ty": rng.choice(ctys), "decl": "none"}],
             "cfg": base_cfg(lazy=rng.random() < 0.5), "occupied": [], "inst": True}
        if rng.random() < 0.3:
            d["attrs"].append({"name": wd + "_item", "ty": "int", "decl": "none"})
        if rng.random() < 0.3:
            d["attrs"].reverse()
        cases.append((d, "collision"))
    return cases, {"same_singular_pairs_found": len(same), "plural_singular_pairs_found": len(withname)}


# ------------------------------------------------------------------ hierarchies: first use through a subclass / super()
# Implementation-only probe (the Coq model has one class): the oracle is evaluated here, in Python,
# on object identities.  Oracle: every member a class of the hierarchy defines in its own body is the
# same object before and after any sequence of first uses (through the subclass, through an instance
# of the subclass, through super(), through the parent), no name appears in a plain subclass's
# dictionary, and the parent's own dictionary ends up holding the generated function.
HIER_OCC = ["super_function", "function", "staticmethod", "value"]
HIER_ACCESS = ["subclass", "instance", "super", "parent_last"]


def hier_occupant(kind, name, holder):
    if kind == "super_function":
        def f(self, *a, **k):
            return getattr(super(holder[0], self), name)(*a, **k)
        return f
    if kind == "function":
        return lambda self, *a, **k: None
    if kind == "staticmethod":
        return staticmethod(lambda *a, **k: None)
    return 7


def hier_run(case):
    """case: {"desc": parent description, "name": generated name, "sub": plain|spec, "occ": kind, "access": mode}
    returns a list of oracle failures (empty: fine)"""
    from spec_classes.methods.base import MethodDescriptor
    w = world()
    desc = case["desc"]
    P, kw = build_class(desc)
    P = w.spec_class(**kw)(P)
    P.__spec_class__  # bootstrap the parent
    name = case["name"]
    if name not in P.__dict__:
        return ["parent does not generate " + name]
    holder = []
    S = type("S", (P,), {name: hier_occupant(case["occ"], name, holder), "own_member": lambda self: 1})
    holder.append(S)
    if case["sub"] == "spec":
        S = w.spec_class(bootstrap=True)(S)
        holder[0] = S
    before_S = dict(S.__dict__)
    user_P = {n: o for n, o in P.__dict__.items() if not isinstance(o, MethodDescriptor)}
    try:
        inst = S()
    except BaseException as e:
        if isinstance(e, (KeyboardInterrupt, SystemExit)):
            raise
        inst = None

    def touch(obj, n, call=False):
        try:
            v = getattr(obj, n)
            if call and callable(v):
                v()
        except BaseException as e:
            if isinstance(e, (KeyboardInterrupt, SystemExit)):
                raise
    mode = case["access"]
    if mode == "subclass":
        touch(S, name)
    elif mode == "instance" and inst is not None:
        touch(inst, name)
    elif mode == "super" and inst is not None:
        touch(inst, name, call=True)
        try:
            getattr(super(S, inst), name)
        except BaseException as e:
            if isinstance(e, (KeyboardInterrupt, SystemExit)):
                raise
    # then every name of the parent: through the subclass, its instance, and finally the parent
    for n in list(P.__dict__):
        if n.startswith("__"):
            continue
        touch(S, n)
        if inst is not None:
            touch(inst, n)
            try:
                getattr(super(S, inst), n)
            except BaseException as e:
                if isinstance(e, (KeyboardInterrupt, SystemExit)):
                    raise
    for n in list(P.__dict__):
        if not n.startswith("__"):
            touch(P, n)
    fails = []
    for n, o in before_S.items():
        if n in ("__new__",) or n.startswith("__spec_class") or n == "__dataclass_fields__":
            continue
        now = S.__dict__.get(n, "<gone>")
        if now is not o and not isinstance(o, MethodDescriptor):
            fails.append(f"S.__dict__[{n!r}] was {type(o).__name__}, is now {type(now).__name__ if now != '<gone>' else 'gone'}")
    extra = [n for n in S.__dict__ if n not in before_S]
    if extra:
        fails.append(f"names appeared in the subclass dictionary: {sorted(extra)}")
    for n, o in user_P.items():
        if n.startswith("__"):
            continue
        if P.__dict__.get(n) is not o:
            fails.append(f"P.__dict__[{n!r}] changed")
    for n, o in P.__dict__.items():
        if isinstance(o, MethodDescriptor):
            fails.append(f"P.__dict__[{n!r}] is still a descriptor after its first use")
    return fails


# a spec subclass adding an attribute whose name is the singular form of an inherited collection:
# the parent (helpers, item names, dictionary) must be untouched, the subclass gets the element
# helpers under the fallback name and the scalar helpers under the plain name (oracle in Python)
COLL_PAIRS = [("foos", "foo"), ("values", "value"), ("boxes", "box"), ("entries", "entry")]


def hier_collision_run(case):
    import typing as _t
    from spec_classes.methods.base import MethodDescriptor
    w = world()
    plural, singular = case["plural"], case["singular"]
    T = {"list": _t.List[int], "dict": _t.Dict[str, int], "set": _t.Set[int]}[case["ty"]]
    P = w.spec_class(bootstrap=not case["lazy"])(type("P", (), {"__annotations__": {plural: T, "other": int}, "other": 1}))
    P.__spec_class__
    if case["use_parent_first"]:
        for n in list(P.__dict__):
            if not n.startswith("__"):
                getattr(P, n)
    names_before = set(P.__dict__)
    item_before = P.__spec_class__.attrs[plural].item_name
    spec_before = P.__spec_class__.attrs[plural]
    fails = []
    try:
        S = w.spec_class(bootstrap=not case["lazy"])(type("S", (P,), {"__annotations__": {singular: int}, singular: 5}))
        S.__spec_class__
        s_inst = S()
    except BaseException as e:
        if isinstance(e, (KeyboardInterrupt, SystemExit)):
            raise
        return [f"subclass cannot be decorated/instantiated: {type(e).__name__}: {e}"[:200]]
    for K in (S, P):
        for n in list(K.__dict__):
            if not n.startswith("__"):
                try:
                    getattr(K, n)
                    getattr(K(), n)
                except BaseException as e:
                    if isinstance(e, (KeyboardInterrupt, SystemExit)):
                        raise
    if set(P.__dict__) != names_before:
        fails.append(f"parent dictionary changed: +{sorted(set(P.__dict__) - names_before)} -{sorted(names_before - set(P.__dict__))}")
    if P.__spec_class__.attrs[plural] is not spec_before or P.__spec_class__.attrs[plural].item_name != item_before:
        fails.append(f"parent's item name for {plural} is now {P.__spec_class__.attrs[plural].item_name!r} (was {item_before!r})")
    for n, o in P.__dict__.items():
        if isinstance(o, MethodDescriptor):
            fails.append(f"P.__dict__[{n!r}] is still a descriptor")
        elif not n.startswith("__") and callable(o) and getattr(o, "__name__", n) != n:
            fails.append(f"P.__dict__[{n!r}] holds a function named {o.__name__!r}")
    want = [f"{p}_{plural}_item" for p in ("with", "update", "transform", "without")] + \
           [f"{p}_{singular}" for p in ("with", "update", "transform", "reset")]
    missing = [n for n in want if n not in S.__dict__]
    if missing:
        fails.append(f"subclass lacks its own helpers {missing}")
    elem = {"list": 3, "dict": ("k", 3), "set": 3}[case["ty"]]
    try:
        args = elem if isinstance(elem, tuple) else (elem,)
        r1 = getattr(s_inst, f"with_{plural}_item")(*args)
        r2 = s_inst.__class__().__getattribute__(f"with_{singular}")(9)
        r3 = getattr(P(), f"with_{item_before}")(*args)
        ok = (len(getattr(r1, plural)) == 1 and getattr(r2, singular) == 9 and len(getattr(r3, plural)) == 1)
        if not ok:
            fails.append("helpers do not do what their names say")
    except BaseException as e:
        if isinstance(e, (KeyboardInterrupt, SystemExit)):
            raise
        fails.append(f"helper call failed: {type(e).__name__}: {e}"[:200])
    return fails


def hier_collision_generate():
    return [{"plural": p, "singular": s_, "ty": ty, "lazy": lz, "use_parent_first": up}
            for p, s_ in COLL_PAIRS for ty in ("list", "dict", "set") for lz in (False, True) for up in (False, True)]


def hier_generate(rng, tier):
    quick = tier == "quick"
    parents = [dict(FIXED[0], occupied=[], inst=True), dict(FIXED[1], occupied=[], inst=True), dict(FIXED[3], occupied=[], inst=True)]
    parents[0] = dict(parents[0], cfg=base_cfg(lazy=True))
    out = []
    for d in parents:
        names = [n for n in expected_generated(d) if not n.startswith("__")]
        for n in names:
            combos = [(sub, occ, acc) for sub in ("plain", "spec") for occ in HIER_OCC for acc in HIER_ACCESS]
            if quick:
                combos = rng.sample(combos, 6) + [("plain", "super_function", "super"), ("spec", "super_function", "instance")]
            for sub, occ, acc in combos:
                out.append({"desc": d, "name": n, "sub": sub, "occ": occ, "access": acc})
    return out


# ------------------------------------------------------------------ check
def evaluate(descs, tag="c"):
    terms, obss = [], []
    for d in descs:
        o = observe(d)
        obss.append(o)
        terms.append(c_case(d, o))
    bad, logs = coq_eval("C16", PRELUDE, "check_case", terms, shard=40, tag=tag, case_type="case")
    return bad, logs, obss


def shrink(desc, code):
    cur = json.loads(json.dumps(desc))
    for _ in range(10):
        cands = []
        for j in range(len(cur["attrs"])):
            d = json.loads(json.dumps(cur))
            del d["attrs"][j]
            cands.append(d)
        if cur.get("prior"):
            d = json.loads(json.dumps(cur))
            del d["prior"]
            cands.append(d)
        for j in range(len(cur.get("occupied", []))):
            d = json.loads(json.dumps(cur))
            del d["occupied"][j]
            cands.append(d)
        for f, v in (("key", None), ("attrs", None), ("attrs_typed", None), ("attrs_skip", None), ("overflow", None),
                     ("init", True), ("repr", True), ("eq", True), ("lazy", False)):
            if cur["cfg"].get(f) != v:
                d = json.loads(json.dumps(cur))
                d["cfg"][f] = v
                cands.append(d)
        for j, a in enumerate(cur["attrs"]):
            if a.get("decl", "none") != "none":
                d = json.loads(json.dumps(cur))
                d["attrs"][j]["decl"] = "none"
                cands.append(d)
        if not cands:
            break
        bad, _, _ = evaluate(cands, tag="s")
        hit = [i for i, c in bad if c == code]
        if not hit:
            break
        cur = cands[min(hit)]
    return cur


def fix_desc(d):
    if d["cfg"].get("attrs_typed") is not None:
        d["cfg"]["attrs_typed"] = [tuple(p) for p in d["cfg"]["attrs_typed"]]
    return d


def explain(desc, tag="x"):
    """which parts of the oracle reject"""
    o = observe(desc)
    if o["outcome"] != 0:
        return ["raise_not_justified"]
    bad, logs = coq_eval("C16", PRELUDE, "spec_fail_bits", [c_case(desc, o)], tag=tag, case_type="case")
    parts = ["user_after", "user_used", "decl_after", "decl_used", "helpers_after", "helpers_used",
             "specnames_after", "specnames_used", "private_after", "private_used", "item_rule"]
    if not bad:
        return []
    v = bad[0][1]
    return [p for i, p in enumerate(parts) if (v >> i) & 1]


def main(tier, replay=None):
    chk = Check("C16", tier)
    if replay:
        r = json.load(open(replay))
        if "hier_collision" in r:
            fails = hier_collision_run(r["hier_collision"])
            print("replay:", "still failing code=2" if fails else "passes now", fails[:5])
            return 1 if fails else 0
        if "hier" in r:
            r["hier"]["desc"] = fix_desc(r["hier"]["desc"])
            fails = hier_run(r["hier"])
            print("replay:", "still failing code=2" if fails else "passes now", fails[:5])
            return 1 if fails else 0
        desc = fix_desc(r["desc"])
        bad, logs, obss = evaluate([desc], tag="r")
        print("replay:", "still failing code=%s" % bad[0][1] if bad else "passes now", logs)
        print("observed now:", json.dumps({k: v for k, v in obss[0].items() if k in ("outcome", "attrs", "annots", "error")}, default=str))
        print("generated:", [p for p in obss[0]["after"] if p[1].startswith("G ")])
        return 1 if bad else 0
    chk.proofs()
    cases, found = generate(chk.rng, tier)
    import glob
    import os
    corpus = []
    for f in sorted(glob.glob(os.path.join(os.path.dirname(os.path.dirname(os.path.abspath(__file__))), "corpus", "C16", "*.json"))):
        try:
            corpus.append((json.load(open(f))["desc"], "corpus"))
        except (OSError, ValueError, KeyError):
            pass
    cases = corpus + cases
    descs = [fix_desc(d) for d, _ in cases]
    bad, logs, obss = evaluate(descs)
    reported = set()
    for i, code in sorted(bad, key=lambda b: (-b[1], len(descs[b[0]]["attrs"])))[:10]:
        small = shrink(descs[i], code)
        why = explain(small) if code == 2 else []
        o = observe(small)
        occ = [x["kind"] for x in small.get("occupied", [])]
        sig = {"code": code, "parts": ",".join(why), "outcome": o["outcome"], "occupied": ",".join(occ)}
        key = json.dumps(sig, sort_keys=True)
        if key in reported:
            continue
        reported.add(key)
        what = (("decoration violates the documented helper rules (" + ",".join(why) + ")") if code == 2
                else "decoration differs from the model") + \
            f": attrs={[(a['name'], a['ty'], a.get('decl', 'none')) for a in small['attrs']]} " \
            f"occupied={small.get('occupied')} " + (f"same decorator object applied first to a class with attrs={[(a['name'], a['ty']) for a in small['prior']['attrs']]} " if small.get("prior") else "") + f"cfg={ {k: v for k, v in small['cfg'].items() if v not in (None, True)} }"
        chk.violation(what, {"desc": small, "code": code, "rejected_by": why,
                             "observed": {k: o[k] for k in ("outcome", "attrs", "annots")},
                             "generated": [p for p in o["after"] if p[1].startswith("G ")],
                             "replay": "bin/check C16 --replay <this file>"},
                      sig=sig, no_input=(code != 2))
    # hierarchies (implementation-only probe, oracle in Python)
    hier = hier_generate(chk.rng, tier)
    hier_failed = 0
    hreported = set()
    for hc in hier:
        fails = hier_run(hc)
        if not fails:
            continue
        hier_failed += 1
        sig = {"code": 2, "kind": "hierarchy", "sub": hc["sub"], "occ": hc["occ"], "access": hc["access"]}
        key = json.dumps(sig, sort_keys=True)
        if key in hreported or len(hreported) >= 6:
            continue
        hreported.add(key)
        chk.violation(f"first use through a subclass replaced user code: parent attrs="
                      f"{[(a['name'], a['ty']) for a in hc['desc']['attrs']]} name={hc['name']} subclass={hc['sub']} "
                      f"defines it as {hc['occ']}, first use via {hc['access']}: {fails[:3]}",
                      {"hier": hc, "failures": fails, "code": 2, "replay": "bin/check C16 --replay <this file>"}, sig=sig)
    hcoll = hier_collision_generate()
    hcoll_failed = 0
    for hc in hcoll:
        fails = hier_collision_run(hc)
        if not fails:
            continue
        hcoll_failed += 1
        if hcoll_failed <= 3:
            chk.violation(f"a spec subclass adding {hc['singular']!r} next to the inherited collection {hc['plural']!r} ({hc['ty']}, "
                          f"lazy={hc['lazy']}, parent used first={hc['use_parent_first']}): {fails[:3]}",
                          {"hier_collision": hc, "failures": fails, "code": 2, "replay": "bin/check C16 --replay <this file>"},
                          sig={"code": 2, "kind": "hierarchy_collision", "ty": hc["ty"], "lazy": hc["lazy"]})
    for lg in logs:
        chk.violation("correspondence evaluation failed: " + lg[-500:], {"kind": "coq-eval", "log": lg}, no_input=True)
    kinds, outcomes, nattrs, occk, tys, lazy = {}, {}, {}, {}, {}, {}
    distinct = set()
    nontrivial = 0
    gen_names = 0
    for (d, k), o in zip(cases, obss):
        kinds[k] = kinds.get(k, 0) + 1
        outcomes[str(o["outcome"])] = outcomes.get(str(o["outcome"]), 0) + 1
        nattrs[len(d["attrs"])] = nattrs.get(len(d["attrs"]), 0) + 1
        for x in d.get("occupied", []):
            occk[x["kind"]] = occk.get(x["kind"], 0) + 1
        for a in d["attrs"]:
            tys[a["ty"]] = tys.get(a["ty"], 0) + 1
        lazy[str(d["cfg"]["lazy"])] = lazy.get(str(d["cfg"]["lazy"]), 0) + 1
        distinct.add(json.dumps(d, sort_keys=True))
        g = sum(1 for p in o["after"] if p[1].startswith("G "))
        gen_names += g
        if g or o["outcome"]:
            nontrivial += 1
    extra = {
        "correspondence": {"cases": len(cases), "disagreements": len(bad), "by_generator": kinds,
                           "hierarchy_probes": len(hier), "hierarchy_probe_failures": hier_failed,
                           "hierarchy_collision_probes": len(hcoll), "hierarchy_collision_failures": hcoll_failed,
                           "outcome_histogram": outcomes, "attribute_count_histogram": nattrs,
                           "occupied_kind_histogram": occk, "attribute_type_histogram": tys,
                           "lazy_histogram": lazy, "generated_entries_compared": gen_names,
                           "first_use_lookups": sum(len(o["uses"]) for o in obss), **found},
        "evaluations": len(cases), "distinct_nontrivial": min(len(distinct), nontrivial),
        "rule": "case = (attributes with type/declaration form, decorator arguments, names occupied in the body, instantiated?); "
                "fixed classes and random classes x every generated name occupied as function/staticmethod/property/truthy value "
                "and as a falsy plain value None/0/False/''/() (quick: all five for the first fixed class, one otherwise; one kind per name for random classes), occupied pairs, and colliding word pairs found with the real "
                "inflect; distinct = distinct descriptions; nontrivial = at least one generated entry compared or decoration raised",
        "samples": [descs[0], descs[len(descs) // 2], descs[-1]],
        "exhaustive": False,
    }
    return chk.finish(
        trusted_base=["Coq 8.16.1 kernel and vm_compute", "no axioms (Print Assumptions: closed under the global context)",
                      "hand-written model coq/Deco/Decorate.v + Naming.v tied to /repo by this run's correspondence",
                      "inflect.singular_noun is an oracle (its answers are inputs of each case)",
                      "harness/c16.py: classification of class-dictionary entries by identity / descriptor class / implementation function"],
        assumptions=["one class without spec-class parents (inheritance is C09's subject)",
                     "names reserved by the library (__spec_class*, __dataclass_fields__) are not user code",
                     "an Attr/field declaration is a declaration, not user code: it is lifted iff the attribute gets a specification",
                     "a user __new__ of a lazily bootstrapped class is compared by the function inside its staticmethod wrapper"],
        extra=extra)
