"""C16 — decoration adds exactly the documented helpers and never replaces user code.

Correspondence of coq/Deco/Decorate.v with spec_classes.spec_class (bootstrap, method
registration, lazy descriptors) and property oracle (coq/Deco/DecoSpec.v through
coq/Corr/DecoCorr.v:spec_ok) on what the implementation did to the class dictionary."""
import dataclasses
import json
import keyword
import os
import sys
import traceback
import types
import typing

from common import Check, ERR_CODES, cbool, clist, copt, coq_eval, cz, outcome_class

PRELUDE = """From Coq Require Import String List ZArith Bool.
From SC Require Import Base.Res Deco.Naming Deco.Decorate Deco.DecoSpec Corr.Enc Corr.DecoCorr.
Import ListNotations.
Open Scope string_scope.
Open Scope Z_scope.
Definition U k z := OE (EUser (mkmember k z)).
Definition L k z := OE (ELifted (mkmember k z)).
Definition W k z := OE (EUnwrapped (mkmember k z)).
Definition M := OE EMeta.
Definition G g b := OE (EGen g b).
Definition B k z := mkmember k z.
Definition A t i h := mkaspec t i h.
"""

KINDS = ["function", "staticmethod", "property", "value"]
# plain values that are falsy: a body may bind a generated name to any of them
FALSY = {"none": None, "zero": 0, "false": False, "empty_str": "", "empty_tuple": ()}
COLL = {"list": "CSeq", "list_nested": "CSeq", "klist": "CSeq", "rawlist": "CSeq",
        "dict": "CMap", "dict_nested": "CMap", "set": "CSet", "kset": "CSet"}
SCALAR_TYS = ["int", "str", "nested", "any"]
ALL_TYS = SCALAR_TYS + list(COLL)


# ------------------------------------------------------------------ implementation side
class World:
    """nested spec classes and type objects, created once per process"""

    def __init__(self):
        from spec_classes import Attr, spec_class
        from spec_classes.types import KeyedList, KeyedSet

        @spec_class
        class Nested:
            p: int = 1
            q: str = "s"
            r: int = Attr(default=0, init=False)

        @spec_class(key="k")
        class KeyedNested:
            k: str
            v: int = 0
        self.Nested, self.KeyedNested, self.Attr, self.spec_class = Nested, KeyedNested, Attr, spec_class
        self.types = {
            "int": int, "str": str, "any": typing.Any, "nested": Nested,
            "list": typing.List[int], "rawlist": list, "dict": typing.Dict[str, int], "set": typing.Set[int],
            "list_nested": typing.List[Nested], "dict_nested": typing.Dict[str, Nested],
            "klist": KeyedList[KeyedNested, str], "kset": KeyedSet[KeyedNested, str],
        }


_WORLD = None


def world():
    global _WORLD
    if _WORLD is None:
        _WORLD = World()
    return _WORLD


def default_for(ty):
    return {"int": 3, "str": "d", "any": None, "list": [1], "rawlist": [], "dict": {"a": 1}, "set": {1}}.get(ty)


# every class description built in this process, in order (what a later class may be influenced by
# if the library keeps state between decorations)
BUILT = []


def slim(desc):
    return {"attrs": desc["attrs"], "cfg": desc["cfg"], "occupied": desc.get("occupied", [])}


def names_of(desc):
    c = desc["cfg"]
    return {a["name"] for a in desc["attrs"]} | set(c.get("attrs") or []) | {p[0] for p in (c.get("attrs_typed") or [])}


def build_class(desc):
    """desc -> (undecorated class, decorator kwargs)"""
    w = world()
    BUILT.append(slim(desc))
    ns, ann = {}, {}
    for a in desc["attrs"]:
        if a["ty"] != "noann":
            ann[a["name"]] = w.types[a["ty"]]
        d = a.get("decl", "none")
        if d == "value":
            ns[a["name"]] = default_for(a["ty"])
        elif d == "attr":
            ns[a["name"]] = w.Attr(default=default_for(a["ty"]), init=a.get("init", True))
        elif d == "attr_nodefault":
            ns[a["name"]] = w.Attr()
        elif d == "attr_factory":
            ns[a["name"]] = w.Attr(default_factory=list)
        elif d == "field":
            ns[a["name"]] = dataclasses.field(default=default_for(a["ty"]))
        elif d == "field_nodefault":
            ns[a["name"]] = dataclasses.field()
        elif d == "property":
            ns[a["name"]] = property(lambda self: 1)
        elif d == "method":
            ns[a["name"]] = lambda self: 1
    if ann:
        ns["__annotations__"] = ann
    for o in desc.get("occupied", []):
        ns[o["name"]] = occupant(o["name"], o["kind"])
    cls = type("K", (), ns)
    c = desc["cfg"]
    kw = {}
    for f in ("init", "repr", "eq"):
        if not c.get(f, True):
            kw[f] = False
    if not c.get("lazy", True):
        kw["bootstrap"] = True
    if c.get("key") is not None:
        kw["key"] = c["key"]
    if c.get("attrs") is not None:
        kw["attrs"] = list(c["attrs"])
    if c.get("attrs_typed") is not None:
        kw["attrs_typed"] = {n: w.types[t] for n, t in c["attrs_typed"]}
    if c.get("attrs_skip") is not None:
        kw["attrs_skip"] = list(c["attrs_skip"])
    if c.get("overflow") is not None:
        kw["init_overflow_attr"] = c["overflow"]
    return cls, kw


def occupant(name, kind):
    if kind == "function":
        if name == "__new__":
            def f(cls, *a, **k):
                return object.__new__(cls)
        else:
            def f(self, *a, **k):
                return None
        return f
    if kind == "staticmethod":
        return staticmethod(lambda *a, **k: None)
    if kind == "classmethod":
        return classmethod(lambda cls, *a, **k: None)
    if kind == "property":
        return property(lambda self: 5)
    if kind in FALSY:
        return FALSY[kind]
    return 7


def member_kind(o):
    w = world()
    if isinstance(o, types.FunctionType):
        return "KFunction"
    if isinstance(o, staticmethod):
        return "KStatic"
    if isinstance(o, classmethod):
        return "KClassm"
    if isinstance(o, property):
        return "KProperty"
    if isinstance(o, (w.Attr, dataclasses.Field)):
        return "KDecl"
    if isinstance(o, (types.GetSetDescriptorType, types.MemberDescriptorType)):
        return "KOther"
    return "KValue"


DESC_CLASSES = {
    "WithAttrMethod": ("S", "SWith"), "UpdateAttrMethod": ("S", "SUpdate"),
    "TransformAttrMethod": ("S", "STransform"), "ResetAttrMethod": ("S", "SReset"),
    "UpdateMethod": ("T", "TUpdate"), "TransformMethod": ("T", "TTransform"), "ResetMethod": ("T", "TReset"),
}
IMPL_FUNCS = {
    "with_attr": ("S", "SWith"), "update_attr": ("S", "SUpdate"), "transform_attr": ("S", "STransform"),
    "reset_attr": ("S", "SReset"), "update": ("T", "TUpdate"), "transform": ("T", "TTransform"),
    "reset": ("T", "TReset"), "init": ("C", "CInit"),
}
for _k, _ck in (("Sequence", "CSeq"), ("Mapping", "CMap"), ("Set", "CSet")):
    for _p, _e in (("With", "EWith"), ("Update", "EUpdate"), ("Transform", "ETransform"), ("Without", "EWithout")):
        DESC_CLASSES[f"{_p}{_k}ItemMethod"] = ("E", _e, _ck)
        IMPL_FUNCS[f"{_p.lower()}_{_k.lower()}_item"] = ("E", _e, _ck)
EPREFIX = {"EWith": "with_", "EUpdate": "update_", "ETransform": "transform_", "EWithout": "without_"}


def lib_str(x):
    """a name handed out by the library (item name, method name, attribute name).  Anything but a
    plain printable str is rendered as a marker no identifier can be equal to, so that the oracle
    judges it (a helper named after `False` is a wrong name, not a reason for the harness to stop)"""
    if isinstance(x, str) and x.isascii() and x.isprintable() and '"' not in x:
        return x
    r = "".join(ch if (ch.isascii() and ch.isprintable() and ch != '"') else "?" for ch in repr(x))[:60]
    return f"<{type(x).__name__}:{r}>"


def cs(s):
    return '"' + lib_str(s) + '"'


def gen_term(tag, attr, nm):
    if tag[0] == "S":
        return f"(GScalar {tag[1]} {cs(attr)})"
    if tag[0] == "T":
        return f"(GTop {tag[1]})"
    if tag[0] == "C":
        return f"(GCore {tag[1]})"
    nm = lib_str(nm)
    item = nm[len(EPREFIX[tag[1]]):] if nm.startswith(EPREFIX[tag[1]]) else "?" + nm
    return f"(GElem {tag[1]} {cs(attr)} {tag[2]} {cs(item)})"


def classify(name, obj, before, uid):
    """Coq term (oentry) for the object found under `name` in the class dictionary"""
    from spec_classes.methods import core as core_methods
    from spec_classes.methods.base import MethodDescriptor
    from spec_classes.spec_class import SpecClassMetadata, _SpecClassMetadataPlaceholder
    from spec_classes.types import MISSING
    if name in before and obj is before[name]:
        return f"U {member_kind(obj)} {uid[name]}"
    if name in before and member_kind(before[name]) == "KDecl":
        d = before[name].default
        lifted = MISSING if d is dataclasses.MISSING else d
        if obj is lifted:
            return f"L KDecl {uid[name]}"
    if name in before and isinstance(before[name], staticmethod) and obj is before[name].__func__:
        return f"W KStatic {uid[name]}"
    if name in before and isinstance(before[name], classmethod) and isinstance(obj, types.MethodType) \
            and obj.__func__ is before[name].__func__:
        return f"W KClassm {uid[name]}"
    for other, o in before.items():
        if obj is o and other != name and not isinstance(obj, (int, str, tuple, type(None))):
            return f"U {member_kind(o)} {uid[other]}"
    if isinstance(obj, MethodDescriptor):
        tag = DESC_CLASSES.get(type(obj).__name__)
        if tag is None:
            return "OOther 1"
        attr = getattr(getattr(obj, "attr_spec", None), "name", "")
        return f"G {gen_term(tag, attr, obj.name)} false"
    if isinstance(obj, (SpecClassMetadata, _SpecClassMetadataPlaceholder)):
        return "M"
    if name in ("__dataclass_fields__", "__annotations__") and isinstance(obj, dict):
        return "M"
    if isinstance(obj, types.FunctionType):
        if getattr(obj, "__spec_classes_new_wrapper__", False):
            return "G GNewHook true"
        q = obj.__qualname__
        if q.endswith("__new__.<locals>.__new__"):
            return "G GNewPlain true"
        if obj is core_methods.EqMethod.eq:
            return "G (GCore CEq) true"
        if obj is core_methods.ReprMethod.repr:
            return "G (GCore CRepr) true"
        if obj is core_methods.DeepCopyMethod.deepcopy:
            return "G (GCore CDeepCopy) true"
        for cn, cc in (("GetAttrMethod", "CGetAttr"), ("SetAttrMethod", "CSetAttr"), ("DelAttrMethod", "CDelAttr")):
            if q.startswith(cn + ".build_method"):
                return f"G (GCore {cc}) true"
        impl = obj.__globals__.get("implementation")
        if impl is not None and "validate_attrs" in obj.__globals__:
            f = getattr(impl, "func", impl)
            tag = IMPL_FUNCS.get(getattr(f, "__name__", ""))
            if tag is not None:
                args = getattr(impl, "args", ())
                attr = getattr(args[0], "name", "") if args and tag[0] in "SE" else ""
                return f"G {gen_term(tag, attr, obj.__name__)} true"
        return "OOther 2"
    return "OOther 3"


def aty_of(ty):
    return f"(TColl {COLL[ty]})" if ty in COLL else "TScalar"


_SPEC_ENGINE = None


def spec_singular(n):
    """the specification's singular function: inflect asked directly, with an engine of the harness's
    own (same defaults as the library's), so the answer for a name never depends on which classes
    were decorated before"""
    global _SPEC_ENGINE
    if _SPEC_ENGINE is None:
        import inflect
        _SPEC_ENGINE = inflect.engine()
    try:
        r = _SPEC_ENGINE.singular_noun(n)
    except BaseException:
        r = False
    return r if isinstance(r, str) and r else None


def spec_item(a):
    """documented element-helper stem of a collection attribute when nothing collides"""
    s_ = spec_singular(a)
    return s_ if (s_ and s_ != a) else a + "_item"


def run_other(e):
    """decorate (own decorator object), bootstrap and, if asked, instantiate + use another class"""
    w = world()
    try:
        c, kw = build_class(e)
        c = w.spec_class(**kw)(c)
        c.__spec_class__
        if e.get("use"):
            try:
                c()
            except BaseException as ex:
                if isinstance(ex, (KeyboardInterrupt, SystemExit)):
                    raise
            for n in list(c.__dict__):
                try:
                    getattr(c, n)
                except BaseException as ex:
                    if isinstance(ex, (KeyboardInterrupt, SystemExit)):
                        raise
        return c
    except BaseException as ex:
        if isinstance(ex, (KeyboardInterrupt, SystemExit)):
            raise
        return None


def observe(desc):
    """run the implementation on a class description; returns the observation dict"""
    w = world()
    names = {a["name"] for a in desc["attrs"]} | set(desc["cfg"].get("attrs") or []) | \
        {n for n, _ in (desc["cfg"].get("attrs_typed") or [])}
    for x in (desc["cfg"].get("key"), desc["cfg"].get("overflow")):
        if x:
            names.add(x)
    sing = {}
    for n in sorted(names):
        sing[n] = spec_singular(n)
    hist_pos = len(BUILT)
    # classes decorated earlier in the same process, each with its own decorator object: the
    # specification (and the model) decorate `cls` alone, whatever happened before
    for e in desc.get("earlier") or []:
        run_other(e)
    cls, kw = build_class(desc)
    before = dict(cls.__dict__)
    uid = {n: i + 1 for i, n in enumerate(before)}
    body = [(n, member_kind(o), uid[n]) for n, o in before.items()]
    obs = {"sing": sing, "body": body, "outcome": 0, "after": [], "used": [], "attrs": [], "annots": [],
           "inst": False, "uses": [], "hist_pos": hist_pos}
    try:
        deco = w.spec_class(**kw)
        if desc.get("prior"):
            # one configured decorator object applied to an earlier class first: what it learnt
            # there must not leak into this class (the model decorates `cls` alone)
            prior_cls, _ = build_class(dict(desc["prior"], cfg=desc["cfg"], occupied=[]))
            deco(prior_cls)
            prior_cls.__spec_class__
        deco(cls)
        cls.__spec_class__  # triggers the lazy bootstrap
        cls.__dict__["__spec_class__"].attrs
    except BaseException as e:
        if isinstance(e, (KeyboardInterrupt, SystemExit)):
            raise
        obs["outcome"] = ERR_CODES.get(outcome_class(e), -8)
        obs["error"] = f"{type(e).__name__}: {e}"[:200]
        # what the class dictionary looks like after the failed decoration (no user code may be gone)
        obs["after"] = [(n, classify(n, o, before, uid)) for n, o in dict(cls.__dict__).items()]
        return obs
    # classes decorated after this one (before it is first instantiated / used) must not change it either
    for e in desc.get("later") or []:
        run_other(e)
    snap = dict(cls.__dict__)
    obs["after"] = [(n, classify(n, o, before, uid)) for n, o in snap.items()]
    if desc.get("inst", True):
        obs["inst"] = True
        try:
            cls()
        except BaseException as e:
            if isinstance(e, (KeyboardInterrupt, SystemExit)):
                raise
    meta = cls.__dict__["__spec_class__"]
    for a, s in meta.attrs.items():
        kind = s.collection_mutator_type.__name__ if s.is_collection else None
        ck = {"SequenceMutator": "CSeq", "MappingMutator": "CMap", "SetMutator": "CSet", None: None}[kind]
        obs["attrs"].append((a, ck, s.item_name if s.is_collection else None, s.helper_methods is not None))
    obs["annots"] = list(cls.__dict__.get("__annotations__", {}))
    uses = list(snap)
    obs["uses"] = uses
    for n in uses:
        try:
            getattr(cls, n)
        except BaseException as e:
            if isinstance(e, (KeyboardInterrupt, SystemExit)):
                raise
    obs["used"] = [(n, classify(n, o, before, uid)) for n, o in cls.__dict__.items()]
    return obs


# ------------------------------------------------------------------ Coq side
def c_case(desc, obs):
    c = desc["cfg"]
    cfg = "(mkcfg %s %s %s %s %s %s %s %s %s)" % (
        copt(c.get("key"), cs), cbool(c.get("init", True)), cbool(c.get("repr", True)), cbool(c.get("eq", True)),
        cbool(c.get("lazy", True)),
        copt(c.get("attrs"), lambda l: clist(l, cs)),
        copt(c.get("attrs_typed"), lambda l: clist(l, lambda p: f"({cs(p[0])}, {'None' if p[1] == 'any' else '(Some ' + aty_of(p[1]) + ')'})")),
        copt(c.get("attrs_skip"), lambda l: clist(l, cs)),
        copt(c.get("overflow"), cs))
    body = clist(obs["body"], lambda b: f"({cs(b[0])}, B {b[1]} {b[2]})")
    annots = clist([a for a in desc["attrs"] if a["ty"] != "noann"], lambda a: f"({cs(a['name'])}, {aty_of(a['ty'])})")
    sing = clist(sorted(obs["sing"].items()), lambda p: f"({cs(p[0])}, {copt(p[1], cs)})")
    ents = lambda l: clist(l, lambda p: f"({cs(p[0])}, {p[1]})")

    def aspec(t):
        a, ck, item, helpers = t
        # non-collections: the model stores the singular form it computed; it is not observable
        # (item_name is never used for them), so the harness recomputes it the documented way
        if ck is None:
            s = obs["sing"].get(a)
            item = s if (s and s != a) else a + "_item"
        return f"({cs(a)}, A {'(TColl ' + ck + ')' if ck else 'TScalar'} {cs(item)} {cbool(helpers)})"
    return (f"mkcase {cfg} (mkcls {body} {annots}) {sing} {cbool(obs['inst'])} {clist(obs['uses'], cs)} "
            f"{cz(obs['outcome'])} {ents(obs['after'])} {ents(obs['used'])} {clist(obs['attrs'], aspec)} "
            f"{clist(obs['annots'], cs)}")


# ------------------------------------------------------------------ generation
WORDS = ["x", "y", "items", "item", "values", "value", "foxes", "indices", "data", "children", "child",
         "people", "names", "name", "cfg", "boxes", "xs", "entries", "entry", "series", "sheep", "foo",
         "foo_items", "foo_item", "values_item", "values_items", "status", "agenda", "agendums", "algae", "algas"]
PRIVATE = ["_p", "_hidden", "__q"]


def collision_words():
    """words whose singular forms coincide, searched in inflect's own tables with the real engine"""
    import inflect
    from spec_classes.utils.naming import INFLECT_ENGINE as E
    words = set()

    def walk(o, depth=0):
        if isinstance(o, str):
            for w in o.replace("|", " ").replace("(?:", " ").replace(")", " ").replace("(", " ").split():
                if w.isidentifier() and w.islower() and len(w) > 2:
                    words.add(w)
        elif isinstance(o, (list, tuple, set, frozenset)) and depth < 3:
            for x in o:
                walk(x, depth + 1)
        elif isinstance(o, dict) and depth < 3:
            for k, v in o.items():
                walk(k, depth + 1)
                walk(v, depth + 1)
    for n in sorted(dir(inflect)):
        if not n.startswith("__"):
            walk(getattr(inflect, n))
    classical = inflect.engine()
    classical.classical(all=True)
    allw = set(words)
    for w in sorted(words):
        for eng in (E, classical):
            try:
                p = eng.plural_noun(w)
                if p and p.isidentifier() and p.islower():
                    allw.add(p)
            except BaseException:
                pass
        for suf in ("s", "es", "a", "i", "ae"):
            allw.add(w + suf)
            if w.endswith(("um", "us", "on", "is")):
                allw.add(w[:-2] + suf)
    sing = {}
    for w in sorted(allw):
        if keyword.iskeyword(w) or not w.isidentifier():
            continue
        try:
            r = E.singular_noun(w)
        except BaseException:
            continue
        if r and r != w and r.isidentifier():
            sing.setdefault(r, []).append(w)
    same = [(a, b) for s, ws in sorted(sing.items()) for i, a in enumerate(ws) for b in ws[i + 1:]]
    withname = [(w, s) for s, ws in sorted(sing.items()) for w in ws]
    return same, withname


def base_cfg(**kw):
    c = {"key": None, "init": True, "repr": True, "eq": True, "lazy": True, "attrs": None,
         "attrs_typed": None, "attrs_skip": None, "overflow": None}
    c.update(kw)
    return c


def random_desc(rng, nmax=5):
    n = rng.randint(0, nmax)
    names = rng.sample(WORDS, n)
    attrs = []
    for nm in names:
        ty = rng.choice(ALL_TYS)
        decl = rng.choice(["none", "none", "value", "attr", "attr_factory", "field", "property", "attr_nodefault"])
        if decl in ("value", "attr", "field") and default_for(ty) is None and ty != "any":
            decl = "none"
        if decl == "attr_factory" and ty not in ("list", "rawlist", "any"):
            decl = "none"
        attrs.append({"name": nm, "ty": ty, "decl": decl})
    if rng.random() < 0.4:
        attrs.insert(rng.randint(0, len(attrs)), {"name": rng.choice(PRIVATE), "ty": rng.choice(["int", "list"]),
                                                   "decl": rng.choice(["none", "value", "attr"])})
    c = base_cfg(init=rng.random() < 0.8, repr=rng.random() < 0.8, eq=rng.random() < 0.8, lazy=rng.random() < 0.5)
    pool = names + rng.sample(WORDS, 2)
    r = rng.random()
    if r < 0.25:
        c["attrs"] = rng.sample(pool, rng.randint(0, min(3, len(pool))))
    elif r < 0.45:
        c["attrs_typed"] = [(nm, rng.choice(ALL_TYS)) for nm in rng.sample(pool, rng.randint(0, min(3, len(pool))))]
    elif r < 0.55:
        c["attrs"] = rng.sample(pool, rng.randint(0, 2))
        c["attrs_typed"] = [(nm, rng.choice(ALL_TYS)) for nm in rng.sample(pool, rng.randint(0, 2))]
    if rng.random() < 0.3:
        c["attrs_skip"] = rng.sample(pool, rng.randint(0, min(2, len(pool))))
    if rng.random() < 0.08:
        c["attrs"] = (c["attrs"] or []) + [rng.choice(PRIVATE)]
    if rng.random() < 0.3:
        c["key"] = rng.choice(pool + PRIVATE[:1])
    if rng.random() < 0.2:
        c["overflow"] = rng.choice(["extra", "options", "_extras"] + pool[:1])
    for a in attrs:  # unannotated attributes reachable through attrs only
        if rng.random() < 0.1 and a["name"] in (c["attrs"] or []):
            a["ty"] = "noann"
    return {"attrs": attrs, "cfg": c, "occupied": [], "inst": rng.random() < 0.7}


FIXED = [
    {"attrs": [{"name": "x", "ty": "int", "decl": "value"}, {"name": "ys", "ty": "list", "decl": "attr_factory"},
               {"name": "z", "ty": "str", "decl": "field"}, {"name": "_p", "ty": "int", "decl": "value"}],
     "cfg": base_cfg()},
    {"attrs": [{"name": "n", "ty": "nested", "decl": "none"}, {"name": "children", "ty": "list_nested", "decl": "none"},
               {"name": "lookup", "ty": "dict_nested", "decl": "none"}, {"name": "tags", "ty": "set", "decl": "none"}],
     "cfg": base_cfg(lazy=False)},
    {"attrs": [{"name": "k", "ty": "str", "decl": "none"}, {"name": "members", "ty": "klist", "decl": "none"},
               {"name": "peers", "ty": "kset", "decl": "none"}],
     "cfg": base_cfg(key="k", init=False, eq=False)},
    {"attrs": [{"name": "item", "ty": "int", "decl": "none"}, {"name": "items", "ty": "list", "decl": "none"}],
     "cfg": base_cfg(repr=False)},
    {"attrs": [{"name": "a", "ty": "int", "decl": "none"}, {"name": "bs", "ty": "dict", "decl": "none"},
               {"name": "c", "ty": "noann", "decl": "value"}],
     "cfg": base_cfg(attrs=["c"], attrs_typed=[("ds", "list")], attrs_skip=["a"], overflow="extra")},
]


FIXED.append({"attrs": [{"name": "a", "ty": "int", "decl": "none"}, {"name": "bs", "ty": "list", "decl": "none"},
                        {"name": "c", "ty": "noann", "decl": "value"}],
              "cfg": base_cfg(attrs=["c"], attrs_skip=[])})
FIXED.append({"attrs": [{"name": "a", "ty": "int", "decl": "none"}, {"name": "ms", "ty": "dict", "decl": "none"}],
              "cfg": base_cfg(attrs_typed=[("ds", "list")], attrs_skip=[], lazy=False)})


# a private overflow attribute is a private name in the decorator's attribute table: must be refused
FIXED.append({"attrs": [{"name": "a", "ty": "int", "decl": "none"}], "cfg": base_cfg(overflow="_extras")})
FIXED.append({"attrs": [{"name": "a", "ty": "int", "decl": "none"}], "cfg": base_cfg(overflow="_extras", attrs=["a"], lazy=False)})


def expected_generated(desc):
    """names that decoration adds to this class (from the implementation itself)"""
    cls, kw = build_class(desc)
    before = set(cls.__dict__)
    try:
        world().spec_class(**kw)(cls)
        cls.__spec_class__
    except BaseException:
        return []
    return [n for n in cls.__dict__ if n not in before and n not in ("__spec_class__", "__dataclass_fields__", "__annotations__")]


def variants(desc, rng, per_name=None, falsy=None):
    """the class with each generated name occupied in its own body: `per_name` of the four
    callable/truthy kinds (None: all four) and `falsy` of the five falsy plain values (None: all five).
    __new__ included (the lazy hook must hand back whatever the body bound, falsy or not)."""
    out = []
    for n in expected_generated(desc) + ["__new__"]:
        kinds = KINDS if per_name is None else rng.sample(KINDS, per_name)
        if n == "__new__":
            kinds = ["function"] if per_name is not None else ["function", "staticmethod", "classmethod", "property", "value"]
        kinds = kinds + (list(FALSY) if falsy is None else rng.sample(list(FALSY), falsy))
        for kd in kinds:
            d = json.loads(json.dumps(desc))
            d["occupied"] = [{"name": n, "kind": kd}]
            d["inst"] = True
            out.append((d, "occupied"))
    return out


# Several independently decorated classes in one process using the SAME attribute names.  The
# library keeps process-wide tables keyed by attribute name (the singular-form cache), so what it
# does for the second class must be observed, not inferred from the first.  Names: without a
# singular form (inflect answers False: `info`, `config`, ...), equal to their singular form
# (`sheep`, `series`, `news`: the `<attr>_item` fallback as well) and ordinary plurals.
SEQ_WORDS = ["info", "config", "mapping", "x", "y", "sheep", "series", "news", "cfg", "status", "payload", "schema",
             "cache", "meta", "extra", "memo", "queue", "index", "registry", "lookup", "equipment", "child", "entry",
             "value", "tags", "values", "boxes", "options", "params", "data", "kwargs", "metadata", "indices"]
SEQ_FIXED = [
    [{"attrs": [{"name": "info", "ty": "list", "decl": "none"}, {"name": "config", "ty": "dict", "decl": "none"},
                {"name": "tags", "ty": "list", "decl": "none"}, {"name": "level", "ty": "int", "decl": "value"}],
      "cfg": {"lazy": False}}] * 2,
    [{"attrs": [{"name": "sheep", "ty": "set", "decl": "none"}, {"name": "x", "ty": "list", "decl": "value"}], "cfg": {}},
     {"attrs": [{"name": "x", "ty": "dict", "decl": "none"}, {"name": "sheep", "ty": "list", "decl": "attr_factory"}],
      "cfg": {"lazy": False}}],
    # the name is a scalar in the first class and a collection in the second
    [{"attrs": [{"name": "mapping", "ty": "int", "decl": "none"}], "cfg": {}},
     {"attrs": [{"name": "mapping", "ty": "dict", "decl": "none"}], "cfg": {}}],
    # second class names the attribute through attrs_typed only
    [{"attrs": [{"name": "info", "ty": "list", "decl": "none"}], "cfg": {}},
     {"attrs": [], "cfg": {"attrs_typed": [("info", "set")]}}],
]


def no_singular(word):
    r = spec_singular(word)
    return r is None or r == word


def sequence_cases(rng, quick):
    """chains of 2-3 classes sharing collection attribute names; each class but the first is a case
    with the classes before it as `earlier`, and the first one a case with the others as `later`"""
    nos = [w for w in SEQ_WORDS if no_singular(w)]
    sing = [w for w in SEQ_WORDS if not no_singular(w)]
    ctys = ["list", "dict", "set", "rawlist", "list_nested", "klist"]
    chains = []
    for ch in SEQ_FIXED:
        chains.append([{"attrs": json.loads(json.dumps(c["attrs"])), "cfg": base_cfg(**c["cfg"])} for c in ch])
    for _ in range(22 if quick else 220):
        shared = rng.sample(nos, rng.choice([1, 1, 2])) + rng.sample(sing, rng.choice([0, 1]))
        chain = []
        for j in range(rng.choice([2, 2, 3])):
            attrs = []
            for k, nm in enumerate(shared):
                ty = rng.choice(ctys) if (k == 0 or rng.random() < 0.8) else rng.choice(SCALAR_TYS)
                decl = rng.choice(["none", "none", "value", "attr_factory"])
                if decl == "value" and default_for(ty) is None:
                    decl = "none"
                if decl == "attr_factory" and ty not in ("list", "rawlist"):
                    decl = "none"
                attrs.append({"name": nm, "ty": ty, "decl": decl})
            for nm in rng.sample([w for w in WORDS if w not in shared], rng.randint(0, 2)):
                attrs.append({"name": nm, "ty": rng.choice(ALL_TYS), "decl": "none"})
            rng.shuffle(attrs)
            c = base_cfg(lazy=rng.random() < 0.5)
            if rng.random() < 0.2:    # the shared names come through attrs_typed instead of annotations
                c["attrs_typed"] = [(a["name"], a["ty"]) for a in attrs if a["name"] in shared]
                attrs = [a for a in attrs if a["name"] not in shared]
            chain.append({"attrs": attrs, "cfg": c})
        chains.append(chain)
    out = []
    for chain in chains:
        for j in range(1, len(chain)):
            d = dict(json.loads(json.dumps(chain[j])), occupied=[], inst=True,
                     earlier=[dict(json.loads(json.dumps(e)), occupied=[], use=rng.random() < 0.5) for e in chain[:j]])
            out.append((d, "sequence"))
        d = dict(json.loads(json.dumps(chain[0])), occupied=[], inst=True,
                 later=[dict(json.loads(json.dumps(e)), occupied=[], use=rng.random() < 0.5) for e in chain[1:]])
        out.append((d, "sequence_later"))
    return out, {"sequence_chains": len(chains), "sequence_words_without_singular": len(nos)}


def generate(rng, tier):
    quick = tier == "quick"
    cases = []
    for j, d in enumerate(FIXED):
        d = dict(d, occupied=[], inst=True)
        cases.append((d, "fixed"))
        # every generated name (scalar, element, top-level, dunder) x 4 kinds x falsy plain values
        # (all five for the first fixed class in quick, for every fixed class in thorough)
        cases += variants(d, rng, falsy=None if (j == 0 or not quick) else 1)
    # random classes; every generated name occupied in 1 (quick) / all 4 (thorough) ways
    for i in range(40 if quick else 400):
        d = random_desc(rng)
        cases.append((d, "random"))
        if i < (12 if quick else 120):
            cases += variants(d, rng, per_name=1 if quick else None,
                              falsy=(1 if i < 6 else 0) if quick else 2)
    # one decorator object applied to two classes (the second one is the case)
    for i in range(30 if quick else 300):
        d = random_desc(rng, 4)
        p_ = random_desc(rng, 4)
        names_ = {a["name"] for a in d["attrs"]}
        p_["attrs"] = [a for a in p_["attrs"] if a["name"] not in names_ and not a["name"].startswith("_")
                       and a.get("decl", "none") in ("none", "value")]
        if not p_["attrs"]:
            p_["attrs"] = [{"name": "earlier", "ty": "list", "decl": "none"}]
        if i % 3 == 0:
            d["cfg"]["attrs_skip"] = []   # explicitly empty
        d["prior"] = {"attrs": p_["attrs"]}
        cases.append((d, "shared_decorator"))
    # occupied pairs
    for i in range(20 if quick else 200):
        d = random_desc(rng, 3)
        g = expected_generated(d)
        if len(g) >= 2:
            d["occupied"] = [{"name": n, "kind": rng.choice(KINDS + ["classmethod"] + list(FALSY))} for n in rng.sample(g, 2)]
            cases.append((d, "occupied2"))
    # singular / plural collisions found with the real inflect
    same, withname = collision_words()
    rng.shuffle(same)
    rng.shuffle(withname)
    ctys = ["list", "dict", "set", "list_nested", "klist"]
    for a, b in same[: 60 if quick else len(same)]:
        d = {"attrs": [{"name": a, "ty": rng.choice(ctys), "decl": "none"},
                       {"name": b, "ty": rng.choice(ctys), "decl": "none"}],
             "cfg": base_cfg(lazy=rng.random() < 0.5), "occupied": [], "inst": True}
        r = rng.random()
        if r < 0.25:    # the fallback of the second is taken as well
            d["attrs"].append({"name": b + "_item", "ty": rng.choice(["int", "list"]), "decl": "none"})
        elif r < 0.4:   # a third collection whose singular is the second's fallback
            d["attrs"].append({"name": b + "_items", "ty": "list", "decl": "none"})
        elif r < 0.5:
            d["attrs"].reverse()
        cases.append((d, "collision"))
    for wd, s in withname[: 40 if quick else 600]:
        d = {"attrs": [{"name": s, "ty": rng.choice(["int", "list"]), "decl": "none"},
                       {"name": wd, "ty": rng.choice(ctys), "decl": "none"}],
             "cfg": base_cfg(lazy=rng.random() < 0.5), "occupied": [], "inst": True}
        if rng.random() < 0.3:
            d["attrs"].append({"name": wd + "_item", "ty": "int", "decl": "none"})
        if rng.random() < 0.3:
            d["attrs"].reverse()
        cases.append((d, "collision"))
    seq, seqfound = sequence_cases(rng, quick)
    cases += seq
    return cases, {"same_singular_pairs_found": len(same), "plural_singular_pairs_found": len(withname), **seqfound}


# ------------------------------------------------------------------ hierarchies: first use through a subclass / super()
# Implementation-only probe (the Coq model has one class): the oracle is evaluated here, in Python,
# on object identities.  Oracle: every member a class of the hierarchy defines in its own body is the
# same object before and after any sequence of first uses (through the subclass, through an instance
# of the subclass, through super(), through the parent), no name appears in a plain subclass's
# dictionary, and the parent's own dictionary ends up holding the generated function.
HIER_OCC = ["super_function", "function", "staticmethod", "value"]
HIER_ACCESS = ["subclass", "instance", "super", "parent_last"]


def hier_occupant(kind, name, holder):
    if kind == "super_function":
        def f(self, *a, **k):
            return getattr(super(holder[0], self), name)(*a, **k)
        return f
    if kind == "function":
        return lambda self, *a, **k: None
    if kind == "staticmethod":
        return staticmethod(lambda *a, **k: None)
    return 7


def hier_run(case):
    """case: {"desc": parent description, "name": generated name, "sub": plain|spec, "occ": kind, "access": mode}
    returns a list of oracle failures (empty: fine)"""
    from spec_classes.methods.base import MethodDescriptor
    w = world()
    desc = case["desc"]
    P, kw = build_class(desc)
    P = w.spec_class(**kw)(P)
    P.__spec_class__  # bootstrap the parent
    name = case["name"]
    if name not in P.__dict__:
        return ["parent does not generate " + name]
    holder = []
    S = type("S", (P,), {name: hier_occupant(case["occ"], name, holder), "own_member": lambda self: 1})
    holder.append(S)
    if case["sub"] == "spec":
        S = w.spec_class(bootstrap=True)(S)
        holder[0] = S
    before_S = dict(S.__dict__)
    user_P = {n: o for n, o in P.__dict__.items() if not isinstance(o, MethodDescriptor)}
    try:
        inst = S()
    except BaseException as e:
        if isinstance(e, (KeyboardInterrupt, SystemExit)):
            raise
        inst = None

    def touch(obj, n, call=False):
        try:
            v = getattr(obj, n)
            if call and callable(v):
                v()
        except BaseException as e:
            if isinstance(e, (KeyboardInterrupt, SystemExit)):
                raise
    mode = case["access"]
    if mode == "subclass":
        touch(S, name)
    elif mode == "instance" and inst is not None:
        touch(inst, name)
    elif mode == "super" and inst is not None:
        touch(inst, name, call=True)
        try:
            getattr(super(S, inst), name)
        except BaseException as e:
            if isinstance(e, (KeyboardInterrupt, SystemExit)):
                raise
    # then every name of the parent: through the subclass, its instance, and finally the parent
    for n in list(P.__dict__):
        if n.startswith("__"):
            continue
        touch(S, n)
        if inst is not None:
            touch(inst, n)
            try:
                getattr(super(S, inst), n)
            except BaseException as e:
                if isinstance(e, (KeyboardInterrupt, SystemExit)):
                    raise
    for n in list(P.__dict__):
        if not n.startswith("__"):
            touch(P, n)
    fails = []
    for n, o in before_S.items():
        if n in ("__new__",) or n.startswith("__spec_class") or n == "__dataclass_fields__":
            continue
        now = S.__dict__.get(n, "<gone>")
        if now is not o and not isinstance(o, MethodDescriptor):
            fails.append(f"S.__dict__[{n!r}] was {type(o).__name__}, is now {type(now).__name__ if now != '<gone>' else 'gone'}")
    extra = [n for n in S.__dict__ if n not in before_S]
    if extra:
        fails.append(f"names appeared in the subclass dictionary: {sorted(extra)}")
    for n, o in user_P.items():
        if n.startswith("__"):
            continue
        if P.__dict__.get(n) is not o:
            fails.append(f"P.__dict__[{n!r}] changed")
    for n, o in P.__dict__.items():
        if isinstance(o, MethodDescriptor):
            fails.append(f"P.__dict__[{n!r}] is still a descriptor after its first use")
    return fails


# a spec subclass adding an attribute whose name is the singular form of an inherited collection:
# the parent (helpers, item names, dictionary) must be untouched, the subclass gets the element
# helpers under the fallback name and the scalar helpers under the plain name (oracle in Python)
COLL_PAIRS = [("foos", "foo"), ("values", "value"), ("boxes", "box"), ("entries", "entry")]


def hier_collision_run(case):
    import typing as _t
    from spec_classes.methods.base import MethodDescriptor
    w = world()
    plural, singular = case["plural"], case["singular"]
    T = {"list": _t.List[int], "dict": _t.Dict[str, int], "set": _t.Set[int]}[case["ty"]]
    P = w.spec_class(bootstrap=not case["lazy"])(type("P", (), {"__annotations__": {plural: T, "other": int}, "other": 1}))
    P.__spec_class__
    if case["use_parent_first"]:
        for n in list(P.__dict__):
            if not n.startswith("__"):
                getattr(P, n)
    names_before = set(P.__dict__)
    item_before = P.__spec_class__.attrs[plural].item_name
    spec_before = P.__spec_class__.attrs[plural]
    fails = []
    try:
        S = w.spec_class(bootstrap=not case["lazy"])(type("S", (P,), {"__annotations__": {singular: int}, singular: 5}))
        S.__spec_class__
        s_inst = S()
    except BaseException as e:
        if isinstance(e, (KeyboardInterrupt, SystemExit)):
            raise
        return [f"subclass cannot be decorated/instantiated: {type(e).__name__}: {e}"[:200]]
    for K in (S, P):
        for n in list(K.__dict__):
            if not n.startswith("__"):
                try:
                    getattr(K, n)
                    getattr(K(), n)
                except BaseException as e:
                    if isinstance(e, (KeyboardInterrupt, SystemExit)):
                        raise
    if set(P.__dict__) != names_before:
        fails.append(f"parent dictionary changed: +{sorted(set(P.__dict__) - names_before)} -{sorted(names_before - set(P.__dict__))}")
    if P.__spec_class__.attrs[plural] is not spec_before or P.__spec_class__.attrs[plural].item_name != item_before:
        fails.append(f"parent's item name for {plural} is now {P.__spec_class__.attrs[plural].item_name!r} (was {item_before!r})")
    for n, o in P.__dict__.items():
        if isinstance(o, MethodDescriptor):
            fails.append(f"P.__dict__[{n!r}] is still a descriptor")
        elif not n.startswith("__") and callable(o) and getattr(o, "__name__", n) != n:
            fails.append(f"P.__dict__[{n!r}] holds a function named {o.__name__!r}")
    want = [f"{p}_{plural}_item" for p in ("with", "update", "transform", "without")] + \
           [f"{p}_{singular}" for p in ("with", "update", "transform", "reset")]
    missing = [n for n in want if n not in S.__dict__]
    if missing:
        fails.append(f"subclass lacks its own helpers {missing}")
    elem = {"list": 3, "dict": ("k", 3), "set": 3}[case["ty"]]
    try:
        args = elem if isinstance(elem, tuple) else (elem,)
        r1 = getattr(s_inst, f"with_{plural}_item")(*args)
        r2 = s_inst.__class__().__getattribute__(f"with_{singular}")(9)
        r3 = getattr(P(), f"with_{item_before}")(*args)
        ok = (len(getattr(r1, plural)) == 1 and getattr(r2, singular) == 9 and len(getattr(r3, plural)) == 1)
        if not ok:
            fails.append("helpers do not do what their names say")
    except BaseException as e:
        if isinstance(e, (KeyboardInterrupt, SystemExit)):
            raise
        fails.append(f"helper call failed: {type(e).__name__}: {e}"[:200])
    return fails


# a spec subclass RE-DECLARING an inherited collection attribute (new default / new type => a new
# Attr, new helpers on the subclass), optionally next to a sibling class using the same name.
# Implementation-only probe, oracle in Python = the property statement: the subclass's dictionary
# gains exactly update/transform/reset, with_/update_/transform_/reset_<a> for the attributes it
# declares and with_/update_/transform_/without_<item> for those of list/dict/set type, <item> the
# singular form (spec_singular, asked per class) or <a>_item; each name holds the helper of that
# attribute; the parent's dictionary and item names are untouched; the element helpers work.
RD_TYPES = {"list": "List[int]", "dict": "Dict[str, int]", "set": "Set[int]"}
RD_DEFAULT = {"list": "[7]", "dict": "{'k': 7}", "set": "{7}"}


def helper_info(obj):
    """(group, kind, attribute name, method name) of a generated helper, else None"""
    from spec_classes.methods.base import MethodDescriptor
    if isinstance(obj, MethodDescriptor):
        tag = DESC_CLASSES.get(type(obj).__name__)
        if tag is None:
            return None
        return (tag[0], tag[1], lib_str(getattr(getattr(obj, "attr_spec", None), "name", "")), lib_str(obj.name))
    if isinstance(obj, types.FunctionType):
        impl = obj.__globals__.get("implementation")
        if impl is not None and "validate_attrs" in obj.__globals__:
            f = getattr(impl, "func", impl)
            tag = IMPL_FUNCS.get(getattr(f, "__name__", ""))
            if tag is not None and tag[0] in "SET":
                args = getattr(impl, "args", ())
                attr = getattr(args[0], "name", "") if args and tag[0] in "SE" else ""
                return (tag[0], tag[1], lib_str(attr), obj.__name__)
    return None


def redeclare_source(case):
    imp = "from typing import Dict, List, Set\nfrom spec_classes import spec_class\n\n"

    def deco(lazy):
        return "@spec_class" if lazy else "@spec_class(bootstrap=True)"
    a = case["attr"]
    src = imp + f"{deco(case['lazy_p'])}\nclass P:\n    {a}: {RD_TYPES[case['ty']]}\n    level: int = 0\n\n"
    if case.get("sibling"):
        src += f"{deco(case['lazy_s'])}\nclass Q:\n    {a}: {RD_TYPES[case['ty2']]}\n\n"
    src += f"{deco(case['lazy_s'])}\nclass S(P):\n    {a}: {RD_TYPES[case['ty2']]}" + \
        (f" = {RD_DEFAULT[case['ty2']]}" if case["default"] else "") + "\n"
    if case.get("extra"):
        src += f"    {case['extra']}: {RD_TYPES[case['ty']]}\n"
    return src


def redeclare_run(case):
    """-> {"fails": [...], "observed": {...}, "expected": {...}}"""
    a, extra = case["attr"], case.get("extra")
    ns = {}
    exec(compile(redeclare_source(case), "<c16-redeclare>", "exec"), ns)
    P, S, Q = ns["P"], ns["S"], ns.get("Q")
    fails = []
    try:
        P.__spec_class__
        if case["use_parent_first"]:
            P()
            for n in list(P.__dict__):
                if not n.startswith("__"):
                    getattr(P, n)
        p_names = sorted(n for n in P.__dict__ if not n.startswith("__"))
        p_item = P.__spec_class__.attrs[a].item_name
        classes = [("S", S, [a] + ([extra] if extra else []))] + ([("Q", Q, [a])] if Q is not None else [])
        for _, K, _ in classes[::-1]:
            K.__spec_class__
    except BaseException as e:
        if isinstance(e, (KeyboardInterrupt, SystemExit)):
            raise
        return {"fails": [f"decoration raised {type(e).__name__}: {e}"[:200]], "observed": {}, "expected": {}}
    observed, expected = {}, {}
    skipn = {a, "level", extra}
    p_names = [n for n in p_names if n not in skipn]
    p_exp = sorted({"update", "transform", "reset"} | {f"{p}_{x}" for x in (a, "level") for p in ("with", "update", "transform", "reset")}
                   | {f"{p}_{spec_item(a)}" for p in ("with", "update", "transform", "without")})
    observed["P"], expected["P"] = p_names, p_exp
    if p_names != p_exp:
        fails.append(f"P: names only observed {sorted(set(p_names) - set(p_exp))}, only documented {sorted(set(p_exp) - set(p_names))}")
    for label, K, own in classes:
        want = {"update": ("T", "TUpdate", ""), "transform": ("T", "TTransform", ""), "reset": ("T", "TReset", "")}
        for x in own:
            for pfx, kd in (("with", "SWith"), ("update", "SUpdate"), ("transform", "STransform"), ("reset", "SReset")):
                want[f"{pfx}_{x}"] = ("S", kd, x)
            for pfx, kd in (("with", "EWith"), ("update", "EUpdate"), ("transform", "ETransform"), ("without", "EWithout")):
                want[f"{pfx}_{spec_item(x)}"] = ("E", kd, x)
        got = {n: helper_info(o) for n, o in K.__dict__.items() if not n.startswith("__") and n not in own}
        observed[label], expected[label] = sorted(got), sorted(want)
        if sorted(got) != sorted(want):
            fails.append(f"{label}: helper names only observed {sorted(set(got) - set(want))}, only documented {sorted(set(want) - set(got))}")
        for n, w_ in want.items():
            g = got.get(n)
            if n in got and (g is None or g[:3] != w_):
                fails.append(f"{label}.{n} holds {g}, documented: helper {w_[1]} of {w_[2]!r}")
        for x in own:
            it = K.__spec_class__.attrs[x].item_name
            if it != spec_item(x):
                fails.append(f"{label}.__spec_class__.attrs[{x!r}].item_name is {it!r}, documented {spec_item(x)!r}")
    p_now = sorted(n for n in P.__dict__ if not n.startswith("__") and n not in skipn)
    if P.__spec_class__.attrs[a].item_name != p_item or p_now != p_names:
        fails.append(f"the parent changed: item name {p_item!r} -> {P.__spec_class__.attrs[a].item_name!r}, names {p_names} -> {p_now}")
    # the documented names do what they say (on the subclass: its own re-declared attribute)
    elem = {"list": (3,), "dict": ("z", 3), "set": (3,)}
    try:
        for label, K, own in classes:
            inst = K(**{x: {"list": [], "dict": {}, "set": set()}[case["ty2"] if x == a else case["ty"]] for x in own})
            for x in own:
                t = case["ty2"] if x == a else case["ty"]
                r = getattr(inst, f"with_{spec_item(x)}")(*elem[t])
                if len(getattr(r, x)) != 1 or len(getattr(inst, x)) != 0:
                    fails.append(f"{label}().with_{spec_item(x)}{elem[t]} gave {getattr(r, x)!r}")
                r2 = getattr(r, f"without_{spec_item(x)}")(*((0,) if t == "list" else (elem[t][0],)), **({"_by_index": True} if t == "list" else {}))
                if len(getattr(r2, x)) != 0:
                    fails.append(f"{label}().without_{spec_item(x)} left {getattr(r2, x)!r}")
    except BaseException as e:
        if isinstance(e, (KeyboardInterrupt, SystemExit)):
            raise
        fails.append(f"element helper call failed: {type(e).__name__}: {e}"[:200])
    return {"fails": fails, "observed": observed, "expected": expected}


def redeclare_generate(rng, tier):
    quick = tier == "quick"
    nos = [w for w in SEQ_WORDS if no_singular(w) and w not in ("level",)]
    sing = [w for w in SEQ_WORDS if not no_singular(w)]
    out = []
    for a in nos + sing:
        combos = [(ty, ty2, dflt, sib, ex) for ty in RD_TYPES for ty2 in RD_TYPES for dflt in (True, False)
                  for sib in (False, True) for ex in (False, True) if dflt or ty2 != ty or ex]
        for ty, ty2, dflt, sib, ex in (rng.sample(combos, 2) if quick else combos):
            extra = None
            if ex:
                extra = rng.choice([w for w in nos if len({a, w, "level", spec_item(a), spec_item(w)}) == 5])
            out.append({"attr": a, "ty": ty, "ty2": ty2, "default": dflt, "sibling": sib, "extra": extra,
                        "lazy_p": rng.random() < 0.5, "lazy_s": rng.random() < 0.5, "use_parent_first": rng.random() < 0.5})
    return out


def hier_collision_generate():
    return [{"plural": p, "singular": s_, "ty": ty, "lazy": lz, "use_parent_first": up}
            for p, s_ in COLL_PAIRS for ty in ("list", "dict", "set") for lz in (False, True) for up in (False, True)]


def hier_generate(rng, tier):
    quick = tier == "quick"
    parents = [dict(FIXED[0], occupied=[], inst=True), dict(FIXED[1], occupied=[], inst=True), dict(FIXED[3], occupied=[], inst=True)]
    parents[0] = dict(parents[0], cfg=base_cfg(lazy=True))
    out = []
    for d in parents:
        names = [n for n in expected_generated(d) if not n.startswith("__")]
        for n in names:
            combos = [(sub, occ, acc) for sub in ("plain", "spec") for occ in HIER_OCC for acc in HIER_ACCESS]
            if quick:
                combos = rng.sample(combos, 6) + [("plain", "super_function", "super"), ("spec", "super_function", "instance")]
            for sub, occ, acc in combos:
                out.append({"desc": d, "name": n, "sub": sub, "occ": occ, "access": acc})
    return out


# ------------------------------------------------------------------ fresh processes
class Fresh:
    """Observations made in processes forked from ONE pristine state: spec_classes imported, World
    built, no other class ever decorated.  The library keeps process-wide state (inflect cache, type
    caches, ...): a case observed here depends on nothing but its own description (which lists the
    classes decorated before/after it), so a stored replay re-executes exactly (`--replay` goes
    through the same path).  A server process is forked before anything else happens; it forks one
    child per request item."""

    def __init__(self):
        world()
        sys.stdout.flush()
        sys.stderr.flush()
        req_r, req_w = os.pipe()
        res_r, res_w = os.pipe()
        pid = os.fork()
        if pid == 0:
            try:
                os.close(req_w)
                os.close(res_r)
                self._serve(os.fdopen(req_r, "r"), os.fdopen(res_w, "w"))
            finally:
                os._exit(0)
        os.close(req_r)
        os.close(res_w)
        self.pid, self.out, self.inp = pid, os.fdopen(req_w, "w"), os.fdopen(res_r, "r")

    @staticmethod
    def _one(kind, payload):
        try:
            if kind == "observe":
                return observe(fix_desc(payload))
            if kind == "redeclare":
                return redeclare_run(payload)
            return {"harness_error": "unknown request " + kind}
        except BaseException as e:
            if isinstance(e, (KeyboardInterrupt, SystemExit)):
                raise
            return {"harness_error": traceback.format_exc()[-1500:]}

    def _serve(self, rd, wr):
        width = max(1, int(os.environ.get("VERIF_JOBS", "4")))
        for line in rd:
            kind, items = json.loads(line)
            results = []
            for k in range(0, len(items), width):
                kids = []
                for it in items[k:k + width]:
                    r, w_ = os.pipe()
                    pid = os.fork()
                    if pid == 0:
                        try:
                            os.close(r)
                            with os.fdopen(w_, "w") as fh:
                                json.dump(self._one(kind, it), fh, default=str)
                        finally:
                            os._exit(0)
                    os.close(w_)
                    kids.append((pid, r))
                for pid, r in kids:
                    with os.fdopen(r, "r") as fh:
                        txt = fh.read()
                    os.waitpid(pid, 0)
                    try:
                        results.append(json.loads(txt))
                    except ValueError:
                        results.append({"harness_error": "child died: " + txt[-300:]})
            wr.write(json.dumps(results) + "\n")
            wr.flush()

    def run(self, kind, items):
        if not items:
            return []
        self.out.write(json.dumps([kind, items], default=str) + "\n")
        self.out.flush()
        return json.loads(self.inp.readline())

    def close(self):
        try:
            self.out.close()
            os.waitpid(self.pid, 0)
        except OSError:
            pass


_FRESH = None


def fresh():
    global _FRESH
    if _FRESH is None:
        _FRESH = Fresh()
    return _FRESH


# ------------------------------------------------------------------ check
def evaluate(descs, tag="c", use_fresh=False):
    """-> (bad, logs, observations).  A description the harness itself cannot observe or encode is
    reported as (index, 9) with obs["harness_error"]; it never stops the run."""
    if use_fresh:
        obss = fresh().run("observe", descs)
    else:
        obss = []
        for d in descs:
            try:
                obss.append(observe(d))
            except BaseException as e:
                if isinstance(e, (KeyboardInterrupt, SystemExit)):
                    raise
                obss.append({"harness_error": traceback.format_exc()[-1500:]})
    terms, index, broken = [], [], []
    for i, (d, o) in enumerate(zip(descs, obss)):
        if "harness_error" not in o:
            try:
                terms.append(c_case(d, o))
                index.append(i)
                continue
            except BaseException as e:
                if isinstance(e, (KeyboardInterrupt, SystemExit)):
                    raise
                o["harness_error"] = traceback.format_exc()[-1500:]
        broken.append((i, 9))
    bad, logs = coq_eval("C16", PRELUDE, "check_case", terms, shard=40, tag=tag, case_type="case")
    return [(index[i], c) for i, c in bad] + broken, logs, obss


def _mutations(cur, top=True):
    """smaller variants of one class description"""
    out = []
    for j in range(len(cur["attrs"])):
        d = json.loads(json.dumps(cur))
        del d["attrs"][j]
        out.append(d)
    if top and cur.get("prior"):
        d = json.loads(json.dumps(cur))
        del d["prior"]
        out.append(d)
    for j in range(len(cur.get("occupied") or [])):
        d = json.loads(json.dumps(cur))
        del d["occupied"][j]
        out.append(d)
    for f, v in (("key", None), ("attrs", None), ("attrs_typed", None), ("attrs_skip", None), ("overflow", None),
                 ("init", True), ("repr", True), ("eq", True), ("lazy", False)):
        if cur["cfg"].get(f) != v:
            d = json.loads(json.dumps(cur))
            d["cfg"][f] = v
            out.append(d)
    for j, a in enumerate(cur["attrs"]):
        if a.get("decl", "none") != "none":
            d = json.loads(json.dumps(cur))
            d["attrs"][j]["decl"] = "none"
            out.append(d)
    if not top and cur.get("use"):
        d = json.loads(json.dumps(cur))
        d["use"] = False
        out.append(d)
    return out


def shrink(desc, code, rounds=10):
    """greedy shrinking; every candidate is observed in a fresh process (see Fresh)"""
    cur = json.loads(json.dumps(desc))

    def still(cands):
        bad, _, _ = evaluate(cands, tag="s", use_fresh=True)
        hit = [i for i, c in bad if c == code]
        return cands[min(hit)] if hit else None
    # the classes decorated before / after: first try without, then one alone, then halves
    for side in ("later", "earlier"):
        lst = cur.get(side) or []
        if not lst:
            cur.pop(side, None)
            continue
        got = still([{k: v for k, v in cur.items() if k != side}] + [dict(cur, **{side: [e]}) for e in lst[:60]])
        if got is not None:
            cur = got
            continue
        while len(cur[side]) > 2:
            h = len(cur[side]) // 2
            got = still([dict(cur, **{side: cur[side][h:]}), dict(cur, **{side: cur[side][:h]})])
            if got is None:
                break
            cur = got
    for _ in range(rounds):
        cands = _mutations(cur)
        for side in ("earlier", "later"):
            lst = cur.get(side) or []
            if len(lst) > 4:
                continue
            for j, e in enumerate(lst):
                cands.append(dict(cur, **{side: lst[:j] + lst[j + 1:]}))
                for m in _mutations(e, top=False):
                    cands.append(dict(cur, **{side: lst[:j] + [m] + lst[j + 1:]}))
        if not cands:
            break
        got = still(cands)
        if got is None:
            break
        cur = got
    for side in ("earlier", "later"):
        if not cur.get(side):
            cur.pop(side, None)
    return cur


def fix_desc(d):
    if d["cfg"].get("attrs_typed") is not None:
        d["cfg"]["attrs_typed"] = [tuple(p) for p in d["cfg"]["attrs_typed"]]
    for side in ("earlier", "later"):
        for e in d.get(side) or []:
            fix_desc(e)
    return d


def explain(desc, tag="x", obs=None):
    """which parts of the oracle reject (observation made in a fresh process unless given)"""
    o = obs if obs is not None else fresh().run("observe", [desc])[0]
    if "harness_error" in o:
        return ["harness_error"]
    if o["outcome"] != 0:
        return ["raise_not_justified"]
    bad, logs = coq_eval("C16", PRELUDE, "spec_fail_bits", [c_case(desc, o)], tag=tag, case_type="case")
    parts = ["user_after", "user_used", "decl_after", "decl_used", "helpers_after", "helpers_used",
             "specnames_after", "specnames_used", "private_after", "private_used", "item_rule"]
    if not bad:
        return []
    v = bad[0][1]
    return [p for i, p in enumerate(parts) if (v >> i) & 1]


def explain_many(pairs, tag="g"):
    """explain for several (description, observation) pairs with one Coq evaluation"""
    out = [None] * len(pairs)
    terms, idx = [], []
    for k, (d, o) in enumerate(pairs):
        if "harness_error" in o:
            out[k] = ["harness_error"]
        elif o["outcome"] != 0:
            out[k] = ["raise_not_justified"]
        else:
            terms.append(c_case(d, o))
            idx.append(k)
    parts = ["user_after", "user_used", "decl_after", "decl_used", "helpers_after", "helpers_used",
             "specnames_after", "specnames_used", "private_after", "private_used", "item_rule"]
    bad, _ = coq_eval("C16", PRELUDE, "spec_fail_bits", terms, shard=40, tag=tag, case_type="case") if terms else ([], [])
    bits = dict(bad)
    for j, k in enumerate(idx):
        v = bits.get(j, 0)
        out[k] = [p for i, p in enumerate(parts) if (v >> i) & 1]
    return out


# ------------------------------------------------------------------ reports: class sources, helper names
TY_SRC = {"int": "int", "str": "str", "any": "Any", "nested": "Nested", "list": "List[int]", "rawlist": "list",
          "dict": "Dict[str, int]", "set": "Set[int]", "list_nested": "List[Nested]", "dict_nested": "Dict[str, Nested]",
          "klist": "KeyedList[KeyedNested, str]", "kset": "KeyedSet[KeyedNested, str]"}
OCC_SRC = {"function": "def {n}(self, *a, **k): return None", "staticmethod": "{n} = staticmethod(lambda *a, **k: None)",
           "classmethod": "{n} = classmethod(lambda cls, *a, **k: None)", "property": "{n} = property(lambda self: 5)",
           "value": "{n} = 7", "none": "{n} = None", "zero": "{n} = 0", "false": "{n} = False", "empty_str": "{n} = ''",
           "empty_tuple": "{n} = ()"}


def class_source(desc, name="K", bases="", deco=None, note=""):
    """Python source of the class a description stands for (for reports; build_class is what runs)"""
    c = desc["cfg"]
    kw = []
    for f in ("init", "repr", "eq"):
        if not c.get(f, True):
            kw.append(f"{f}=False")
    if not c.get("lazy", True):
        kw.append("bootstrap=True")
    for f, k in (("key", "key"), ("attrs", "attrs"), ("attrs_skip", "attrs_skip"), ("overflow", "init_overflow_attr")):
        if c.get(f) is not None:
            kw.append(f"{k}={c[f]!r}")
    if c.get("attrs_typed") is not None:
        kw.append("attrs_typed={" + ", ".join(f"{n!r}: {TY_SRC[t]}" for n, t in c["attrs_typed"]) + "}")
    lines = [deco or f"@spec_class({', '.join(kw)})", f"class {name}{bases}:" + (f"   # {note}" if note else "")]
    for a in desc["attrs"]:
        d = a.get("decl", "none")
        dv = default_for(a["ty"])
        rhs = {"none": None, "value": repr(dv), "attr": f"Attr(default={dv!r})", "attr_nodefault": "Attr()",
               "attr_factory": "Attr(default_factory=list)", "field": f"dataclasses.field(default={dv!r})",
               "field_nodefault": "dataclasses.field()", "property": "property(lambda self: 1)",
               "method": "lambda self: 1"}.get(d)
        ann = "" if a["ty"] == "noann" else ": " + TY_SRC[a["ty"]]
        if ann or rhs:
            lines.append(f"    {a['name']}{ann}" + (f" = {rhs}" if rhs else ""))
    for o in desc.get("occupied") or []:
        lines.append("    " + OCC_SRC.get(o["kind"], "{n} = 7").format(n=o["name"]))
    if len(lines) == 2:
        lines.append("    pass")
    return "\n".join(lines)


def sources(desc):
    out = ["# from typing import *; from spec_classes import spec_class, Attr; from spec_classes.types import KeyedList, KeyedSet",
           "# Nested / KeyedNested: see harness/c16.py:World; every class is bootstrapped (cls.__spec_class__) right after decoration"]
    for j, e in enumerate(desc.get("earlier") or []):
        out.append(class_source(e, f"Earlier{j + 1}", note="then instantiated and every name looked up" if e.get("use") else ""))
    if desc.get("prior"):
        out.append("deco = spec_class(...)  # as below; first applied to:")
        out.append(class_source(dict(desc["prior"], cfg=desc["cfg"]), "Prior", deco="@deco"))
    out.append(class_source(desc, "K", deco="@deco" if desc.get("prior") else None, note="<- the class judged"))
    for j, e in enumerate(desc.get("later") or []):
        out.append(class_source(e, f"Later{j + 1}", note="decorated before K is first instantiated / used"))
    return "\n\n".join(out)


def helper_names(desc, obs):
    """observed public helper names of the judged class next to the documented ones.  The documented
    element names are given for the no-collision case (the verdict is Coq's: DecoSpec.item_rule on the
    observed table; this listing is for the reader)"""
    observed = sorted(n for n, t in obs.get("after", []) if t.startswith(("G (GScalar", "G (GElem", "G (GTop")))
    occupied = {o["name"] for o in desc.get("occupied") or []}
    doc_items = {}
    for a, ck, item, helpers in obs.get("attrs", []):
        if ck is not None and helpers:
            s = obs["sing"].get(a)
            doc_items[a] = {"observed_item_name": item if isinstance(item, str) else lib_str(item),
                            "documented_item_name": s if (s and s != a) else a + "_item",
                            "fallback_on_collision": a + "_item"}
    expected = {"update", "transform", "reset"}
    for a, ck, item, helpers in obs.get("attrs", []):
        if helpers:
            expected |= {f"{p}_{a}" for p in ("with", "update", "transform", "reset")}
    for a, v in doc_items.items():
        expected |= {f"{p}_{v['documented_item_name']}" for p in ("with", "update", "transform", "without")}
    expected -= occupied
    return {"observed_helper_names": observed, "documented_helper_names_absent_collisions": sorted(expected),
            "only_observed": sorted(set(observed) - expected), "only_documented": sorted(expected - set(observed)),
            "collection_attributes": doc_items}


def guarded(fn, arg):
    """a probe that cannot complete is a failed probe (reported), never the end of the run"""
    try:
        return fn(arg)
    except BaseException as e:
        if isinstance(e, (KeyboardInterrupt, SystemExit)):
            raise
        return ["probe stopped with " + traceback.format_exc()[-600:]]


def with_history(desc, obs):
    """the description with the classes built earlier in this process that share a name with it"""
    mine = names_of(desc)
    seen, hist = set(), []
    for e in BUILT[: obs.get("hist_pos", 0)]:
        if not (names_of(e) & mine):
            continue
        k = json.dumps(e, sort_keys=True)
        if k not in seen:
            seen.add(k)
            hist.append(dict(json.loads(k), use=True))
    if not hist:
        return None
    return dict(desc, earlier=hist + list(desc.get("earlier") or []))


def report_failures(chk, descs, obss, bad):
    """Every reported case is first re-observed in a fresh process (if it fails only after other
    classes of this run, those classes become part of the case), then shrunk there."""
    for i, code in [b for b in bad if b[1] == 9][:3]:
        chk.violation("harness could not observe / encode a case: " + obss[i].get("harness_error", "")[-300:],
                      {"desc": descs[i], "kind": "harness-error", "log": obss[i].get("harness_error")}, no_input=True)
    order = sorted([b for b in bad if b[1] != 9],
                   key=lambda b: (-b[1], 0 if (descs[b[0]].get("earlier") or descs[b[0]].get("later")) else 1,
                                  len(descs[b[0]]["attrs"])))[:40]
    if not order:
        return
    pool = []   # (desc, code, fresh observation)
    b1, _, o1 = evaluate([descs[i] for i, _ in order], tag="f", use_fresh=True)
    c1 = dict(b1)
    rest = []
    for k, (i, code) in enumerate(order):
        if c1.get(k) == code:
            pool.append((descs[i], code, o1[k]))
        else:
            rest.append((i, code))
    if rest and len(pool) < 5:
        hd = [(with_history(descs[i], obss[i]), code, i) for i, code in rest[:20]]
        hd = [t for t in hd if t[0] is not None]
        b2, _, o2 = evaluate([t[0] for t in hd], tag="f", use_fresh=True)
        c2 = dict(b2)
        for k, (d, code, i) in enumerate(hd):
            if c2.get(k) == code:
                pool.append((d, code, o2[k]))
        if not pool:
            for i, code in rest[:2]:
                chk.violation("a case fails in this process but not when re-run in a fresh process, alone or after the "
                              f"earlier classes sharing its names: attrs={[(a['name'], a['ty']) for a in descs[i]['attrs']]}",
                              {"desc": descs[i], "code": code, "kind": "not-reproduced-fresh"}, no_input=True)
            return
    # one representative per (code, rejecting oracle parts), smallest first
    groups = {}
    pool = pool[:30]
    whys = explain_many([(d, o) for d, code, o in pool])
    for (d, code, o), why in zip(pool, whys):
        why = why if code == 2 else []
        key = (code, tuple(why), o.get("outcome"))
        size = (len(d.get("earlier") or []) + len(d.get("later") or []), len(d["attrs"]))
        if key not in groups or size < groups[key][0]:
            groups[key] = (size, d, code)
    reported = set()
    for key in sorted(groups, key=lambda k: (-k[0], groups[k][0]))[:5]:
        _, d, code = groups[key]
        small = shrink(d, code)
        o = fresh().run("observe", [small])[0]
        why = explain(small, obs=o) if code == 2 else []
        occ = [x["kind"] for x in small.get("occupied", [])]
        sig = {"code": code, "parts": ",".join(why), "outcome": o["outcome"], "occupied": ",".join(occ)}
        k2 = json.dumps(sig, sort_keys=True)
        if k2 in reported:
            continue
        reported.add(k2)
        hn = helper_names(small, o)
        others = "".join(f"{side} class(es) {[[(a['name'], a['ty']) for a in e['attrs']] for e in small[side]]} "
                         for side in ("earlier", "later") if small.get(side))
        what = (("decoration violates the documented helper rules (" + ",".join(why) + ")") if code == 2
                else "decoration differs from the model") + \
            f": attrs={[(a['name'], a['ty'], a.get('decl', 'none')) for a in small['attrs']]} " + \
            (f"independently decorated in the same process: {others}" if others else "") + \
            f"occupied={small.get('occupied')} " + (f"same decorator object applied first to a class with attrs={[(a['name'], a['ty']) for a in small['prior']['attrs']]} " if small.get("prior") else "") + \
            f"cfg={ {k: v for k, v in small['cfg'].items() if v not in (None, True)} } " + \
            (f"helper names only observed={hn['only_observed']} only documented={hn['only_documented']}"
             if (hn["only_observed"] or hn["only_documented"]) else "")
        chk.violation(what, {"desc": small, "code": code, "rejected_by": why,
                             "class_sources": sources(small), "helper_names": hn,
                             "observed": {k: o[k] for k in ("outcome", "attrs", "annots")},
                             "generated": [p for p in o["after"] if p[1].startswith("G ")],
                             "replay": "bin/check C16 --replay <this file>  (re-executed in a fresh process: the listed classes in the listed order)"},
                      sig=sig, no_input=(code != 2))


def main(tier, replay=None):
    chk = Check("C16", tier)
    fresh()   # fork the pristine server before anything is decorated in this process
    if replay:
        r = json.load(open(replay))
        if "hier_redeclare" in r:
            res = fresh().run("redeclare", [r["hier_redeclare"]])[0]
            fails = res.get("fails") or ([res["harness_error"]] if "harness_error" in res else [])
            print(redeclare_source(r["hier_redeclare"]))
            print("replay:", "still failing code=2" if fails else "passes now", fails[:5])
            print("observed helper names:", json.dumps(res.get("observed")))
            print("documented helper names:", json.dumps(res.get("expected")))
            return 1 if fails else 0
        if "hier_collision" in r:
            fails = hier_collision_run(r["hier_collision"])
            print("replay:", "still failing code=2" if fails else "passes now", fails[:5])
            return 1 if fails else 0
        if "hier" in r:
            r["hier"]["desc"] = fix_desc(r["hier"]["desc"])
            fails = hier_run(r["hier"])
            print("replay:", "still failing code=2" if fails else "passes now", fails[:5])
            return 1 if fails else 0
        desc = fix_desc(r["desc"])
        bad, logs, obss = evaluate([desc], tag="r", use_fresh=True)
        print(sources(desc))
        print("replay:", "still failing code=%s" % bad[0][1] if bad else "passes now", logs)
        print("observed now:", json.dumps({k: v for k, v in obss[0].items() if k in ("outcome", "attrs", "annots", "error")}, default=str))
        print("generated:", [p for p in obss[0].get("after", []) if p[1].startswith("G ")])
        print("helper names:", json.dumps(helper_names(desc, obss[0])) if "sing" in obss[0] else obss[0])
        return 1 if bad else 0
    chk.proofs()
    cases, found = generate(chk.rng, tier)
    import glob
    corpus = []
    for f in sorted(glob.glob(os.path.join(os.path.dirname(os.path.dirname(os.path.abspath(__file__))), "corpus", "C16", "*.json"))):
        try:
            corpus.append((json.load(open(f))["desc"], "corpus"))
        except (OSError, ValueError, KeyError):
            pass
    cases = corpus + cases
    descs = [fix_desc(d) for d, _ in cases]
    bad, logs, obss = evaluate(descs)
    report_failures(chk, descs, obss, bad)
    # hierarchies (implementation-only probe, oracle in Python)
    hier = hier_generate(chk.rng, tier)
    hier_failed = 0
    hreported = set()
    for hc in hier:
        fails = guarded(hier_run, hc)
        if not fails:
            continue
        hier_failed += 1
        sig = {"code": 2, "kind": "hierarchy", "sub": hc["sub"], "occ": hc["occ"], "access": hc["access"]}
        key = json.dumps(sig, sort_keys=True)
        if key in hreported or len(hreported) >= 6:
            continue
        hreported.add(key)
        chk.violation(f"first use through a subclass replaced user code: parent attrs="
                      f"{[(a['name'], a['ty']) for a in hc['desc']['attrs']]} name={hc['name']} subclass={hc['sub']} "
                      f"defines it as {hc['occ']}, first use via {hc['access']}: {fails[:3]}",
                      {"hier": hc, "failures": fails, "code": 2, "replay": "bin/check C16 --replay <this file>"}, sig=sig)
    hcoll = hier_collision_generate()
    hcoll_failed = 0
    for hc in hcoll:
        fails = guarded(hier_collision_run, hc)
        if not fails:
            continue
        hcoll_failed += 1
        if hcoll_failed <= 3:
            chk.violation(f"a spec subclass adding {hc['singular']!r} next to the inherited collection {hc['plural']!r} ({hc['ty']}, "
                          f"lazy={hc['lazy']}, parent used first={hc['use_parent_first']}): {fails[:3]}",
                          {"hier_collision": hc, "failures": fails, "code": 2, "replay": "bin/check C16 --replay <this file>"},
                          sig={"code": 2, "kind": "hierarchy_collision", "ty": hc["ty"], "lazy": hc["lazy"]})
    # re-declaring subclasses / siblings (implementation-only probe, each in a fresh process)
    rdc = redeclare_generate(chk.rng, tier)
    rd_failed = 0
    rd_seen = set()
    for rc_, res in zip(rdc, fresh().run("redeclare", rdc)):
        fails = res.get("fails") or ([res["harness_error"]] if "harness_error" in res else [])
        if not fails:
            continue
        rd_failed += 1
        sig = {"code": 2, "kind": "redeclare", "sibling": bool(rc_.get("sibling")), "extra": bool(rc_.get("extra"))}
        key = json.dumps(sig, sort_keys=True)
        if key in rd_seen or len(rd_seen) >= 2:
            continue
        rd_seen.add(key)
        chk.violation(f"a spec subclass re-declaring the inherited collection attribute {rc_['attr']!r} "
                      f"({rc_['ty']} -> {rc_['ty2']}{', a sibling class uses the name too' if rc_.get('sibling') else ''}): {fails[:3]}",
                      {"hier_redeclare": rc_, "class_sources": redeclare_source(rc_), "failures": fails,
                       "observed_helper_names": res.get("observed"), "documented_helper_names": res.get("expected"),
                       "code": 2, "replay": "bin/check C16 --replay <this file>"},
                      sig=sig, no_input="harness_error" in res)
    for lg in logs:
        chk.violation("correspondence evaluation failed: " + lg[-500:], {"kind": "coq-eval", "log": lg}, no_input=True)
    kinds, outcomes, nattrs, occk, tys, lazy = {}, {}, {}, {}, {}, {}
    distinct = set()
    nontrivial = 0
    gen_names = 0
    for (d, k), o in zip(cases, obss):
        kinds[k] = kinds.get(k, 0) + 1
        if "harness_error" in o:
            outcomes["harness_error"] = outcomes.get("harness_error", 0) + 1
            continue
        outcomes[str(o["outcome"])] = outcomes.get(str(o["outcome"]), 0) + 1
        nattrs[len(d["attrs"])] = nattrs.get(len(d["attrs"]), 0) + 1
        for x in d.get("occupied", []):
            occk[x["kind"]] = occk.get(x["kind"], 0) + 1
        for a in d["attrs"]:
            tys[a["ty"]] = tys.get(a["ty"], 0) + 1
        lazy[str(d["cfg"]["lazy"])] = lazy.get(str(d["cfg"]["lazy"]), 0) + 1
        distinct.add(json.dumps(d, sort_keys=True))
        g = sum(1 for p in o["after"] if p[1].startswith("G "))
        gen_names += g
        if g or o["outcome"]:
            nontrivial += 1
    extra = {
        "correspondence": {"cases": len(cases), "disagreements": len(bad), "by_generator": kinds,
                           "hierarchy_probes": len(hier), "hierarchy_probe_failures": hier_failed,
                           "hierarchy_collision_probes": len(hcoll), "hierarchy_collision_failures": hcoll_failed,
                           "redeclare_probes": len(rdc), "redeclare_probe_failures": rd_failed,
                           "cases_with_earlier_or_later_classes": sum(1 for d, _ in cases if d.get("earlier") or d.get("later")),
                           "outcome_histogram": outcomes, "attribute_count_histogram": nattrs,
                           "occupied_kind_histogram": occk, "attribute_type_histogram": tys,
                           "lazy_histogram": lazy, "generated_entries_compared": gen_names,
                           "first_use_lookups": sum(len(o.get("uses", [])) for o in obss), **found},
        "evaluations": len(cases), "distinct_nontrivial": min(len(distinct), nontrivial),
        "rule": "case = (attributes with type/declaration form, decorator arguments, names occupied in the body, instantiated?); "
                "fixed classes and random classes x every generated name occupied as function/staticmethod/property/truthy value "
                "and as a falsy plain value None/0/False/''/() (quick: all five for the first fixed class, one otherwise; one kind per name for random classes), occupied pairs, and colliding word pairs found with the real "
                "inflect; chains of 2-3 independently decorated classes sharing collection attribute names (names without singular form included), each class judged alone with the others listed as earlier/later classes of the case; distinct = distinct descriptions; nontrivial = at least one generated entry compared or decoration raised",
        "samples": [descs[0], descs[len(descs) // 2], descs[-1]],
        "exhaustive": False,
    }
    return chk.finish(
        trusted_base=["Coq 8.16.1 kernel and vm_compute", "no axioms (Print Assumptions: closed under the global context)",
                      "hand-written model coq/Deco/Decorate.v + Naming.v tied to /repo by this run's correspondence",
                      "inflect.singular_noun is an oracle (its answers are inputs of each case)",
                      "harness/c16.py: classification of class-dictionary entries by identity / descriptor class / implementation function"],
        assumptions=["one class without spec-class parents (inheritance is C09's subject)",
                     "names reserved by the library (__spec_class*, __dataclass_fields__) are not user code",
                     "an Attr/field declaration is a declaration, not user code: it is lifted iff the attribute gets a specification",
                     "a user __new__ of a lazily bootstrapped class is compared by the function inside its staticmethod wrapper"],
        extra=extra)
