"""Implementation-only exploration of KeyedList/KeyedSet-typed attributes WITH item
preparers (outside the instance model; the containers themselves are C13/C14).

Whole keyed containers are handed to the constructor, attribute assignment, with_<attr>,
update(...) and the element helpers; the item preparer builds a new item and raises for
negative payloads, so a failure can happen at the 1st, 2nd or 3rd item.

mode "C01": a call without _inplace=True leaves the receiver and every argument
            (the caller's keyed container: list view and key index, and its items)
            unchanged, whether it returns or raises.
mode "C04": a call that raises (in place or not, assignment included) leaves the
            receiver and every argument unchanged.
"""


def explore(chk, extra, mode):
    from typing import Optional

    from spec_classes import Attr, spec_class
    from spec_classes.types import KeyedList, KeyedSet

    @spec_class(key="k")
    class Item:
        k: str
        v: int = 0

    class Boom(Exception):
        pass

    @spec_class
    class PHolder:
        items: KeyedList[Item, str] = Attr(default_factory=KeyedList)
        tags: KeyedSet[Item, str] = Attr(default_factory=KeyedSet)
        n: Optional[int] = None

        def _prepare_item(self, item):
            if isinstance(item, Item):
                if item.v < 0:
                    raise Boom(item.k)
                return Item(item.k, v=item.v * 10)
            return item

        def _prepare_tag(self, tag):
            if isinstance(tag, Item):
                if tag.v < 0:
                    raise Boom(tag.k)
                return Item(tag.k, v=tag.v * 10)
            return tag

    def snap_c(c):
        if c is None:
            return None
        return (id(c), [(id(x), x.k, x.v) for x in getattr(c, "_list", [])],
                sorted((k, id(v), v.k, v.v) for k, v in c._dict.items()))

    def snap_h(h):
        return [snap_c(h.__dict__.get("items")), snap_c(h.__dict__.get("tags")), h.__dict__.get("n")]

    rng = chk.rng
    keys = ["a", "b", "c", "d"]
    n = 500 if chk.tier == "quick" else 8000
    tried = raised = 0
    ophist = {}
    for _ in range(n):
        ks = rng.sample(keys, rng.choice([1, 2, 3]))
        h = PHolder(items=[Item(k, v=i) for i, k in enumerate(ks)], tags=[Item(k, v=i) for i, k in enumerate(ks)])
        inplace = mode == "C04" and rng.random() < 0.5
        kw = {"_inplace": True} if inplace else {}
        # the caller's containers: 2..3 items, a negative payload (preparer raises) at a random
        # position in about half of them
        aks = rng.sample(keys, rng.choice([2, 3]))
        vals = [rng.choice([1, 2, 3]) for _ in aks]
        if rng.random() < 0.55:
            vals[rng.randrange(len(vals))] = -1
        arg_list = KeyedList[Item, str]([Item(k, v=v) for k, v in zip(aks, vals)])
        arg_set = KeyedSet[Item, str]([Item(k, v=v) for k, v in zip(aks, vals)])
        one = Item(rng.choice(keys), v=rng.choice([4, -1]))
        ops = [
            ("with_items(KeyedList)", lambda: h.with_items(arg_list, **kw)),
            ("with_tags(KeyedSet)", lambda: h.with_tags(arg_set, **kw)),
            ("update(items=KeyedList)", lambda: h.update(items=arg_list, **kw)),
            # (two keywords with _inplace=True is the recorded open finding of C04)
            (("update(tags=KeyedSet)", lambda: h.update(tags=arg_set, **kw)) if inplace else
             ("update(n=, tags=KeyedSet)", lambda: h.update(n=1, tags=arg_set))),
            ("update_items(KeyedList)", lambda: h.update_items(arg_list, **kw)),
            ("transform_items(-> caller's list)", lambda: h.transform_items(lambda _: arg_list, **kw)),
            ("with_item(Item)", lambda: h.with_item(one, **kw)),
            ("with_tag(Item)", lambda: h.with_tag(one, **kw)),
            ("update_item(key, Item)", lambda: h.update_item(rng.choice(ks), one, **kw)),
            ("transform_item(key, -> Item)", lambda: h.transform_item(rng.choice(ks), lambda _: one, **kw)),
        ]
        if not inplace:
            ops += [
                ("PHolder(items=KeyedList)", lambda: PHolder(items=arg_list)),
                ("PHolder(tags=KeyedSet)", lambda: PHolder(tags=arg_set)),
            ]
        if mode == "C04":
            def assign_items():
                h.items = arg_list

            def assign_tags():
                h.tags = arg_set
            ops += [("h.items = KeyedList", assign_items), ("h.tags = KeyedSet", assign_tags)]
        op = rng.choice(ops)
        ophist[op[0]] = ophist.get(op[0], 0) + 1
        before = (snap_h(h), snap_c(arg_list), snap_c(arg_set), (one.k, one.v))
        tried += 1
        outcome = "returned"
        try:
            op[1]()
        except BaseException as e:
            if isinstance(e, (KeyboardInterrupt, SystemExit)):
                raise
            raised += 1
            outcome = "raised " + type(e).__name__
        after = (snap_h(h), snap_c(arg_list), snap_c(arg_set), (one.k, one.v))
        if mode == "C01":
            broken = after != before
        else:
            broken = outcome != "returned" and after != before
        if broken:
            what = "argument (the caller's keyed container)" if after[1:] != before[1:] else "receiver"
            chk.violation(
                f"{op[0]} (_inplace={inplace}, {outcome}) on a KeyedList/KeyedSet attribute with an item preparer changed the {what}",
                {"holder_items": ks, "argument_keys": aks, "argument_payloads": vals, "op": op[0], "inplace": inplace,
                 "outcome": outcome, "before": before, "after": after},
                sig={"kind": "keyed-attribute-prepared", "op": op[0]})
            break
    extra["keyed_attributes_with_item_preparer"] = {
        "operations": tried, "raised": raised, "op_histogram": ophist,
        "rule": "implementation only: KeyedList/KeyedSet attributes with item preparers that build new items and raise "
                "on negative payloads (failure at the 1st..3rd item); whole containers passed to constructor, assignment, "
                "with_<attr>, update, update_<attr>, transform_<attr>; oracle " +
                ("C01: receiver and arguments unchanged whether the call returns or raises" if mode == "C01" else
                 "C04: after an exception receiver and arguments unchanged")}
