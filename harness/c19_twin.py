"""C19 — lazy/eager twin probe for hierarchies the chain model does not cover: a spec class
with two bases (plain mixin without __new__, plain or spec base defining __new__, in either
order), own __new__ or not, optional plain subclass.  Sequential triggers only.  Every user
__new__ records its defining class on the instance and in a log, so the observation says
WHICH class's __new__ built each instance and with which arguments."""
import inspect
import itertools

BASE_KINDS = ["M0", "MN", "SP0", "SPN"]
OPS = ["inst", "inst_kw", "inst_pos", "meta", "fields", "inst_sub", "inst_sub_pos", "inst_base", "inst_base_pos"]


def shapes():
    combos = [()] + [(b,) for b in BASE_KINDS] + list(itertools.permutations(BASE_KINDS, 2))
    out = []
    for bases in combos:
        for own in (False, True):
            for up in ("super", "object"):
                if up == "object" and not any(b in ("MN", "SPN") for b in bases) and not own:
                    continue
                for sub in (None, False, True):
                    out.append({"bases": list(bases), "own": own, "up": up, "sub": sub})
    return out


def sequences(shape):
    seqs = [["inst", "inst_kw", "inst"], ["meta", "inst", "inst_kw"], ["fields", "inst_kw", "inst"]]
    # the key handed over POSITIONALLY as first use, as later use, after a lookup (S and the spec
    # bases are keyed): the positional arguments must reach every user __new__ of the MRO
    seqs += [["inst_pos", "inst_kw", "inst_pos"], ["inst", "inst_pos", "inst_kw"], ["meta", "inst_pos", "inst"]]
    if shape["sub"] is not None:
        seqs += [["inst_sub", "inst", "inst_sub"], ["meta", "inst_sub", "inst_kw"]]
        seqs += [["inst_sub_pos", "inst_pos", "inst_sub"], ["inst", "inst_sub_pos", "inst_sub_pos"]]
    if any(b in ("SP0", "SPN") for b in shape["bases"]):
        seqs += [["inst_base", "inst", "inst_kw"], ["inst", "inst_base", "inst_base"]]
        seqs += [["inst_base_pos", "inst_pos", "inst_base"], ["inst_pos", "inst_base_pos", "inst_base_pos"]]
    return seqs


def new_def(name, up):
    # `super`: the arguments are handed on to the next __new__ of the MRO (object.__new__ refuses them)
    call = ("(super().__new__(cls) if super().__new__ is object.__new__ else super().__new__(cls, *args, **kwargs))"
            if up == "super" else "object.__new__(cls)")
    return [f"    def __new__(cls, *args, **kwargs):",
            f"        self = {call}",
            f"        object.__setattr__(self, '_made_by', getattr(self, '_made_by', ()) + ('{name}',))",
            f"        LOG.append(('{name}', cls.__name__, args, tuple(sorted(kwargs.items()))))",
            f"        return self"]


def render(shape, eager):
    deco = "@spec_class(bootstrap=True)" if eager else "@spec_class"
    kdeco = lambda key: f"@spec_class(key={key!r}, bootstrap=True)" if eager else f"@spec_class(key={key!r})"  # noqa: E731
    up = shape["up"]
    out = ["import dataclasses", "from spec_classes import spec_class, Attr", "LOG = []", ""]
    if "M0" in shape["bases"]:
        out += ["class M0:", "    def label(self):", "        return type(self).__name__", ""]
    if "MN" in shape["bases"]:
        out += ["class MN:"] + new_def("MN", up) + [""]
    if "SP0" in shape["bases"]:
        out += [kdeco("p"), "class SP0:", "    p: int = 1", ""]
    if "SPN" in shape["bases"]:
        out += [kdeco("q"), "class SPN:", "    q: int = Attr(default=2, repr=False)"] + new_def("SPN", up) + [""]
    out += [kdeco("x"), f"class S({', '.join(shape['bases'])}):".replace("()", ""),
            "    x: int = 1", "    items: list = Attr(default_factory=list)"]
    if shape["own"]:
        out += new_def("S", "super")
    out.append("")
    if shape["sub"] is not None:
        out += ["class PS(S):"] + (new_def("PS", "super") if shape["sub"] else ["    pass"]) + [""]
    return "\n".join(out)


def _fn(k):
    e = k.__dict__.get("__new__")
    return getattr(e, "__func__", e)


def provider(cls):
    """which classes of the MRO carry a __new__ entry, and of what kind"""
    out = []
    for k in cls.__mro__:
        if k is object:
            continue
        e = k.__dict__.get("__new__")
        if e is None:
            continue
        f = getattr(e, "__func__", e)
        if getattr(f, "__spec_classes_new_wrapper__", False):
            # a wrapper that was never reached is transparent: it stands for the class's own
            # __new__ (if it defined one) or for nothing
            cells = dict(zip(f.__code__.co_freevars, f.__closure__ or ()))
            orig = cells["orig_new"].cell_contents if "orig_new" in cells else None
            if inspect.isfunction(getattr(orig, "__func__", orig)):
                out.append(k.__name__ + ":user")
        elif "spec_class.__call__" in getattr(f, "__qualname__", ""):
            # the pass-through the wrapper leaves behind is legitimate (equivalent to the eager
            # class, which has no __new__ of its own) only on a class that inherits
            # object.__new__ in ITS OWN hierarchy; anywhere else it shadows an inherited __new__
            if any(inspect.isfunction(_fn(b)) and "spec_class.__call__" not in _fn(b).__qualname__
                   for b in k.__mro__[1:] if b is not object):
                out.append(k.__name__ + ":shim-shadowing-inherited-new")
        else:
            out.append(k.__name__ + ":user")
    return out


def run(shape, seq, eager):
    """observations of one twin: one list of strings per step plus a final summary"""
    ns = {}
    exec(compile(render(shape, eager), "<c19-twin>", "exec"), ns)  # noqa: S102 - generated source
    S, PS, LOG = ns["S"], ns.get("PS"), ns["LOG"]
    base = next((ns[b] for b in shape["bases"] if b in ("SP0", "SPN")), None)
    obs = []
    for i, op in enumerate(seq):
        n0 = len(LOG)
        try:
            if op.startswith("inst"):
                T = {"inst": S, "inst_kw": S, "inst_pos": S, "inst_sub": PS or S, "inst_sub_pos": PS or S,
                     "inst_base": base or S, "inst_base_pos": base or S}[op]
                if op.endswith("_pos"):
                    o = T(20 + i)  # the key, positionally
                else:
                    o = T(x=10 + i) if (op == "inst_kw" and T is not base) else T()
                obs.append(["ok", repr(o), repr(getattr(o, "_made_by", ())), repr(LOG[n0:]),
                            repr(sorted(k for k in vars(o) if not k.startswith("_")))])
            elif op == "meta":
                m = S.__spec_class__
                obs.append(["ok", repr([(n, a.owner.__name__, a.init, a.repr) for n, a in m.attrs.items()]), repr(m.key)])
            else:
                f = S.__dataclass_fields__
                obs.append(["ok", repr(list(f))])
        except BaseException as e:  # noqa: BLE001
            obs.append(["exc", type(e).__name__])
    final = ["final"]
    for k in [S] + ([PS] if PS else []) + ([base] if base else []):
        final.append(k.__name__ + "=" + ",".join(provider(k)))
        final.append(repr(sorted(n for n in vars(k) if n.startswith("with_") or n in ("__init__", "__eq__"))))
    obs.append(final)
    return obs


def job(args):
    """-> (eager observations, lazy observations) as lists of lists of ints (shared interning)"""
    shape, seq = args
    table = {}
    enc = lambda rows: [[table.setdefault(s, len(table) + 1) for s in row] for row in rows]  # noqa: E731
    e = run(shape, seq, True)
    l = run(shape, seq, False)
    return {"eager": enc(e), "lazy": enc(l), "eager_raw": e, "lazy_raw": l,
            "eager_ok": all(r[0] != "exc" for r in e)}


# ------------------------------------------------------------------ do_not_copy chains
# Parent / child (/ grandchild) chains whose decorators disagree about do_not_copy (names
# listed on the parent only, on the child only, True / False), the child not re-declaring
# the attribute.  After EVERY trigger every class that is bootstrapped in the lazy twin is
# observed (metadata incl. per-attribute do_not_copy, and whether a constructed instance
# shares or copies the value it was given) and compared with the same classes of the eager
# twin after the same triggers - so a child's bootstrap that reaches into its parent's
# specifications shows up as "parent differs before the child was triggered".
DNC_OPTS = [None, ["payload"], ["name"], ["payload", "name"], True]
DNC_OPS = ["inst0", "meta0", "inst1", "meta1", "fields1", "inst2", "meta2"]


def dnc_shapes():
    out = []
    for a in DNC_OPTS:
        for b in DNC_OPTS:
            if a == b:
                continue
            out.append({"dnc": [a, b], "redeclare": False})
            out.append({"dnc": [a, b, a], "redeclare": False})
    out.append({"dnc": [["payload"], None], "redeclare": True})
    out.append({"dnc": [None, ["payload"]], "redeclare": True})
    return out


def dnc_sequences(shape):
    k = len(shape["dnc"])
    ops = [o for o in DNC_OPS if int(o[-1]) < k]
    top = str(k - 1)
    return [["inst0", "meta" + top, "inst0"], ["inst0", "inst" + top, "inst0"], ["meta0", "fields1", "inst1"],
            ["inst" + top, "inst0", "meta0"], ["fields1", "inst0", "inst1"]] + \
           ([["inst1", "inst2", "inst0"], ["inst0", "inst1", "meta2"]] if k == 3 else []) + \
           ([ops[:3]] if ops[:3] not in ([],) else [])


def dnc_render(shape, eager):
    out = ["from typing import List", "from spec_classes import spec_class, Attr", ""]
    for i, d in enumerate(shape["dnc"]):
        args = []
        if d is not None:
            args.append(f"do_not_copy={d!r}")
        if eager:
            args.append("bootstrap=True")
        out.append(f"@spec_class({', '.join(args)})" if args else "@spec_class")
        out.append(f"class K{i}({'K%d' % (i - 1) if i else ''}):".replace("()", ""))
        if i == 0:
            out += ["    name: str = 'p'", "    payload: List[int] = Attr(default_factory=list)"]
        else:
            out.append(f"    extra{i}: int = {i}")
            if shape["redeclare"]:
                out.append("    payload: List[int] = Attr(default_factory=list)")
        out.append("")
    return "\n".join(out)


def dnc_observe(cls):
    from spec_classes.types import MISSING
    m = cls.__dict__["__spec_class__"]
    rows = ["meta:" + cls.__name__, repr(bool(m.do_not_copy))]
    for n, a in m.attrs.items():
        rows.append(repr((n, a.owner.__name__, bool(a.do_not_copy), a.init, a.repr,
                          a.default_factory is not MISSING, a.default is not MISSING)))
    try:
        p = [1, 2, 3]
        o = cls(payload=p)
        rows.append(repr(("inst", o.payload is p, o.with_name("q").payload is p, o.payload,
                          o.with_name("q") is o)))
    except BaseException as e:  # noqa: BLE001
        rows.append("inst-exc:" + type(e).__name__)
    return rows


def dnc_run(shape, seq, eager, visible=None):
    ns = {}
    exec(compile(dnc_render(shape, eager), "<c19-twin-dnc>", "exec"), ns)  # noqa: S102 - generated source
    ks = [ns[f"K{i}"] for i in range(len(shape["dnc"]))]
    obs, vis = [], []
    for step, op in enumerate(seq):
        T = ks[int(op[-1])]
        try:
            if op.startswith("inst"):
                o = T(payload=[7])
                obs.append(["ok", repr(o)])
            elif op.startswith("meta"):
                obs.append(["ok", repr(list(T.__spec_class__.attrs))])
            else:
                obs.append(["ok", repr(list(T.__dataclass_fields__))])
        except BaseException as e:  # noqa: BLE001
            obs.append(["exc", type(e).__name__])
        if visible is None:  # the lazy twin decides which classes can be looked at without triggering them
            now = [i for i, k in enumerate(ks) if not hasattr(type(k.__dict__.get("__spec_class__")), "__get__")]
            vis.append(now)
        else:
            now = visible[step]
        for i in now:
            obs.append(dnc_observe(ks[i]))
    return obs, vis


def dnc_job(args):
    shape, seq = args
    table = {}
    enc = lambda rows: [[table.setdefault(s, len(table) + 1) for s in row] for row in rows]  # noqa: E731
    l, vis = dnc_run(shape, seq, False)
    e, _ = dnc_run(shape, seq, True, vis)
    return {"eager": enc(e), "lazy": enc(l), "eager_raw": e, "lazy_raw": l,
            "eager_ok": all(r[0] != "exc" and not r[-1].startswith("inst-exc") for r in e)}
