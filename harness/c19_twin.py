"""C19 — lazy/eager twin probe for hierarchies the chain model does not cover: a spec class
with two bases (plain mixin without __new__, plain or spec base defining __new__, in either
order), own __new__ or not, optional plain subclass.  Sequential triggers only.  Every user
__new__ records its defining class on the instance and in a log, so the observation says
WHICH class's __new__ built each instance and with which arguments."""
import inspect
import itertools

BASE_KINDS = ["M0", "MN", "SP0", "SPN"]
OPS = ["inst", "inst_kw", "meta", "fields", "inst_sub", "inst_base"]


def shapes():
    combos = [()] + [(b,) for b in BASE_KINDS] + list(itertools.permutations(BASE_KINDS, 2))
    out = []
    for bases in combos:
        for own in (False, True):
            for up in ("super", "object"):
                if up == "object" and not any(b in ("MN", "SPN") for b in bases) and not own:
                    continue
                for sub in (None, False, True):
                    out.append({"bases": list(bases), "own": own, "up": up, "sub": sub})
    return out


def sequences(shape):
    seqs = [["inst", "inst_kw", "inst"], ["meta", "inst", "inst_kw"], ["fields", "inst_kw", "inst"]]
    if shape["sub"] is not None:
        seqs += [["inst_sub", "inst", "inst_sub"], ["meta", "inst_sub", "inst_kw"]]
    if any(b in ("SP0", "SPN") for b in shape["bases"]):
        seqs += [["inst_base", "inst", "inst_kw"], ["inst", "inst_base", "inst_base"]]
    return seqs


def new_def(name, up):
    call = "super().__new__(cls)" if up == "super" else "object.__new__(cls)"
    return [f"    def __new__(cls, *args, **kwargs):",
            f"        self = {call}",
            f"        object.__setattr__(self, '_made_by', getattr(self, '_made_by', ()) + ('{name}',))",
            f"        LOG.append(('{name}', cls.__name__, len(args), tuple(sorted(kwargs))))",
            f"        return self"]


def render(shape, eager):
    deco = "@spec_class(bootstrap=True)" if eager else "@spec_class"
    up = shape["up"]
    out = ["import dataclasses", "from spec_classes import spec_class, Attr", "LOG = []", ""]
    if "M0" in shape["bases"]:
        out += ["class M0:", "    def label(self):", "        return type(self).__name__", ""]
    if "MN" in shape["bases"]:
        out += ["class MN:"] + new_def("MN", up) + [""]
    if "SP0" in shape["bases"]:
        out += [deco, "class SP0:", "    p: int = 1", ""]
    if "SPN" in shape["bases"]:
        out += [deco, "class SPN:", "    q: int = Attr(default=2, repr=False)"] + new_def("SPN", up) + [""]
    out += [deco, f"class S({', '.join(shape['bases'])}):".replace("()", ""),
            "    x: int = 1", "    items: list = Attr(default_factory=list)"]
    if shape["own"]:
        out += new_def("S", "super")
    out.append("")
    if shape["sub"] is not None:
        out += ["class PS(S):"] + (new_def("PS", "super") if shape["sub"] else ["    pass"]) + [""]
    return "\n".join(out)


def _fn(k):
    e = k.__dict__.get("__new__")
    return getattr(e, "__func__", e)


def provider(cls):
    """which classes of the MRO carry a __new__ entry, and of what kind"""
    out = []
    for k in cls.__mro__:
        if k is object:
            continue
        e = k.__dict__.get("__new__")
        if e is None:
            continue
        f = getattr(e, "__func__", e)
        if getattr(f, "__spec_classes_new_wrapper__", False):
            # a wrapper that was never reached is transparent: it stands for the class's own
            # __new__ (if it defined one) or for nothing
            cells = dict(zip(f.__code__.co_freevars, f.__closure__ or ()))
            orig = cells["orig_new"].cell_contents if "orig_new" in cells else None
            if inspect.isfunction(getattr(orig, "__func__", orig)):
                out.append(k.__name__ + ":user")
        elif "spec_class.__call__" in getattr(f, "__qualname__", ""):
            # the pass-through the wrapper leaves behind is legitimate (equivalent to the eager
            # class, which has no __new__ of its own) only on a class that inherits
            # object.__new__ in ITS OWN hierarchy; anywhere else it shadows an inherited __new__
            if any(inspect.isfunction(_fn(b)) and "spec_class.__call__" not in _fn(b).__qualname__
                   for b in k.__mro__[1:] if b is not object):
                out.append(k.__name__ + ":shim-shadowing-inherited-new")
        else:
            out.append(k.__name__ + ":user")
    return out


def run(shape, seq, eager):
    """observations of one twin: one list of strings per step plus a final summary"""
    ns = {}
    exec(compile(render(shape, eager), "<c19-twin>", "exec"), ns)  # noqa: S102 - generated source
    S, PS, LOG = ns["S"], ns.get("PS"), ns["LOG"]
    base = next((ns[b] for b in shape["bases"] if b in ("SP0", "SPN")), None)
    obs = []
    for i, op in enumerate(seq):
        n0 = len(LOG)
        try:
            if op in ("inst", "inst_kw", "inst_sub", "inst_base"):
                T = {"inst": S, "inst_kw": S, "inst_sub": PS or S, "inst_base": base or S}[op]
                o = T(x=10 + i) if (op == "inst_kw" and T is not base) else T()
                obs.append(["ok", repr(o), repr(getattr(o, "_made_by", ())), repr(LOG[n0:]),
                            repr(sorted(k for k in vars(o) if not k.startswith("_")))])
            elif op == "meta":
                m = S.__spec_class__
                obs.append(["ok", repr([(n, a.owner.__name__, a.init, a.repr) for n, a in m.attrs.items()]), repr(m.key)])
            else:
                f = S.__dataclass_fields__
                obs.append(["ok", repr(list(f))])
        except BaseException as e:  # noqa: BLE001
            obs.append(["exc", type(e).__name__])
    final = ["final"]
    for k in [S] + ([PS] if PS else []) + ([base] if base else []):
        final.append(k.__name__ + "=" + ",".join(provider(k)))
        final.append(repr(sorted(n for n in vars(k) if n.startswith("with_") or n in ("__init__", "__eq__"))))
    obs.append(final)
    return obs


def job(args):
    """-> (eager observations, lazy observations) as lists of lists of ints (shared interning)"""
    shape, seq = args
    table = {}
    enc = lambda rows: [[table.setdefault(s, len(table) + 1) for s in row] for row in rows]  # noqa: E731
    e = run(shape, seq, True)
    l = run(shape, seq, False)
    return {"eager": enc(e), "lazy": enc(l), "eager_raw": e, "lazy_raw": l,
            "eager_ok": all(r[0] != "exc" for r in e)}
