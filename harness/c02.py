"""C02 — derived copies share no mutable state with the original (do_not_copy excepted)."""
import c02_gen
import c02_keyed
import c02_state
import inst_check
import inst_common

ASSUMPTIONS = [
    "theorems: class tables without do_not_copy=True classes and without plain subclasses; callbacks and default factories embed no heap references; the C02 conclusion has an extra disjunct for class-level default objects reached through getattr's class-attribute fallback (instance dict lacking the attribute: not produced by the API)",
    "oracle: structural sharing between result and receiver (canonical object graphs of the implementation) right after every copy-on-write call / deepcopy; this is stronger than visibility of later in-place mutations, which the follow-up operations of every history exercise through the model correspondence",
    "the targeted histories also report oracle bit 32 (an instance holds a class-level default object itself): the oracle chain stops at the first failing operation, and two instances holding the same class-level object is the root cause of the result/receiver sharing that bit 4 would report on a later reset",
    "oracles evaluated in Python on the same observed graphs: a copy-on-write call that must produce a copy (a real value given, a transform, an element helper, reset) does not hand back the receiver itself; a do_not_copy attribute not addressed by the call is held by identity in the copy unless the call invalidates it (receivers of K2, its spec subclass K3 and its PLAIN subclass K4)",
    "plain subclasses (K4 = plain subclass of K2, flavour='plain'): correspondence and oracles only; the theorems keep the own_metadata guard",
    "classes derived from a @spec_class(do_not_copy=True) class (the class-level flag is not inherited; spec / eager spec / plain subclasses, one and two levels, also below a do_not_copy=True class in the middle of a chain, as receiver and nested in a holder): implementation-level probe dnc_parent_probe whose oracle is the property statement evaluated in Python (distinct result, no shared mutable object outside declared do_not_copy attributes and the caller's arguments, in-place follow-ups invisible across); not a Coq evaluation — do_not_copy=True classes are outside the model",
    "observation: instances are observed through their dictionaries AND through getattr of every managed attribute (inst_common.GETATTR_VIEW): an attribute absent from the instance dictionary whose read falls back to a mutable class-level default object counts as held by the instance, so result / receiver / new instances that merely READ the same class-level list share it (Coq oracle bits 4 and 32, Python-side oracle class-default-shared); tables with literal mutable defaults declared Attr(default=[...], invalidated_by=[...]) and histories aimed at them (gen_case_inv)",
    "instance state outside the declared attributes (private attributes from __post_init__ / own __init__ / plain-subclass __init__ / late assignment, attrs_skip attributes, spec_property and cached_property caches, overridable-property and Alias overrides, bound methods; spec classes, spec and plain subclasses; as receiver and nested in a holder): implementation-level probe c02_state.private_state_probe whose oracle is the property statement evaluated in Python (identity-disjointness of everything reachable through vars() and getattr of result and receiver except declared do_not_copy attributes and the caller's arguments, then in-place follow-ups on both sides); not a Coq evaluation -- the model has declared attributes only",
    "KeyedList / KeyedSet attributes of keyed spec items (items holding their own KeyedList; Dict of KeyedList, List of KeyedSet; keyed spec class, plain and spec subclass; as receiver and nested in a holder as value / list element / dict value / KeyedList item / KeyedSet item): implementation-level probe c02_keyed.keyed_container_probe whose oracle is the property statement evaluated in Python (identity-disjointness of everything reachable from result and receiver INCLUDING the containers' private _list / _dict and the items returned by by-key and by-position lookups, coherence c[key] is c[index] is c.get(key) on both sides, in-place follow-ups through by-key lookups on both sides); not a Coq evaluation -- keyed containers are outside the model",
    "exempt: objects reachable from arguments of the call, values of do_not_copy attributes (and what they reach), the receiver itself when a no-op form returns it",
    "class grammar as C01 plus identity item preparers on List/Dict of spec instances and more do_not_copy attributes; KeyedList/KeyedSet attributes and do_not_copy=True classes are outside the model",
]
GENS = [
    (3, dict(bad_rate=0.1, inplace_rate=0.0, fail_rate=0.0)),
    (2, dict(bad_rate=0.1, inplace_rate=0.1, fail_rate=0.0, flavour="plain")),
    (2, dict(bad_rate=0.1, inplace_rate=0.35, fail_rate=0.05, prefer_nested=True)),
]


def dnc_subclass_probe(chk, extra):
    """implementation-only (the class grammar of inst_common cannot give a spec subclass a
    do_not_copy list that differs from its parent's): an inherited attribute listed in the
    subclass's do_not_copy, re-defaulted or not, is carried by identity into every copy"""
    import copy
    from typing import Dict, List

    from spec_classes import spec_class
    n = bad = 0
    for redefault in (True, False):
        P = spec_class(type("P", (), {"__annotations__": {"xs": List[int], "d": Dict[str, int], "n": int, "ys": List[int]},
                                      "xs": [1], "d": {}, "n": 0, "ys": [5],
                                      "__module__": "verif_generated", "__qualname__": "P"}))
        body = {"__module__": "verif_generated", "__qualname__": "Q"}
        if redefault:
            body["xs"] = [2]
        Q = spec_class(do_not_copy=["xs", "d"])(type("Q", (P,), body))
        q = Q().with_xs([7, 8, 9], _inplace=True)
        derived = [("deepcopy", lambda: copy.deepcopy(q)), ("with_n", lambda: q.with_n(3)), ("update", lambda: q.update(n=1)),
                   ("transform", lambda: q.transform(n=lambda v: v + 1)), ("reset_n", lambda: q.reset_n()),
                   ("with_y", lambda: q.with_y(4)), ("without_y", lambda: q.without_y(0, _by_index=True))]
        for name, f in derived:
            r = f()
            n += 1
            ok = r is not q and r.xs is q.xs and r.d is q.d and r.ys is not q.ys
            if not ok:
                bad += 1
                chk.violation("do_not_copy attribute of a spec subclass is duplicated (or a copied one shared) by %s" % name,
                              {"kind": "dnc-subclass", "redefault": redefault, "call": name,
                               "xs_same": r.xs is q.xs, "d_same": r.d is q.d, "ys_distinct": r.ys is not q.ys},
                              sig={"kind": "dnc-subclass"})
    extra["dnc_subclass_probe"] = {"cases": n, "failing": bad}


def derive_all(obj):
    import copy
    return [("deepcopy", lambda: copy.deepcopy(obj)), ("with_n", lambda: obj.with_n(3)), ("update", lambda: obj.update(n=1)),
            ("transform", lambda: obj.transform(n=lambda v: v + 1)), ("reset_n", lambda: obj.reset_n()),
            ("update_n", lambda: obj.update_n(5))]


def dnc_family_probe(chk, extra):
    """implementation-only: the do_not_copy behaviour of a class does not depend on which of its
    spec subclasses have been bootstrapped.  Parent P and sibling S instances are derived from
    before and after the subclass Q (different do_not_copy list for inherited attributes) is first
    used; both directions (parent copies / child shares, parent shares / child copies); lazy and
    eager bootstrap; and the same for a plain subclass of each of them."""
    n = bad = 0
    for eager in (False, True):
        for parent_dnc, child_dnc in (((), ("xs", "ks")), (("xs", "ks"), ()), (("xs",), ("ks",))):
            K, P, Q, S = c02_gen.dnc_family(parent_dnc, child_dnc, eager)
            for first_use in ("before", "after"):
                members = [(P, parent_dnc), (S, ()), (Q, child_dnc)]
                # a PLAIN (undecorated) subclass of each member behaves like the member
                members += [(type("Plain" + c.__name__, (c,), {"__module__": "verif_generated"}), d) for c, d in members]
                for cls, dnc in members:
                    if first_use == "before" and issubclass(cls, Q):
                        continue
                    obj = cls(xs=[1, 2], ks=[K("a")])
                    for name, f in derive_all(obj):
                        r = f()
                        n += 1
                        ok = r is not obj
                        for a in ("xs", "ks"):
                            same = getattr(r, a) is getattr(obj, a)
                            ok = ok and (same if a in dnc else not same)
                        if "ks" not in dnc:
                            ok = ok and all(x is not y for x in r.ks for y in obj.ks)
                        if not ok:
                            bad += 1
                            if bad <= 4:
                                chk.violation("do_not_copy declaration of class %s not honoured by %s (%s its spec subclass was first used): shared xs=%s ks=%s, declared do_not_copy=%s"
                                              % (cls.__name__, name, first_use, r.xs is obj.xs, r.ks is obj.ks, list(dnc)),
                                              {"kind": "dnc-family", "eager": eager, "parent_dnc": list(parent_dnc),
                                               "child_dnc": list(child_dnc), "class": cls.__name__, "call": name,
                                               "when": first_use}, sig={"kind": "dnc-family"})
                if first_use == "before":
                    Q(xs=[0], ks=[])        # first use of the subclass (lazy bootstrap happens here)
    extra["dnc_family_probe"] = {"cases": n, "failing": bad}


DNC_PARENT_DECLS = (None, False, ("entries",), ("values", "table"), ("entries", "reg", "values", "inner", "items"))
ATTRS10 = ("label", "entries", "reg", "ks", "count", "values", "table", "inner", "tags", "items")


def _dp_make(cls, K, mode="ctor"):
    """a receiver with every attribute set to freshly built values (constructor, or in-place helpers)"""
    kw = dict(label="l", entries=[7, 8], reg={"a": 1}, ks=[K("z", marks=[1])], count=1, values=[1, 2],
              table={"a": [1], "b": []}, inner=K("i", marks=[2]), tags={1, 2}, items=[K("a", marks=[5]), K("b")])
    if mode == "ctor":
        return cls(**kw)
    o = cls(inner=K("first"))
    for a, v in kw.items():
        getattr(o, "with_" + a)(v, _inplace=True)
    return o


def _dp_calls(K, arg):
    """(name, call, attributes the call addresses ('*': all)); `arg` records the mutable objects the
    caller hands to the call (exempt from the sharing oracle)"""
    import copy

    def inc(v):
        return v + 1
    return [
        ("deepcopy", lambda o: copy.deepcopy(o), ()),
        ("with_count(3)", lambda o: o.with_count(3), ("count",)),
        ("with_label('z')", lambda o: o.with_label("z"), ("label",)),
        ("update_count(4)", lambda o: o.update_count(4), ("count",)),
        ("transform_count(+1)", lambda o: o.transform_count(inc), ("count",)),
        ("reset_count()", lambda o: o.reset_count(), ("count",)),
        ("with_values(new)", lambda o: o.with_values(arg([5, 6])), ("values",)),
        ("with_entries(new)", lambda o: o.with_entries(arg([8])), ("entries",)),
        ("with_reg(new)", lambda o: o.with_reg(arg({"n": 1})), ("reg",)),
        ("with_table(new)", lambda o: o.with_table(arg({"n": arg([1])})), ("table",)),
        ("with_inner(new)", lambda o: o.with_inner(arg(K("n", marks=arg([1])))), ("inner",)),
        ("with_tags(new)", lambda o: o.with_tags(arg({4})), ("tags",)),
        ("with_items(new)", lambda o: o.with_items(arg([arg(K("n"))])), ("items",)),
        ("update_values(new)", lambda o: o.update_values(arg([9])), ("values",)),
        ("transform_values(copy+[9])", lambda o: o.transform_values(lambda v: list(v) + [9]), ("values",)),
        ("transform_entries(copy+[9])", lambda o: o.transform_entries(lambda v: list(v) + [9]), ("entries",)),
        ("update_inner(marks=new)", lambda o: o.update_inner(marks=arg([9])), ("inner",)),
        ("transform_inner(marks=copy+[1])", lambda o: o.transform_inner(marks=lambda m: list(m) + [1]), ("inner",)),
        ("reset_values()", lambda o: o.reset_values(), ("values",)),
        ("reset_entries()", lambda o: o.reset_entries(), ("entries",)),
        ("reset_inner()", lambda o: o.reset_inner(), ("inner",)),
        ("reset_table()", lambda o: o.reset_table(), ("table",)),
        ("with_value(5)", lambda o: o.with_value(5), ("values",)),
        ("with_value(5, _index=0, _insert=True)", lambda o: o.with_value(5, _index=0, _insert=True), ("values",)),
        ("transform_value(0, +1)", lambda o: o.transform_value(0, inc, _by_index=True), ("values",)),
        ("without_value(0)", lambda o: o.without_value(0, _by_index=True), ("values",)),
        ("with_entry(9)", lambda o: o.with_entry(9), ("entries",)),
        ("transform_entry(0, +1)", lambda o: o.transform_entry(0, inc, _by_index=True), ("entries",)),
        ("without_entry(0)", lambda o: o.without_entry(0, _by_index=True), ("entries",)),
        ("with_reg_item('k', 1)", lambda o: o.with_reg_item("k", 1), ("reg",)),
        ("transform_reg_item('a', +1)", lambda o: o.transform_reg_item("a", inc), ("reg",)),
        ("without_reg_item('a')", lambda o: o.without_reg_item("a"), ("reg",)),
        ("with_table_item('k', new)", lambda o: o.with_table_item("k", arg([1])), ("table",)),
        ("transform_table_item('a', copy+[1])", lambda o: o.transform_table_item("a", lambda v: list(v) + [1]), ("table",)),
        ("without_table_item('a')", lambda o: o.without_table_item("a"), ("table",)),
        ("with_tag(5)", lambda o: o.with_tag(5), ("tags",)),
        ("without_tag(1)", lambda o: o.without_tag(1), ("tags",)),
        ("with_item('c', marks=new)", lambda o: o.with_item("c", marks=arg([3])), ("items",)),
        ("with_item(new K)", lambda o: o.with_item(arg(K("c"))), ("items",)),
        ("update_item(0, marks=new)", lambda o: o.update_item(0, marks=arg([3])), ("items",)),
        ("transform_item(0, marks=copy+[1])", lambda o: o.transform_item(0, marks=lambda m: list(m) + [1]), ("items",)),
        ("without_item(0)", lambda o: o.without_item(0), ("items",)),
        ("with_k('q')", lambda o: o.with_k("q"), ("ks",)),
        ("update_k(0, marks=new)", lambda o: o.update_k(0, marks=arg([1])), ("ks",)),
        ("without_k(0)", lambda o: o.without_k(0), ("ks",)),
        ("update(count=7)", lambda o: o.update(count=7), ("count",)),
        ("update(values=new, label='q')", lambda o: o.update(values=arg([1]), label="q"), ("values", "label")),
        ("transform(count=+1)", lambda o: o.transform(count=inc), ("count",)),
        ("transform(values=copy+[1])", lambda o: o.transform(values=lambda v: list(v) + [1]), ("values",)),
        ("reset()", lambda o: o.reset(), ("*",)),
    ]


def _dp_holder_calls(cls, K, arg):
    """helpers of a class holding instances of `cls` as nested value, list elements and dict values;
    third component: the nested instances are copied whole (their do_not_copy attributes carried)"""
    import copy

    def inc(v):
        return v + 1

    def new():
        return arg(_dp_make(cls, K))
    return [
        ("deepcopy", lambda h: copy.deepcopy(h), True),
        ("with_n(2)", lambda h: h.with_n(2), True),
        ("update(n=1)", lambda h: h.update(n=1), True),
        ("transform(n=+1)", lambda h: h.transform(n=inc), True),
        ("with_kid(new)", lambda h: h.with_kid(new()), False),
        ("update_kid(count=3)", lambda h: h.update_kid(count=3), False),
        ("update_kid(values=new)", lambda h: h.update_kid(values=arg([4])), False),
        ("transform_kid(count=+1)", lambda h: h.transform_kid(count=inc), False),
        ("reset_kid()", lambda h: h.reset_kid(), False),
        ("with_kids_item(new)", lambda h: h.with_kids_item(new()), False),
        ("update_kids_item(0, count=5)", lambda h: h.update_kids_item(0, count=5), False),
        ("transform_kids_item(0, label=+'!')", lambda h: h.transform_kids_item(0, label=lambda s: s + "!"), False),
        ("without_kids_item(0)", lambda h: h.without_kids_item(0), False),
        ("with_lookup_item('c', new)", lambda h: h.with_lookup_item("c", new()), False),
        ("update_lookup_item('a', count=2)", lambda h: h.update_lookup_item("a", count=2), False),
        ("transform_lookup_item('a', count=+1)", lambda h: h.transform_lookup_item("a", count=inc), False),
        ("without_lookup_item('a')", lambda h: h.without_lookup_item("a"), False),
        ("update(kid=new)", lambda h: h.update(kid=new()), False),
        ("reset()", lambda h: h.reset(), False),
    ]


def _dp_poke(x, K):
    """in-place changes of a member instance at every depth: helpers with _inplace=True and direct
    mutation of nested containers / nested spec instances"""
    ops = [lambda: x.with_count(99, _inplace=True), lambda: x.with_label("poked", _inplace=True),
           lambda: x.with_value(99, _inplace=True), lambda: x.with_entry(99, _inplace=True),
           lambda: x.with_reg_item("zz", 99, _inplace=True), lambda: x.with_table_item("zz", [99], _inplace=True),
           lambda: [v.append(98) for v in x.table.values()], lambda: x.with_tag(99, _inplace=True),
           lambda: x.inner.with_mark(99, _inplace=True), lambda: x.update_inner(name="poked", _inplace=True),
           lambda: x.with_item("pk", _inplace=True), lambda: x.update_item(0, marks=[97], _inplace=True),
           lambda: [k.marks.append(96) for k in list(x.items) + list(x.ks)], lambda: x.with_k("pk", _inplace=True)]
    skipped = 0
    for f in ops:
        try:
            f()
        except (AttributeError, IndexError, KeyError):
            skipped += 1            # the attribute was removed by a reset / the collection is empty
    return skipped


def dnc_parent_probe(chk, extra, only=None):
    """implementation-only (do_not_copy=True classes are outside the model, and inst_common cannot
    give a subclass a do_not_copy declaration of its own): the class-level do_not_copy=True flag of
    a class is NOT inherited by the classes derived from it.  Receivers: spec subclass (bare
    @spec_class, do_not_copy=False, do_not_copy=[inherited and own attributes]), spec / eager spec /
    plain subclasses of that, a spec subclass of a plain subclass of the parent, and classes below a
    do_not_copy=True class in the middle of the chain; before and after that middle class is first
    used; lazy and eager bootstrap; receivers built by the constructor and by in-place helpers; and
    the same instances nested in a holder (value, list elements, dict values).
    Oracle (the property statement): every copy-on-write helper kind and deepcopy returns a distinct
    object; no mutable object is reachable from both result and receiver except the values of
    attributes the receiver's class declares do_not_copy and the caller's own arguments; declared
    do_not_copy attributes not addressed by the call are held by identity; in-place changes of the
    result at every depth are invisible through the receiver and vice versa."""
    n = bad = raised = pokes_skipped = 0
    args = []

    def arg(x):
        args.append(x)
        return x

    def report(reasons, info):
        nonlocal bad
        bad += 1
        if bad <= 4:
            chk.violation("C02 violated by the implementation: %s on an instance of %s (%s; derived from a "
                          "@spec_class(do_not_copy=True) class, declared do_not_copy attributes: %s): %s"
                          % (info["call"], info["class"], info["nesting"], info["declared"], "; ".join(reasons)),
                          dict(info, kind="dnc-parent", reasons=reasons), sig={"kind": "dnc-parent"})

    configs = [(e, d) for e in (False, True) for d in DNC_PARENT_DECLS]
    if only is not None:
        configs = [c for c in configs if c == only]
    for eager, decl in configs:
        K, holder, TrueSub, members = c02_gen.dnc_parent_family(eager, decl)
        calls = _dp_calls(K, arg)
        # eager bootstrap: every class is complete at definition, one pass is enough
        for when in (("after",) if eager else ("before", "after")):
            for cls, dnc in members:
                if when == "before" and issubclass(cls, TrueSub):
                    continue
                info0 = {"eager": eager, "child_decl": list(decl) if isinstance(decl, tuple) else decl,
                         "class": cls.__name__, "declared": list(dnc), "when": when}
                # ---- the instance itself is the receiver
                for ci, (name, call, touched) in enumerate(calls):
                    mode = "ctor" if (ci + (when == "after")) % 2 == 0 else "inplace"
                    o = _dp_make(cls, K, mode)
                    del args[:]
                    n += 1
                    try:
                        r = call(o)
                    except Exception as e:      # not this property (C01/C04...); counted, must stay 0 on /repo
                        raised += 1
                        extra.setdefault("dnc_parent_raised", []).append("%s.%s: %r" % (cls.__name__, name, e))
                        continue
                    so, sr = vars(o), vars(r)
                    reasons = []
                    if r is o:
                        reasons.append("the result is the receiver itself")
                    exempt = [so[a] for a in dnc if a in so] + list(args)
                    shared = c02_gen.shared_objects(r, o, exempt)
                    if shared and r is not o:
                        reasons.append("%d mutable object(s) reachable from both result and receiver, e.g. %s"
                                       % (len(shared), repr(shared[0])[:80]))
                    for a in dnc:
                        if "*" not in touched and a not in touched and a in so and (a not in sr or sr[a] is not so[a]):
                            reasons.append("do_not_copy attribute %s duplicated" % a)
                    if not reasons:
                        before = c02_gen.canon(o, skip=dnc)
                        pokes_skipped += _dp_poke(r, K)
                        if c02_gen.canon(o, skip=dnc) != before:
                            reasons.append("in-place changes of the result are visible through the receiver")
                        before = c02_gen.canon(r, skip=dnc)
                        pokes_skipped += _dp_poke(o, K)
                        if c02_gen.canon(r, skip=dnc) != before:
                            reasons.append("in-place changes of the receiver are visible through the result")
                    if reasons:
                        report(reasons, dict(info0, call=name, nesting="receiver, built by " + mode))
                # ---- instances nested in a copy-on-write holder
                H = holder(cls)
                for name, call, whole in _dp_holder_calls(cls, K, arg):
                    h = H(kid=_dp_make(cls, K), kids=[_dp_make(cls, K), _dp_make(cls, K, "inplace")],
                          lookup={"a": _dp_make(cls, K), "b": _dp_make(cls, K)})
                    del args[:]
                    n += 1
                    try:
                        r = call(h)
                    except Exception as e:
                        raised += 1
                        extra.setdefault("dnc_parent_raised", []).append("Holder[%s].%s: %r" % (cls.__name__, name, e))
                        continue
                    nested = [h.kid] + list(h.kids) + list(h.lookup.values())
                    reasons = []
                    if r is h:
                        reasons.append("the result is the receiver itself")
                    exempt = [vars(x)[a] for x in nested for a in dnc if a in vars(x)] + list(args)
                    shared = c02_gen.shared_objects(r, h, exempt)
                    if shared and r is not h:
                        reasons.append("%d mutable object(s) reachable from both result and receiver, e.g. %s"
                                       % (len(shared), repr(shared[0])[:80]))
                    if whole and r is not h:
                        pairs = [(h.kid, r.kid)] + list(zip(h.kids, r.kids)) + [(h.lookup[k], r.lookup[k]) for k in h.lookup]
                        for x, y in pairs:
                            if x is y:
                                continue
                            for a in dnc:
                                if vars(y).get(a) is not vars(x)[a]:
                                    reasons.append("do_not_copy attribute %s of a nested instance duplicated" % a)
                    if not reasons:
                        before = c02_gen.canon(h, skip=dnc, skip_cls=cls)
                        for x in [vars(r).get("kid")] + list(vars(r).get("kids", [])) + list(vars(r).get("lookup", {}).values()):
                            if x is not None and not any(x is a for a in args):
                                pokes_skipped += _dp_poke(x, K)
                        if c02_gen.canon(h, skip=dnc, skip_cls=cls) != before:
                            reasons.append("in-place changes of the instances nested in the result are visible through the receiver")
                        before = c02_gen.canon(r, skip=dnc, skip_cls=cls)
                        for x in nested:
                            pokes_skipped += _dp_poke(x, K)
                        if c02_gen.canon(r, skip=dnc, skip_cls=cls) != before:
                            reasons.append("in-place changes of the instances nested in the receiver are visible through the result")
                    if reasons:
                        report(reasons, dict(info0, call=name, nesting="nested in a holder: value, list elements, dict values"))
            if when == "before":
                TrueSub(inner=K("t"))          # first use of the do_not_copy=True class in the middle of the chain
    extra["dnc_parent_probe"] = {"cases": n, "failing": bad, "raised": raised, "inplace_followups_skipped": pokes_skipped,
                                 "configurations": len(configs),
                                 "rule": "implementation only: classes derived (one / two levels, spec / eager spec / plain) "
                                         "from a @spec_class(do_not_copy=True) class are copy-on-write and deep-copied: result distinct, "
                                         "shares only declared do_not_copy attribute values and the caller's arguments; every helper kind, "
                                         "deepcopy, as receiver and nested in a holder; in-place follow-ups on both sides"}


def survivor_probe(chk, extra):
    """implementation-only: reset() / reset_<attr>() on a copy when the reset of one attribute is
    abandoned (its preparer needs an attribute that has no default and was removed first, so
    re-preparing the default raises AttributeError, which reset() swallows): the surviving value
    must be the copy's own object.  Oracle: no mutable object reachable from both result and receiver."""
    from typing import Dict, List

    from spec_classes import spec_class
    K = spec_class(key="name")(type("K", (), {"__annotations__": {"name": str, "w": int}, "w": 0,
                                              "__module__": "verif_generated", "__qualname__": "K"}))

    def prep_list(self, v):
        s = self.scale
        return [x * s for x in v]

    def prep_ks(self, v):
        s = self.scale
        return [k.with_w(k.w * s) for k in v]

    def prep_d(self, v):
        s = self.scale
        return {k: x * s for k, x in v.items()}

    def prep_k(self, v):
        s = self.scale
        return v.with_w(v.w * s) if isinstance(v, K) else v
    n = bad = 0
    for order in ("scale_first",):
        ann = {"scale": int, "xs": List[int], "ks": List[K], "d": Dict[str, int], "k": K}
        if order == "scale_last":
            ann = dict(list(ann.items())[1:] + [("scale", int)])
        C = spec_class(type("C", (), {"__annotations__": ann, "xs": [1], "ks": [], "d": {}, "k": K("z"),
                                      "_prepare_xs": prep_list, "_prepare_ks": prep_ks, "_prepare_d": prep_d,
                                      "_prepare_k": prep_k, "__module__": "verif_generated", "__qualname__": "C"}))
        recv = C(scale=2, xs=[1, 2], ks=[K("a", w=1)], d={"p": 1}, k=K("q", w=3))
        calls = [("reset", lambda: recv.reset()), ("reset_scale_then_reset", lambda: recv.reset_scale().reset())]
        for a in ("xs", "ks", "d", "k", "scale"):
            calls.append(("reset_" + a, lambda a=a: getattr(recv, "reset_" + a)()))
            calls.append(("reset_scale.reset_" + a, lambda a=a: getattr(recv.reset_scale(), "reset_" + a)()))
        for name, f in calls:
            try:
                r = f()
            except AttributeError:
                continue
            n += 1
            shared = c02_gen.shared_objects(r, recv)
            if r is recv or shared:
                bad += 1
                if bad <= 4:
                    chk.violation("C02 violated by the implementation: %s() result shares %d mutable object(s) with the receiver (an attribute whose reset was abandoned kept the receiver's own value)"
                                  % (name, len(shared)),
                                  {"kind": "reset-survivor", "order": order, "call": name,
                                   "shared": [repr(o)[:80] for o in shared], "result": repr(r)[:300]},
                                  sig={"kind": "reset-survivor"})
    extra["reset_survivor_probe"] = {"cases": n, "failing": bad}


def targeted(chk, cases, bad, extra):
    n = 225 if chk.tier == "quick" else 4000
    n_ops = 7 if chk.tier == "quick" else 10
    mine = [c02_gen.gen_case_c02(chk.rng, n_ops) for _ in range(n)]
    mine += [c02_gen.gen_case_inv(chk.rng) for _ in range(50 if chk.tier == "quick" else 1500)]
    c02_gen.report(chk, "C02", 4 | 32, mine, extra, "targeted_histories")
    c02_gen.report_python_oracles(chk, "C02", list(cases) + mine, extra, "python_oracles")
    dnc_subclass_probe(chk, extra)
    dnc_family_probe(chk, extra)
    dnc_parent_probe(chk, extra)
    survivor_probe(chk, extra)
    c02_state.private_state_probe(chk, extra, full=chk.tier != "quick")
    c02_keyed.keyed_container_probe(chk, extra, full=chk.tier != "quick")
    extra["rule"] = extra.get("rule", "") + "; targeted = receiver built from fresh arguments, optional in-place setup, copy-on-write helpers / deepcopy / no-op forms (update_<coll>(MISSING|EMPTY|UNCHANGED), update_<spec attr>(), identity transforms, with_<attr>(sentinel)), then in-place mutation of a result and of the receiver"


def main(tier, replay=None):
    # observe instances through getattr as well: a managed attribute that is absent from the instance
    # dictionary and read from a mutable class-level object counts as held by the instance
    inst_common.GETATTR_VIEW = True
    if replay:
        import json
        r = json.load(open(replay))
        probes = {"dnc-subclass": (dnc_subclass_probe, "dnc_subclass_probe"), "dnc-family": (dnc_family_probe, "dnc_family_probe"),
                  "reset-survivor": (survivor_probe, "reset_survivor_probe")}
        if r.get("kind") == "private-state":
            from common import Check
            chk, extra = Check("C02", "quick"), {}
            c02_state.private_state_probe(chk, extra, only=(bool(r.get("eager")), tuple(r.get("base_dnc") or ())), full=True)
            failing = extra["private_state_probe"]["failing"]
            print("replay:", "still failing" if failing else "passes now", extra["private_state_probe"])
            return 1 if failing else 0
        if r.get("kind") == "keyed-container":
            from common import Check
            chk, extra = Check("C02", "quick"), {}
            c02_keyed.keyed_container_probe(chk, extra, only=(bool(r.get("eager")), tuple(r.get("base_dnc") or ())), full=True)
            failing = extra["keyed_container_probe"]["failing"]
            print("replay:", "still failing" if failing else "passes now", extra["keyed_container_probe"])
            return 1 if failing else 0
        if r.get("kind") in ("receiver-returned", "dnc-duplicated", "class-default-shared"):
            import inst_common as ic
            case = inst_check.load_replay(replay)
            obs, _ = ic.run_case(case)
            found = c02_gen.python_oracles(case, obs)
            print("replay:", "still failing" if found else "passes now", found[:3])
            return 1 if found else 0
        if r.get("kind") == "dnc-parent":
            from common import Check
            chk, extra = Check("C02", "quick"), {}
            decl = r.get("child_decl")
            dnc_parent_probe(chk, extra, only=(bool(r.get("eager")), tuple(decl) if isinstance(decl, list) else decl))
            failing = extra["dnc_parent_probe"]["failing"]
            print("replay:", "still failing" if failing else "passes now", extra)
            return 1 if failing else 0
        if r.get("kind") in probes:
            from common import Check
            fn, key = probes[r["kind"]]
            chk, extra = Check("C02", "quick"), {}
            fn(chk, extra)
            print("replay:", "still failing" if extra[key]["failing"] else "passes now", extra)
            return 1 if extra[key]["failing"] else 0
        return inst_check.replay("C02", replay, 4 | 32)
    return inst_check.run("C02", tier, 4, GENS, 160, 3000, ASSUMPTIONS, post=targeted)
