"""C02 — derived copies share no mutable state with the original (do_not_copy excepted)."""
import c02_gen
import inst_check

ASSUMPTIONS = [
    "theorems: class tables without do_not_copy=True classes and without plain subclasses; callbacks and default factories embed no heap references; the C02 conclusion has an extra disjunct for class-level default objects reached through getattr's class-attribute fallback (instance dict lacking the attribute: not produced by the API)",
    "oracle: structural sharing between result and receiver (canonical object graphs of the implementation) right after every copy-on-write call / deepcopy; this is stronger than visibility of later in-place mutations, which the follow-up operations of every history exercise through the model correspondence",
    "the targeted histories also report oracle bit 32 (an instance holds a class-level default object itself): the oracle chain stops at the first failing operation, and two instances holding the same class-level object is the root cause of the result/receiver sharing that bit 4 would report on a later reset",
    "exempt: objects reachable from arguments of the call, values of do_not_copy attributes (and what they reach), the receiver itself when a no-op form returns it",
    "class grammar as C01 plus identity item preparers on List/Dict of spec instances and more do_not_copy attributes; KeyedList/KeyedSet attributes and do_not_copy=True classes are outside the model",
]
GENS = [
    (3, dict(bad_rate=0.1, inplace_rate=0.0, fail_rate=0.0)),
    (2, dict(bad_rate=0.1, inplace_rate=0.35, fail_rate=0.05, prefer_nested=True)),
]


def targeted(chk, cases, bad, extra):
    n = 260 if chk.tier == "quick" else 4000
    n_ops = 7 if chk.tier == "quick" else 10
    mine = [c02_gen.gen_case_c02(chk.rng, n_ops) for _ in range(n)]
    c02_gen.report(chk, "C02", 4 | 32, mine, extra, "targeted_histories")
    extra["rule"] = extra.get("rule", "") + "; targeted = receiver built from fresh arguments, optional in-place setup, copy-on-write helpers / deepcopy / no-op forms (update_<coll>(MISSING|EMPTY|UNCHANGED), update_<spec attr>(), identity transforms, with_<attr>(sentinel)), then in-place mutation of a result and of the receiver"


def main(tier, replay=None):
    if replay:
        return inst_check.replay("C02", replay, 4 | 32)
    return inst_check.run("C02", tier, 4, GENS, 160, 3000, ASSUMPTIONS, post=targeted)
