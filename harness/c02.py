"""C02 — derived copies share no mutable state with the original (do_not_copy excepted)."""
import c02_gen
import inst_check

ASSUMPTIONS = [
    "theorems: class tables without do_not_copy=True classes and without plain subclasses; callbacks and default factories embed no heap references; the C02 conclusion has an extra disjunct for class-level default objects reached through getattr's class-attribute fallback (instance dict lacking the attribute: not produced by the API)",
    "oracle: structural sharing between result and receiver (canonical object graphs of the implementation) right after every copy-on-write call / deepcopy; this is stronger than visibility of later in-place mutations, which the follow-up operations of every history exercise through the model correspondence",
    "the targeted histories also report oracle bit 32 (an instance holds a class-level default object itself): the oracle chain stops at the first failing operation, and two instances holding the same class-level object is the root cause of the result/receiver sharing that bit 4 would report on a later reset",
    "exempt: objects reachable from arguments of the call, values of do_not_copy attributes (and what they reach), the receiver itself when a no-op form returns it",
    "class grammar as C01 plus identity item preparers on List/Dict of spec instances and more do_not_copy attributes; KeyedList/KeyedSet attributes and do_not_copy=True classes are outside the model",
]
GENS = [
    (3, dict(bad_rate=0.1, inplace_rate=0.0, fail_rate=0.0)),
    (2, dict(bad_rate=0.1, inplace_rate=0.35, fail_rate=0.05, prefer_nested=True)),
]


def dnc_subclass_probe(chk, extra):
    """implementation-only (the class grammar of inst_common cannot give a spec subclass a
    do_not_copy list that differs from its parent's): an inherited attribute listed in the
    subclass's do_not_copy, re-defaulted or not, is carried by identity into every copy"""
    import copy
    from typing import Dict, List

    from spec_classes import spec_class
    n = bad = 0
    for redefault in (True, False):
        P = spec_class(type("P", (), {"__annotations__": {"xs": List[int], "d": Dict[str, int], "n": int, "ys": List[int]},
                                      "xs": [1], "d": {}, "n": 0, "ys": [5],
                                      "__module__": "verif_generated", "__qualname__": "P"}))
        body = {"__module__": "verif_generated", "__qualname__": "Q"}
        if redefault:
            body["xs"] = [2]
        Q = spec_class(do_not_copy=["xs", "d"])(type("Q", (P,), body))
        q = Q().with_xs([7, 8, 9], _inplace=True)
        derived = [("deepcopy", lambda: copy.deepcopy(q)), ("with_n", lambda: q.with_n(3)), ("update", lambda: q.update(n=1)),
                   ("transform", lambda: q.transform(n=lambda v: v + 1)), ("reset_n", lambda: q.reset_n()),
                   ("with_y", lambda: q.with_y(4)), ("without_y", lambda: q.without_y(0, _by_index=True))]
        for name, f in derived:
            r = f()
            n += 1
            ok = r is not q and r.xs is q.xs and r.d is q.d and r.ys is not q.ys
            if not ok:
                bad += 1
                chk.violation("do_not_copy attribute of a spec subclass is duplicated (or a copied one shared) by %s" % name,
                              {"kind": "dnc-subclass", "redefault": redefault, "call": name,
                               "xs_same": r.xs is q.xs, "d_same": r.d is q.d, "ys_distinct": r.ys is not q.ys},
                              sig={"kind": "dnc-subclass"})
    extra["dnc_subclass_probe"] = {"cases": n, "failing": bad}


def targeted(chk, cases, bad, extra):
    n = 260 if chk.tier == "quick" else 4000
    n_ops = 7 if chk.tier == "quick" else 10
    mine = [c02_gen.gen_case_c02(chk.rng, n_ops) for _ in range(n)]
    c02_gen.report(chk, "C02", 4 | 32, mine, extra, "targeted_histories")
    dnc_subclass_probe(chk, extra)
    extra["rule"] = extra.get("rule", "") + "; targeted = receiver built from fresh arguments, optional in-place setup, copy-on-write helpers / deepcopy / no-op forms (update_<coll>(MISSING|EMPTY|UNCHANGED), update_<spec attr>(), identity transforms, with_<attr>(sentinel)), then in-place mutation of a result and of the receiver"


def main(tier, replay=None):
    if replay:
        import json
        r = json.load(open(replay))
        if r.get("kind") == "dnc-subclass":
            from common import Check
            chk, extra = Check("C02", "quick"), {}
            dnc_subclass_probe(chk, extra)
            print("replay:", "still failing" if extra["dnc_subclass_probe"]["failing"] else "passes now", extra)
            return 1 if extra["dnc_subclass_probe"]["failing"] else 0
        return inst_check.replay("C02", replay, 4 | 32)
    return inst_check.run("C02", tier, 4, GENS, 160, 3000, ASSUMPTIONS, post=targeted)
