"""C02 — derived copies share no mutable state with the original (do_not_copy excepted)."""
import c02_gen
import inst_check

ASSUMPTIONS = [
    "theorems: class tables without do_not_copy=True classes and without plain subclasses; callbacks and default factories embed no heap references; the C02 conclusion has an extra disjunct for class-level default objects reached through getattr's class-attribute fallback (instance dict lacking the attribute: not produced by the API)",
    "oracle: structural sharing between result and receiver (canonical object graphs of the implementation) right after every copy-on-write call / deepcopy; this is stronger than visibility of later in-place mutations, which the follow-up operations of every history exercise through the model correspondence",
    "the targeted histories also report oracle bit 32 (an instance holds a class-level default object itself): the oracle chain stops at the first failing operation, and two instances holding the same class-level object is the root cause of the result/receiver sharing that bit 4 would report on a later reset",
    "oracles evaluated in Python on the same observed graphs: a copy-on-write call that must produce a copy (a real value given, a transform, an element helper, reset) does not hand back the receiver itself; a do_not_copy attribute not addressed by the call is held by identity in the copy (receivers of K2, its spec subclass K3 and its PLAIN subclass K4)",
    "plain subclasses (K4 = plain subclass of K2, flavour='plain'): correspondence and oracles only; the theorems keep the own_metadata guard",
    "exempt: objects reachable from arguments of the call, values of do_not_copy attributes (and what they reach), the receiver itself when a no-op form returns it",
    "class grammar as C01 plus identity item preparers on List/Dict of spec instances and more do_not_copy attributes; KeyedList/KeyedSet attributes and do_not_copy=True classes are outside the model",
]
GENS = [
    (3, dict(bad_rate=0.1, inplace_rate=0.0, fail_rate=0.0)),
    (2, dict(bad_rate=0.1, inplace_rate=0.1, fail_rate=0.0, flavour="plain")),
    (2, dict(bad_rate=0.1, inplace_rate=0.35, fail_rate=0.05, prefer_nested=True)),
]


def dnc_subclass_probe(chk, extra):
    """implementation-only (the class grammar of inst_common cannot give a spec subclass a
    do_not_copy list that differs from its parent's): an inherited attribute listed in the
    subclass's do_not_copy, re-defaulted or not, is carried by identity into every copy"""
    import copy
    from typing import Dict, List

    from spec_classes import spec_class
    n = bad = 0
    for redefault in (True, False):
        P = spec_class(type("P", (), {"__annotations__": {"xs": List[int], "d": Dict[str, int], "n": int, "ys": List[int]},
                                      "xs": [1], "d": {}, "n": 0, "ys": [5],
                                      "__module__": "verif_generated", "__qualname__": "P"}))
        body = {"__module__": "verif_generated", "__qualname__": "Q"}
        if redefault:
            body["xs"] = [2]
        Q = spec_class(do_not_copy=["xs", "d"])(type("Q", (P,), body))
        q = Q().with_xs([7, 8, 9], _inplace=True)
        derived = [("deepcopy", lambda: copy.deepcopy(q)), ("with_n", lambda: q.with_n(3)), ("update", lambda: q.update(n=1)),
                   ("transform", lambda: q.transform(n=lambda v: v + 1)), ("reset_n", lambda: q.reset_n()),
                   ("with_y", lambda: q.with_y(4)), ("without_y", lambda: q.without_y(0, _by_index=True))]
        for name, f in derived:
            r = f()
            n += 1
            ok = r is not q and r.xs is q.xs and r.d is q.d and r.ys is not q.ys
            if not ok:
                bad += 1
                chk.violation("do_not_copy attribute of a spec subclass is duplicated (or a copied one shared) by %s" % name,
                              {"kind": "dnc-subclass", "redefault": redefault, "call": name,
                               "xs_same": r.xs is q.xs, "d_same": r.d is q.d, "ys_distinct": r.ys is not q.ys},
                              sig={"kind": "dnc-subclass"})
    extra["dnc_subclass_probe"] = {"cases": n, "failing": bad}


def derive_all(obj):
    import copy
    return [("deepcopy", lambda: copy.deepcopy(obj)), ("with_n", lambda: obj.with_n(3)), ("update", lambda: obj.update(n=1)),
            ("transform", lambda: obj.transform(n=lambda v: v + 1)), ("reset_n", lambda: obj.reset_n()),
            ("update_n", lambda: obj.update_n(5))]


def dnc_family_probe(chk, extra):
    """implementation-only: the do_not_copy behaviour of a class does not depend on which of its
    spec subclasses have been bootstrapped.  Parent P and sibling S instances are derived from
    before and after the subclass Q (different do_not_copy list for inherited attributes) is first
    used; both directions (parent copies / child shares, parent shares / child copies); lazy and
    eager bootstrap; and the same for a plain subclass of each of them."""
    n = bad = 0
    for eager in (False, True):
        for parent_dnc, child_dnc in (((), ("xs", "ks")), (("xs", "ks"), ()), (("xs",), ("ks",))):
            K, P, Q, S = c02_gen.dnc_family(parent_dnc, child_dnc, eager)
            for first_use in ("before", "after"):
                members = [(P, parent_dnc), (S, ()), (Q, child_dnc)]
                # a PLAIN (undecorated) subclass of each member behaves like the member
                members += [(type("Plain" + c.__name__, (c,), {"__module__": "verif_generated"}), d) for c, d in members]
                for cls, dnc in members:
                    if first_use == "before" and issubclass(cls, Q):
                        continue
                    obj = cls(xs=[1, 2], ks=[K("a")])
                    for name, f in derive_all(obj):
                        r = f()
                        n += 1
                        ok = r is not obj
                        for a in ("xs", "ks"):
                            same = getattr(r, a) is getattr(obj, a)
                            ok = ok and (same if a in dnc else not same)
                        if "ks" not in dnc:
                            ok = ok and all(x is not y for x in r.ks for y in obj.ks)
                        if not ok:
                            bad += 1
                            if bad <= 4:
                                chk.violation("do_not_copy declaration of class %s not honoured by %s (%s its spec subclass was first used): shared xs=%s ks=%s, declared do_not_copy=%s"
                                              % (cls.__name__, name, first_use, r.xs is obj.xs, r.ks is obj.ks, list(dnc)),
                                              {"kind": "dnc-family", "eager": eager, "parent_dnc": list(parent_dnc),
                                               "child_dnc": list(child_dnc), "class": cls.__name__, "call": name,
                                               "when": first_use}, sig={"kind": "dnc-family"})
                if first_use == "before":
                    Q(xs=[0], ks=[])        # first use of the subclass (lazy bootstrap happens here)
    extra["dnc_family_probe"] = {"cases": n, "failing": bad}


def survivor_probe(chk, extra):
    """implementation-only: reset() / reset_<attr>() on a copy when the reset of one attribute is
    abandoned (its preparer needs an attribute that has no default and was removed first, so
    re-preparing the default raises AttributeError, which reset() swallows): the surviving value
    must be the copy's own object.  Oracle: no mutable object reachable from both result and receiver."""
    from typing import Dict, List

    from spec_classes import spec_class
    K = spec_class(key="name")(type("K", (), {"__annotations__": {"name": str, "w": int}, "w": 0,
                                              "__module__": "verif_generated", "__qualname__": "K"}))

    def prep_list(self, v):
        s = self.scale
        return [x * s for x in v]

    def prep_ks(self, v):
        s = self.scale
        return [k.with_w(k.w * s) for k in v]

    def prep_d(self, v):
        s = self.scale
        return {k: x * s for k, x in v.items()}

    def prep_k(self, v):
        s = self.scale
        return v.with_w(v.w * s) if isinstance(v, K) else v
    n = bad = 0
    for order in ("scale_first",):
        ann = {"scale": int, "xs": List[int], "ks": List[K], "d": Dict[str, int], "k": K}
        if order == "scale_last":
            ann = dict(list(ann.items())[1:] + [("scale", int)])
        C = spec_class(type("C", (), {"__annotations__": ann, "xs": [1], "ks": [], "d": {}, "k": K("z"),
                                      "_prepare_xs": prep_list, "_prepare_ks": prep_ks, "_prepare_d": prep_d,
                                      "_prepare_k": prep_k, "__module__": "verif_generated", "__qualname__": "C"}))
        recv = C(scale=2, xs=[1, 2], ks=[K("a", w=1)], d={"p": 1}, k=K("q", w=3))
        calls = [("reset", lambda: recv.reset()), ("reset_scale_then_reset", lambda: recv.reset_scale().reset())]
        for a in ("xs", "ks", "d", "k", "scale"):
            calls.append(("reset_" + a, lambda a=a: getattr(recv, "reset_" + a)()))
            calls.append(("reset_scale.reset_" + a, lambda a=a: getattr(recv.reset_scale(), "reset_" + a)()))
        for name, f in calls:
            try:
                r = f()
            except AttributeError:
                continue
            n += 1
            shared = c02_gen.shared_objects(r, recv)
            if r is recv or shared:
                bad += 1
                if bad <= 4:
                    chk.violation("C02 violated by the implementation: %s() result shares %d mutable object(s) with the receiver (an attribute whose reset was abandoned kept the receiver's own value)"
                                  % (name, len(shared)),
                                  {"kind": "reset-survivor", "order": order, "call": name,
                                   "shared": [repr(o)[:80] for o in shared], "result": repr(r)[:300]},
                                  sig={"kind": "reset-survivor"})
    extra["reset_survivor_probe"] = {"cases": n, "failing": bad}


def targeted(chk, cases, bad, extra):
    n = 260 if chk.tier == "quick" else 4000
    n_ops = 7 if chk.tier == "quick" else 10
    mine = [c02_gen.gen_case_c02(chk.rng, n_ops) for _ in range(n)]
    c02_gen.report(chk, "C02", 4 | 32, mine, extra, "targeted_histories")
    c02_gen.report_python_oracles(chk, "C02", list(cases) + mine, extra, "python_oracles")
    dnc_subclass_probe(chk, extra)
    dnc_family_probe(chk, extra)
    survivor_probe(chk, extra)
    extra["rule"] = extra.get("rule", "") + "; targeted = receiver built from fresh arguments, optional in-place setup, copy-on-write helpers / deepcopy / no-op forms (update_<coll>(MISSING|EMPTY|UNCHANGED), update_<spec attr>(), identity transforms, with_<attr>(sentinel)), then in-place mutation of a result and of the receiver"


def main(tier, replay=None):
    if replay:
        import json
        r = json.load(open(replay))
        probes = {"dnc-subclass": (dnc_subclass_probe, "dnc_subclass_probe"), "dnc-family": (dnc_family_probe, "dnc_family_probe"),
                  "reset-survivor": (survivor_probe, "reset_survivor_probe")}
        if r.get("kind") in ("receiver-returned", "dnc-duplicated"):
            import inst_common as ic
            case = inst_check.load_replay(replay)
            obs, _ = ic.run_case(case)
            found = c02_gen.python_oracles(case, obs)
            print("replay:", "still failing" if found else "passes now", found[:3])
            return 1 if found else 0
        if r.get("kind") in probes:
            from common import Check
            fn, key = probes[r["kind"]]
            chk, extra = Check("C02", "quick"), {}
            fn(chk, extra)
            print("replay:", "still failing" if extra[key]["failing"] else "passes now", extra)
            return 1 if extra[key]["failing"] else 0
        return inst_check.replay("C02", replay, 4 | 32)
    return inst_check.run("C02", tier, 4, GENS, 160, 3000, ASSUMPTIONS, post=targeted)
