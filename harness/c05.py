"""C05 — scalar and top-level helpers compute exactly the documented new state.

The expected state is computed by coq/Inst/SpecHelpers.v (the documentation as
pure functions over abstract values) from the abstraction of what the
implementation held before the call; it is compared, inside Coq
(coq/Corr/SpecCorr.v), with the abstraction of what the implementation holds
afterwards.  The same run ties the executable model (coq/Inst/Model.v) to the
implementation (bit 1 of Corr/InstCorr.check_case)."""
import json

import c05_common as cc
import c05_gen as g5
from common import Check

PID, SEL = "C05", 5

ASSUMPTIONS = [
    "class grammar: K1 leaf (optionally keyed / frozen), K2 node with int/str/Optional attributes, nested spec attribute, List/Dict/Set of scalars, List/Dict of (keyed) spec classes, defaults none / immutable / mutable / default_factory / Attr / dataclasses.field, attribute and item preparers, invalidated_by (one dependant, also '*'), do_not_copy attributes, K3 spec subclass with re-defaulted attribute, lazy and eager bootstrap; KeyedList/KeyedSet attributes, do_not_copy=True classes, init=False attributes and plain subclasses are outside the instance model",
    "plain (undecorated) subclasses, one and two levels, overriding inherited defaults by class attributes (scalar and mutable): 60 (quick) / 600 (thorough) histories per run with reset_<a> / del / reset() / with_ / assignment on their instances; rendered by inst_common (c_owner, c_overrides) and judged by the documentation oracle and the model tie like every other history",
    "invalidation chains (c05_gen.chain_case): 64 (quick) / 640 (thorough) histories on tables whose invalidated_by declarations form chains a -> b -> c (also of length 3, diamonds, forks, cycles back to the head, '*' in the middle, a List dependant with mutable default / factory, a spec subclass re-defaulting the end of the chain or declaring a further dependant of an inherited attribute, plain subclasses one and two levels deep (of the spec class or of the spec subclass) overriding only the defaults of dependants; declaration order shuffled; receivers of every one of these classes; rejected reset_<a>(_inplace=True) / del of an empty default-less attribute in between); the attribute in the middle has no default and holds nothing (never assigned, or assigned and reset / deleted before) while the attributes further along were given non-default values (upstream first); then the head (70 %) or another attribute is changed by with_/update_/transform_/reset_<a>, update(a=..), transform(a=f), reset(), obj.a = v, del obj.a, copy-on-write and in place, and by paired copy-vs-in-place runs; two (quick) or three (thorough) such rounds per history",
    "values from the conforming pool, transforms from the pool of pure functions (identity, affine on ints, constant, fresh list, appended list, fresh dict); callbacks never raise in this check",
    "interpretation (DESIGN 4 C05): with_<a>() without a value builds an empty value of the declared type; MISSING/UNCHANGED given per keyword leave that attribute as it is; identity of the result is demanded only for _inplace=True, _if=False, with_<a>(UNCHANGED), update(MISSING|UNCHANGED) without keywords; transform(_transform=f) returns f(self); every value stored in an attribute passes through its preparer once (so transform_<a>(f) stores prepare(f(old))); reset/del restore what a new instance would hold (the declared default run through the preparers, /repo 8d0a965); transform_<a>/update_<a> on an attribute that holds nothing start from an empty value of the declared type; reset_<a>/del of an attribute that holds nothing and has no default is an AttributeError (standard Python deletion), reset() skips such attributes",
    "a scalar helper / assignment / deletion / single-keyword update or transform that raises must leave the abstract state of the receiver as it was (Corr/SpecCorr.err_state_checked); multi-keyword update/transform(_inplace=True) and reset(_inplace=True) are C04's recorded open findings and are not judged on the state after an error",
    "frozen receivers: an in-place call must fail (FrozenInstanceError, or another documented error if the call is also wrong otherwise); in-place update()/transform() on frozen receivers are left to C07",
]


def main(tier, replay=None):
    if replay:
        return cc.replay(PID, replay, SEL)
    chk = Check(PID, tier)
    chk.proofs(extra_targets=["Corr/InstCorr.vo", "Corr/SpecCorr.vo"])
    rng = chk.rng
    quick = tier == "quick"
    n = 360 if quick else 4000
    cases = []
    for i in range(n):
        flavour = "frozen" if i % 9 == 0 else None
        cases.append(g5.gen_case(rng, 6 if quick else 9, rel_rate=0.22, flavour=flavour))
    n_plain = 60 if quick else 600
    for _ in range(n_plain):
        cases.append(g5.plain_case(rng, 6 if quick else 9))
    n_chain = 64 if quick else 640
    for _ in range(n_chain):
        cases.append(g5.chain_case(rng, 2 if quick else 3))
    bad, logs = cc.evaluate(PID, cases, SEL)
    cc.report(chk, PID, SEL, cases, bad, logs)
    ophist, sizes, n_ops = cc.histograms(cases)
    flag_hist = {}
    forms = {}
    for c in cases:
        for op, _ in c["ops"]:
            if op[0] == "helper":
                h = op[3]
                k = "inplace=%s,if=%s" % (bool(h.get("inplace")), h.get("if_", True))
                flag_hist[k] = flag_hist.get(k, 0) + 1
                form = op[2][0] + ":" + ("novalue" if not h.get("pos") else
                                          "sentinel" if h["pos"][0] in (("missing",), ("unchanged",), ("empty",)) else "value") \
                    + ("+kw" if h.get("kw") else "") + ("+fn" if h.get("fn") else "") + ("+kwfn" if h.get("kwfn") else "")
                forms[form] = forms.get(form, 0) + 1
    distinct = len({json.dumps((c["table"], c["ops"]), sort_keys=True, default=str) for c in cases})
    extra = {
        "correspondence": {"cases": len(cases), "operations": n_ops, "plain_subclass_cases": n_plain,
                           "invalidation_chain_cases": n_chain,
                           "spec_violations": sum(1 for _, c, _ in bad if c == 2),
                           "model_only_disagreements": sum(1 for _, c, _ in bad if c == 1),
                           "op_histogram": ophist, "flag_histogram": flag_hist, "call_form_histogram": forms,
                           "history_length_histogram": sizes,
                           "relations": "copy-run vs in-place-run on a clone, obj.a = v vs with_a(v, _inplace=True): paired operations followed by per-attribute equality oracles (op 'same')"},
        "evaluations": len(cases), "distinct_nontrivial": distinct,
        "rule": "case = (class table drawn from the class grammar, history of constructor calls / scalar and top-level helper calls in every call form and flag combination / assignments / deletions / paired relation runs, conforming arguments built fresh per call); non-trivial = at least one constructor and one further operation; distinct = distinct (table, history)",
        "samples": [{"ops": [list(map(str, op)) for op, _ in c["ops"]][:8]} for c in cases[:2]],
        "exhaustive": False,
    }
    return chk.finish(trusted_base=cc.TRUSTED, assumptions=ASSUMPTIONS, extra=extra)
