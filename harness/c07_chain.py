"""C07: who is frozen, and which names the guard covers (implementation-level probe).

(a) Inheritance of the frozen flag along chains of spec and plain classes: the NEAREST spec ancestor that states
    `frozen=` decides (a class is frozen when it, or the nearest decorated ancestor saying anything, says
    frozen=True); chains of three and four classes with the flag introduced or withdrawn midway.
(b) On a frozen instance EVERY assignment and deletion raises FrozenInstanceError and changes nothing — also for
    names that are not managed attributes: a new instance attribute, an un-annotated overridable spec_property,
    an un-annotated Alias (the non-frozen twin accepts all of them).
Oracle: the property statement (assignment, deletion and _inplace=True helpers raise FrozenInstanceError and
change nothing; copy-on-write helpers work), evaluated in Python.
"""
import copy


def _chains():
    """-> list of (label, classes in order root..leaf, expected_frozen flags)"""
    from typing import List
    from spec_classes import spec_class
    out = []
    for flags in ([None, True, None], [None, True, None, None], [True, None, None], [True, False, None],
                  [None, True, False], [False, None, True], [None, None, True, None], [True, False, True]):
        for plain_at in (None, 1, 2):
            classes, expected = [], []
            cur_frozen = False
            base = object
            for i, fl in enumerate(flags):
                ns = {"__annotations__": {"a%d" % i: int, "xs%d" % i: List[int]}, "a%d" % i: i, "xs%d" % i: [i]}
                cls = type("F%d" % i, (base,) if base is not object else (), ns)
                if plain_at == i and i > 0:
                    # a plain (undecorated) class inherits everything; its own annotations are not managed
                    cls = type("F%d" % i, (base,), {})
                else:
                    if fl is None:
                        cls = spec_class(cls)
                    else:
                        cls = spec_class(frozen=fl)(cls)
                        cur_frozen = fl
                classes.append(cls)
                expected.append(cur_frozen)
                base = cls
            out.append(("flags=%r plain_at=%r" % (flags, plain_at), classes, expected))
    return out


def _state(o):
    return copy.deepcopy({k: v for k, v in vars(o).items()})


def run():
    from spec_classes.errors import FrozenInstanceError
    failures, cases = [], 0

    def attempt(label, cls, o, what, fn, frozen):
        nonlocal cases
        cases += 1
        before = _state(o)
        try:
            fn()
            outcome = "returned"
        except FrozenInstanceError:
            outcome = "FrozenInstanceError"
        except Exception as e:
            outcome = type(e).__name__
        after = _state(o)
        if frozen:
            if outcome != "FrozenInstanceError" or before != after:
                failures.append({"shape": label, "class": cls.__name__, "op": what,
                                 "what": "%s on an instance of a FROZEN class %s%s" % (
                                     what, "returned" if outcome == "returned" else "raised " + outcome,
                                     "" if before == after else " and changed it")})
        else:
            if outcome == "FrozenInstanceError":
                failures.append({"shape": label, "class": cls.__name__, "op": what,
                                 "what": "%s raised FrozenInstanceError on an instance of a class that is NOT frozen" % what})

    # (a) inheritance chains
    for label, classes, expected in _chains():
        for i, (cls, fr) in enumerate(zip(classes, expected)):
            names = [n for k in classes[:i + 1] for n in k.__dict__.get("__annotations__", {})]
            scal = [n for n in names if n.startswith("a")]
            coll = [n for n in names if n.startswith("xs")]
            o = cls()
            attempt(label, cls, o, "obj.%s = 7" % scal[-1], lambda o=o, a=scal[-1]: setattr(o, a, 7), fr)
            o = cls()
            attempt(label, cls, o, "obj.%s = 7" % scal[0], lambda o=o, a=scal[0]: setattr(o, a, 7), fr)
            o = cls()
            attempt(label, cls, o, "del obj.%s" % scal[0], lambda o=o, a=scal[0]: delattr(o, a), fr)
            o = cls()
            attempt(label, cls, o, "with_%s(7, _inplace=True)" % scal[-1],
                    lambda o=o, a=scal[-1]: getattr(o, "with_" + a)(7, _inplace=True), fr)
            o = cls()
            attempt(label, cls, o, "update(%s=7, _inplace=True)" % scal[0],
                    lambda o=o, a=scal[0]: o.update(_inplace=True, **{a: 7}), fr)
            o = cls()
            attempt(label, cls, o, "with_%s([9], _inplace=True)" % coll[0],
                    lambda o=o, a=coll[0]: getattr(o, "with_" + a)([9], _inplace=True), fr)
            # copy-on-write works on every class, frozen or not, and leaves the receiver alone
            cases += 1
            o = cls()
            before = _state(o)
            try:
                r = getattr(o, "with_" + scal[-1])(7)
                ok = r is not o and getattr(r, scal[-1]) == 7 and _state(o) == before
            except Exception as e:
                ok = False
                r = e
            if not ok:
                failures.append({"shape": label, "class": cls.__name__, "op": "with_%s(7)" % scal[-1],
                                 "what": "copy-on-write helper failed or changed the receiver: %r" % (r,)})

    # (b) names that are not managed attributes
    from spec_classes import Alias, spec_class, spec_property
    for frozen in (True, False):
        @spec_class(frozen=frozen)
        class U:
            x: int = 1

            @spec_property(overridable=True)
            def p(self):
                return self.x + 1

            @spec_property(overridable=True, cache=True)
            def q(self):
                return self.x + 2

            y = Alias("x")

        for what, fn in (("obj.label = 'v' (new instance attribute)", lambda o: setattr(o, "label", "v")),
                         ("obj.p = 5 (un-annotated overridable spec_property)", lambda o: setattr(o, "p", 5)),
                         ("obj.q = 5 (un-annotated cached spec_property)", lambda o: setattr(o, "q", 5)),
                         ("obj.y = 5 (un-annotated Alias)", lambda o: setattr(o, "y", 5)),
                         ("obj.x = 5", lambda o: setattr(o, "x", 5)),
                         ("del obj.x", lambda o: delattr(o, "x"))):
            o = U()
            attempt("unmanaged names, frozen=%s" % frozen, U, o, what, lambda o=o, fn=fn: fn(o), frozen)
    return {"cases": cases, "failures": failures}


def probe(chk, extra):
    r = run()
    seen = set()
    for f in r["failures"]:
        k = (f["op"].split("(")[0].split(" =")[0], f["what"].split(" on an instance")[0][-12:])
        if k in seen or len(seen) >= 4:
            continue
        seen.add(k)
        chk.violation("C07 violated by the implementation (%s, class %s): %s" % (f["shape"], f["class"], f["what"]),
                      dict(f, kind="frozen-chain"), sig={"kind": "frozen-chain", "op": f["op"]})
    extra["frozen_chain_probe"] = {
        "cases": r["cases"], "failing": len(r["failures"]),
        "rule": "implementation only: chains of three and four spec / plain classes with frozen= stated, withdrawn or left "
                "unsaid at every level (the nearest decorated ancestor that states it decides): assignment, deletion and "
                "_inplace=True helpers raise FrozenInstanceError and change nothing exactly on the frozen classes, copy-on-write "
                "works everywhere; on a frozen instance also assignments to names that are not managed attributes (new instance "
                "attribute, un-annotated overridable / cached spec_property, un-annotated Alias) raise and change nothing"}


def replay(path):
    r = run()
    print("frozen-chain probe: %d cases, %d failing" % (r["cases"], len(r["failures"])))
    for f in r["failures"][:6]:
        print("  ", f["shape"], f["class"], f["what"])
    return 1 if r["failures"] else 0


if __name__ == "__main__":
    import json
    r = run()
    print(r["cases"], len(r["failures"]))
    print(json.dumps(r["failures"][:12], indent=1))
