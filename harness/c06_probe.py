"""C06, KeyedList-typed attributes (outside the Coq instance model): implementation-level
probe.  Element helpers on `ks: KeyedList[K, str]` are compared, after every call of a
generated chain, with a plain Python list of (key, v, w) records edited by the plain
list operation (append / replace at position / insert / delete / replace by the updated
or transformed record); targets are given by integer index or by key (= the position of
the element with that key).  Also checked: the element found by key is the element stored
at its position (the container's two views agree), the receiver of a copy-on-write call
keeps its content, an in-place call returns the receiver.  A missing target must raise
IndexError, KeyError or ValueError; a duplicate key ValueError."""
import copy


def build():
    from spec_classes import spec_class
    from spec_classes.types import KeyedList

    @spec_class(key="key")
    class K:
        key: str
        v: int = 1
        w: str = "w"

    @spec_class
    class S:
        ks: KeyedList[K, str]
    return K, S


def as_list(kl):
    return [(k.key, k.v, k.w) for k in kl]


def content(obj):
    """content of the attribute; an attribute holding nothing counts as no elements"""
    try:
        kl = obj.ks
    except AttributeError:
        return []
    return as_list(kl)


def new_elem(K, how, key, v):
    """(positional arguments, keywords, expected record) of a with_<item> call building element `key`"""
    if how == "key":
        return [key], {}, (key, 1, "w")
    if how == "key_kw":
        return [key], {"v": v}, (key, v, "w")
    if how == "kw":
        return [], {"key": key, "v": v}, (key, v, "w")
    return [K(key, v=v)], {}, (key, v, "w")


def gen_chain(rng, n_ops):
    keys = ["a", "b", "c", "d", ""]
    start = rng.sample(keys, rng.choice([0, 1, 2, 3]))
    ops = []
    for _ in range(n_ops):
        kind = rng.choice(["with", "with_at", "insert", "update", "update", "transform", "transform", "without"])
        target = rng.choice(keys + [0, 1, -1, 2, 5])
        # how a key target is handed over: the bare key, an element object equal to the stored
        # element, or an element object that is only key-equal (other attributes differ): a list is
        # searched by VALUE, so the latter denotes no element (ValueError, like list.index)
        tform = rng.choice(["raw", "raw", "obj_eq", "obj_diff"]) if isinstance(target, str) else "raw"
        ops.append({"kind": kind, "key": rng.choice(keys), "v": rng.choice([0, 2, 7]), "target": target,
                    "field": rng.choice(["v", "w"]), "inplace": rng.random() < 0.4, "same_key": rng.random() < 0.6,
                    "tform": tform,
                    # how the new element of with_<item> is handed over: element object, bare key
                    # (promoted), bare key + keywords, keywords only
                    "how": rng.choice(HOWS),
                    # `_insert=True` given WITHOUT `_index` (kind "with"): appended all the same
                    "ins": rng.random() < 0.4,
                    "noif": rng.random() < 0.06})
    # the attribute may hold nothing at all: the first helper creates the container
    return {"start": start, "ops": ops, "missing": not start and rng.random() < 0.5}


HOWS = ["obj", "obj", "key", "key_kw", "kw"]


def flag_chains():
    """`with_<item>` WITHOUT `_index` on a missing / empty / one-element / three-element KeyedList:
    element object, bare key (promoted), bare key + keywords, keywords only; with and without
    `_insert=True` (nothing to insert before: appended), `_if=False`, a duplicate key; copy and in place"""
    chains = []
    base = {"kind": "with", "target": 0, "field": "v", "same_key": False, "tform": "raw", "v": 7}
    for start, missing in (([], True), ([], False), (["a"], False), (["c", "", "a"], False)):
        for how in ("obj", "key", "key_kw", "kw"):
            for key in ("b", "", "a"):
                for ins in (True, False):
                    for inplace in (False, True):
                        for noif in (False, True):
                            if noif and (not ins or key == "a"):
                                continue
                            chains.append({"start": start, "missing": missing, "ops": [
                                dict(base, key=key, how=how, ins=ins, inplace=inplace, noif=noif),
                                dict(base, key="d", how=how, ins=ins, inplace=inplace, noif=False, v=0)]})
    return chains


def aimed():
    """one-call chains on a known content (built by the chain's first calls): update_/transform_/
    without_<item> addressed by bare key, equal element and key-equal element, copy and in place"""
    pre = [{"kind": "with", "key": "a", "v": 2, "target": 0, "field": "v", "inplace": False, "same_key": False, "tform": "raw"},
           {"kind": "with", "key": "b", "v": 7, "target": 0, "field": "v", "inplace": False, "same_key": False, "tform": "raw"},
           {"kind": "update", "key": "a", "v": 0, "target": "b", "field": "w", "inplace": False, "same_key": False, "tform": "raw"}]
    chains = []
    for kind in ("update", "transform", "without"):
        for target in ("a", "b", "q"):
            for tform in ("raw", "obj_eq", "obj_diff"):
                for field in ("v", "w"):
                    for inplace in (False, True):
                        chains.append({"start": ["c"], "ops": pre + [
                            {"kind": kind, "key": "a", "v": 5, "target": target, "field": field, "inplace": inplace,
                             "same_key": False, "tform": tform}]})
    return chains


def locate(model, target):
    """position addressed by an integer index or by a key; None = missing target"""
    if isinstance(target, int):
        n = len(model)
        j = target + n if target < 0 else target
        return j if 0 <= j < n else None
    for j, rec in enumerate(model):
        if rec[0] == target:
            return j
    return None


def run_chain(chain):
    """returns None when everything agrees, else a description of the first disagreement"""
    K, S = build()
    obj = S() if chain.get("missing") else S(ks=[K(k) for k in chain["start"]])
    model = [(k, 1, "w") for k in chain["start"]]
    for step, op in enumerate(chain["ops"]):
        before = content(obj)
        kw = {"_inplace": True} if op["inplace"] else {}
        if op.get("noif"):
            kw["_if"] = False
        how = op.get("how", "obj")
        expect_err, new_model = False, list(model)
        probe_obj = None
        kind, tgt = op["kind"], op["target"]
        try:
            if kind == "with":
                pargs, pkw, elem = new_elem(K, how, op["key"], op["v"])
                if any(r[0] == elem[0] for r in model):
                    expect_err = True
                else:
                    new_model.append(elem)
                if op.get("ins"):
                    kw["_insert"] = True     # without _index: nothing to insert before, appended
                call = lambda: obj.with_k(*pargs, **pkw, **kw)
            elif kind in ("with_at", "insert"):
                idx = tgt if isinstance(tgt, int) else 0
                pos = locate(model, idx)
                key = model[pos][0] if (op["same_key"] and pos is not None) else op["key"]
                pargs, pkw, elem = new_elem(K, how, key, op["v"])
                if kind == "with_at":
                    if pos is None or any(r[0] == key for j, r in enumerate(model) if j != pos):
                        expect_err = True
                    else:
                        new_model[pos] = elem
                    call = lambda: obj.with_k(*pargs, **pkw, _index=idx, **kw)
                else:
                    if any(r[0] == key for r in model):
                        expect_err = True
                    else:
                        n = len(model)
                        p = max(idx + n, 0) if idx < 0 else min(idx, n)
                        new_model.insert(p, elem)
                    call = lambda: obj.with_k(*pargs, **pkw, _index=idx, _insert=True, **kw)
            else:
                pos = locate(model, tgt)
                tform = op.get("tform", "raw")
                if tform != "raw" and isinstance(tgt, str):
                    # an element object as the address: found by value (list.index)
                    if tform == "obj_eq":
                        r = model[pos] if pos is not None else (tgt, 1, "w")
                    else:
                        r = (tgt, (model[pos][1] if pos is not None else 0) + 100, "probe")
                        pos = None
                    tgt = K(r[0], v=r[1], w=r[2])
                    probe_obj = (tgt, r)
                if pos is None:
                    expect_err = True
                if kind == "update":
                    if pos is not None:
                        k0, v0, w0 = model[pos]
                        new_model[pos] = (k0, op["v"], w0) if op["field"] == "v" else (k0, v0, "x")
                    attrs = {"v": op["v"]} if op["field"] == "v" else {"w": "x"}
                    call = lambda: obj.update_k(tgt, **attrs, **kw)
                elif kind == "transform":
                    if pos is not None:
                        k0, v0, w0 = model[pos]
                        new_model[pos] = (k0, v0 + 1, w0) if op["field"] == "v" else (k0, v0, w0 + "y")
                    attrs = {"v": (lambda v: v + 1)} if op["field"] == "v" else {"w": (lambda w: w + "y")}
                    call = lambda: obj.transform_k(tgt, **attrs, **kw)
                else:
                    if pos is not None:
                        del new_model[pos]
                    call = lambda: obj.without_k(tgt, **kw)
            if op.get("noif"):
                expect_err, new_model = False, list(model)     # _if=False: nothing happens
            res = call()
            err = None
        except (IndexError, KeyError, ValueError) as e:
            res, err = None, e
        except Exception as e:     # any other exception class is not a documented outcome
            return {"step": step, "op": dict(op), "model_before": model,
                    "what": "undocumented exception %s: %s" % (type(e).__name__, str(e)[:200])}
        where = {"step": step, "op": {k: v for k, v in op.items()}, "model_before": model}
        if probe_obj is not None and (probe_obj[0].key, probe_obj[0].v, probe_obj[0].w) != probe_obj[1]:
            return dict(where, what="the caller's element object was changed")
        if err is not None:
            if not expect_err:
                return dict(where, what="unexpected %s: %s" % (type(err).__name__, err))
            if content(obj) != before:
                return dict(where, what="the call raised and changed the container", observed=content(obj))
            continue
        if expect_err:
            return dict(where, what="missing target / duplicate key not reported", observed=content(res))
        got = content(res)
        if got != new_model:
            return dict(where, what="content differs from the plain list operation", expected=new_model, observed=got)
        for j, rec in enumerate(new_model):
            if res.ks[rec[0]] is not res.ks[j]:
                return dict(where, what="element found by key %r is not the element at its position %d" % (rec[0], j),
                            by_key=repr(res.ks[rec[0]]), by_index=repr(res.ks[j]))
        if op["inplace"]:
            if res is not obj:
                return dict(where, what="in-place call did not return the receiver")
        else:
            if content(obj) != before:
                return dict(where, what="copy-on-write call changed the receiver", observed=content(obj))
            obj = res
        model = new_model
    return None


def shrink(chain):
    cur = chain
    for n in range(1, len(cur["ops"])):
        c = dict(cur, ops=cur["ops"][:n])
        if run_chain(c) is not None:
            cur = c
            break
    changed = True
    while changed:
        changed = False
        for j in range(len(cur["ops"]) - 1):
            c = dict(cur, ops=cur["ops"][:j] + cur["ops"][j + 1:])
            if run_chain(c) is not None:
                cur, changed = c, True
                break
    return cur


def probe(chk, rng, n_chains, n_ops, extra):
    failing, reported = 0, set()
    chains = aimed() + flag_chains()
    n_aimed = len(chains)
    chains += [gen_chain(rng, n_ops) for _ in range(n_chains)]
    for chain in chains:
        bad = run_chain(chain)
        if bad is None:
            continue
        failing += 1
        small = shrink(chain)
        bad = run_chain(small)
        sig = (bad["op"]["kind"], bad["what"][:40])
        if sig in reported:
            continue
        reported.add(sig)
        chk.violation("C06 violated by the implementation (KeyedList attribute vs plain list): %s" % bad["what"],
                      {"kind": "keyedlist-probe", "chain": small, "disagreement": bad,
                       "replay": "bin/check C06 --replay <this file>"},
                      sig={"kind": "keyedlist-probe"})
    extra["keyedlist_probe"] = {"chains": n_chains, "aimed_chains": n_aimed, "operations_per_chain": n_ops, "failing": failing}
    return failing


def replay(path):
    import json
    r = json.load(open(path))
    bad = run_chain(r["chain"])
    print("replay:", "still failing: %s" % bad if bad else "passes now")
    return 1 if bad else 0
