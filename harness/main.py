import importlib
import os
import sys
import traceback


def main():
    if len(sys.argv) < 2:
        print("usage: check <id> quick|thorough | check <id> --replay <file>")
        return 2
    pid = sys.argv[1].upper()
    tier = os.environ.get("VERIF_TIER", "quick")
    replay = None
    if len(sys.argv) > 2:
        if sys.argv[2] == "--replay":
            replay = sys.argv[3]
        else:
            tier = sys.argv[2]
    mod = importlib.import_module(pid.lower())
    return mod.main(tier, replay)


if __name__ == "__main__":
    try:
        rc = main()
    except SystemExit:
        raise
    except BaseException:
        tb = traceback.format_exc()
        print(tb)
        rc = 3
        # a check that cannot complete has not shown the property: report it
        if len(sys.argv) > 1 and "--replay" not in sys.argv:
            import hashlib, json
            pid = sys.argv[1].upper()
            d = os.path.join(os.path.dirname(os.path.dirname(os.path.abspath(__file__))), "replays", pid)
            os.makedirs(d, exist_ok=True)
            path = os.path.join(d, "harness-" + hashlib.sha1(tb.encode()).hexdigest()[:10] + ".json")
            json.dump({"property": pid, "kind": "harness-exception", "traceback": tb}, open(path, "w"), indent=1)
            print(f"VIOLATION property={pid} replay={path} no-failing-input-found")
            rc = 1
    sys.stdout.flush()
    os._exit(rc)
