import importlib
import os
import sys
import traceback


def main():
    if len(sys.argv) < 2:
        print("usage: check <id> quick|thorough | check <id> --replay <file>")
        return 2
    pid = sys.argv[1].upper()
    tier = os.environ.get("VERIF_TIER", "quick")
    replay = None
    if len(sys.argv) > 2:
        if sys.argv[2] == "--replay":
            replay = sys.argv[3]
        else:
            tier = sys.argv[2]
    mod = importlib.import_module(pid.lower())
    return mod.main(tier, replay)


if __name__ == "__main__":
    try:
        rc = main()
    except SystemExit:
        raise
    except BaseException:
        traceback.print_exc()
        rc = 3
    sys.stdout.flush()
    os._exit(rc)
