"""Developer aid: run N random cases, show shrunk disagreements (model vs implementation)."""
import random, sys, re
from common import COQ, sh
import inst_common as ic, inst_gen as ig

def model_outcomes(small, r):
    term = ic.c_case(small["table"], small["ops"], r[0], r[1])
    open(f"{COQ}/Corr/gen/DBG_one.v", "w").write(ic.PRELUDE + f"Definition c : icase := {term}.\nSet Printing Width 200.\nEval vm_compute in (map fst (model_trace c)).\nEval vm_compute in (snd (last (model_trace c) ([], ([], [])))).\nEval vm_compute in (check_case c).\n")
    rc, out = sh("coqc -Q . SC Corr/gen/DBG_one.v", cwd=COQ)
    return out

def main():
    n = int(sys.argv[1]); seed = int(sys.argv[2]); nops = int(sys.argv[3])
    want = int(sys.argv[4]) if len(sys.argv) > 4 else 1
    show = int(sys.argv[5]) if len(sys.argv) > 5 else 3
    kw = {}
    if len(sys.argv) > 6:
        kw = eval(sys.argv[6])
    rng = random.Random(seed)
    cases = [ig.gen_case(rng, nops, **kw) for _ in range(n)]
    bad, logs = ic.evaluate("DBG", cases)
    print("cases", n, "bad", len(bad), "logs", len(logs))
    for lg in logs[:2]:
        print(lg[:3000])
    hist = {}
    for i, code, obs in bad:
        hist[code] = hist.get(code, 0) + 1
    print("codes", hist)
    seen_sigs = set()
    for i, code, obs in bad:
        if not (code & want):
            continue
        small = ic.shrink_case("DBG", cases[i], code & want)
        sig = (small["ops"][-1][0][0], str(small["ops"][-1][0][2])[:30] if len(small["ops"][-1][0]) > 2 else "")
        if sig in seen_sigs:
            continue
        seen_sigs.add(sig)
        r, err = ic.run_case(small)
        print("=" * 70, "code", code, "case", i)
        for c in small["table"]:
            print("  K%d frozen=%s key=%s base=%s" % (c["id"], c.get("frozen"), c.get("key"), c.get("base")),
                  [(a["aid"], a.get("default"), a.get("factory"), {k: v for k, v in a.items() if k in ("dnc", "prepare", "prepare_item", "inv_by", "override") and v}) for a in c["attrs"]])
        for (op, fa), o in zip(small["ops"], r[1]):
            print("   ", op, fa, "->", o[0])
        print("  impl final:", r[1][-1][1] if r[1] else None)
        print(model_outcomes(small, r)[-1800:])
        if len(seen_sigs) >= show:
            break

main()
