"""Deterministic line-level thread scheduler (DESIGN 3.6) used by the C19 check.

n threads run under sys.settrace.  At every `line` event inside one of the
chosen library files the running thread appends the event to a global log,
reports to the scheduler and parks on its own semaphore; the scheduler (main
thread) then wakes exactly one thread, chosen by a policy.  So at any time at
most one thread executes library code, and the interleaving of library source
lines is exactly the one the policy dictates.

Locks: the library's RLock objects are replaced by `TracedRLock`, a wrapper
around a real `threading.RLock` that (a) logs try/acquired/blocked/release
events and (b) never blocks inside C: a failed non-blocking acquire reports
`blocked` and parks; the release of the lock makes the waiters runnable again
and they retry.  Mutual exclusion itself is still the real RLock's.  Any other
blocking inside C code (import locks, ...) is detected by a timeout: the thread
is marked `stuck`, other threads are scheduled, and it becomes runnable again
when it reports its next line event.
"""
import queue
import sys
import threading

_real_RLock = threading.RLock


class Policy:
    """Chooses the next thread.  `first`: thread that starts.  `switch`: dict
    global step index -> thread id to pre-empt to (ignored when that thread is
    not runnable).  When the current thread cannot continue the lowest runnable
    thread id continues (not a pre-emption)."""

    def __init__(self, first=0, switch=None):
        self.first = first
        self.switch = dict(switch or {})

    def choose(self, step, runnable, cur):
        if step in self.switch and self.switch[step] in runnable:
            return self.switch[step]
        if cur in runnable:
            return cur
        return min(runnable)

    def describe(self):
        return {"kind": "preempt", "first": self.first, "switch": sorted(self.switch.items())}


class PriorityPolicy:
    """PCT-style: every thread has a priority, the runnable thread of highest
    priority runs; at the given change points the running thread's priority
    drops below all others."""

    def __init__(self, prios, changes):
        self.prios = list(prios)
        self.changes = sorted(changes)
        self.first = max(range(len(prios)), key=lambda t: prios[t])
        self._low = -1

    def choose(self, step, runnable, cur):
        if step in self.changes and cur is not None:
            self.prios[cur] = self._low
            self._low -= 1
        return max(runnable, key=lambda t: self.prios[t])

    def describe(self):
        return {"kind": "priority", "prios": list(self.prios), "changes": list(self.changes)}


class ExplicitPolicy:
    """The schedule is a list of thread ids, one per step; exhausted or not
    runnable -> current thread if runnable, else lowest runnable id."""

    def __init__(self, tids):
        self.tids = list(tids)
        self.first = self.tids[0] if self.tids else 0

    def choose(self, step, runnable, cur):
        if step < len(self.tids) and self.tids[step] in runnable:
            return self.tids[step]
        if cur in runnable:
            return cur
        return min(runnable)

    def describe(self):
        return {"kind": "explicit", "tids": self.tids}


CURRENT = None  # the Sched of the run in progress (one at a time)


class TracedRLock:
    """Drop-in for threading.RLock (context manager, acquire/release)."""
    counter = 0

    def __init__(self):
        self._l = _real_RLock()
        self._owner = None
        self._depth = 0
        TracedRLock.counter += 1
        self.name = TracedRLock.counter

    def acquire(self, blocking=True, timeout=-1):
        s = CURRENT
        tid = s.tid() if s is not None else None
        if tid is None:
            r = self._l.acquire(blocking, timeout)
            if r:
                self._owner, self._depth = threading.get_ident(), self._depth + 1
            return r
        s.event(tid, "acq_try", self.name)
        while not self._l.acquire(False):
            if not blocking:
                return False
            s.event(tid, "acq_block", self.name)
            s.block_on(tid, self)
        self._owner = tid
        self._depth += 1
        s.event(tid, "acquired", (self.name, self._depth))
        return True

    def release(self):
        s = CURRENT
        tid = s.tid() if s is not None else None
        self._depth -= 1
        depth = self._depth
        if depth == 0:
            self._owner = None
        self._l.release()
        if tid is not None:
            s.event(tid, "release", (self.name, depth))
            if depth == 0:
                s.unblock(self)

    __enter__ = acquire

    def __exit__(self, *a):
        self.release()


class Sched:
    """Token-passing scheduler: the thread that holds the token runs; at each of
    its yield points (line event in a chosen file, failed lock acquire, end of
    thunk) it evaluates the policy itself and, if another thread is chosen, hands
    the token over and parks.  The main thread only watches for a token holder
    that makes no progress for `timeout` seconds (blocked inside C code): that
    thread is marked `stuck` and the token is given to another runnable thread."""

    def __init__(self, files, timeout=3.0, max_steps=200000, probe=None):
        self.files = set(files)
        self.timeout = timeout
        self.max_steps = max_steps
        self.probe = probe

    # ---- called from worker threads
    def tid(self):
        return getattr(self.tls, "tid", None)

    def mark(self, data):
        """Explicit yield point of a thunk (e.g. just before a class attribute lookup):
        the thread may be pre-empted here; the entry is logged when it continues."""
        tid = self.tid()
        if tid is None or self.free:
            return
        self._yield(tid, "line")
        self.log.append((tid, "mark", data))

    def event(self, tid, kind, data=None):
        self.log.append((tid, kind, data))

    def block_on(self, tid, lock):
        if self.free:
            lock._l.acquire()
            lock._l.release()
            return
        self.waiting.setdefault(id(lock), set()).add(tid)
        self._yield(tid, "blocked")

    def unblock(self, lock):
        for t in self.waiting.pop(id(lock), ()):
            if self.state[t] == "blocked":
                self.state[t] = "ready"

    def _pick(self):
        """with self.mu held: choose the next token holder (or None)."""
        runnable = [t for t in range(self.n) if self.state[t] == "ready"]
        if not runnable:
            if all(s == "done" for s in self.state):
                self.finished.set()
            elif not any(s == "stuck" for s in self.state):
                self.deadlock = True
                self.free = True
                self.finished.set()
            return None
        if self.step >= self.max_steps:
            self.overrun = True
            self.free = True
            self.finished.set()
            return None
        if self.cur is None and self.policy.first in runnable:
            t = self.policy.first
        else:
            t = self.policy.choose(self.step, runnable, self.cur)
        self.cur = t
        self.step += 1
        self.chosen.append(t)
        return t

    def _yield(self, tid, kind):
        with self.mu:
            was_stuck = self.state[tid] == "stuck"
            self.state[tid] = {"line": "ready", "blocked": "blocked", "done": "done"}[kind]
            if was_stuck and self.token is not None:
                nxt = -1  # somebody else holds the token: just park
            else:
                nxt = self._pick()
                self.token = nxt
        if nxt == tid:
            return
        if nxt is not None and nxt >= 0:
            self.sem[nxt].release()
        if self.free and nxt is None:
            for t in range(self.n):
                self.sem[t].release()
        if kind != "done" and not self.free:
            self.sem[tid].acquire()

    def _global_trace(self, frame, event, arg):
        if frame.f_code.co_filename in self.files:
            return self._local_trace
        return None

    def _local_trace(self, frame, event, arg):
        if event == "line" and not self.free:
            tid = self.tls.tid
            code = frame.f_code
            # park first, log when resumed: the log is in execution order
            self._yield(tid, "line")
            extra = self.probe(frame) if self.probe is not None else None
            self.log.append((tid, "line", (code.co_filename, frame.f_lineno, code.co_name, extra)))
        return self._local_trace

    def _body(self, tid, thunk):
        self.tls.tid = tid
        self.sem[tid].acquire()
        sys.settrace(self._global_trace)
        try:
            res = ("ok", thunk())
        except BaseException as e:  # noqa: BLE001 - outcomes are data
            res = ("exc", type(e).__name__, str(e)[:200])
        finally:
            sys.settrace(None)
        self.outcome[tid] = res
        self.tls.tid = None
        self._yield(tid, "done")

    # ---- scheduler
    def run(self, thunks, policy):
        global CURRENT
        n = self.n = len(thunks)
        self.policy = policy
        self.tls = threading.local()
        self.log = []
        self.mu = threading.Lock()
        self.finished = threading.Event()
        self.sem = [threading.Semaphore(0) for _ in range(n)]
        self.waiting = {}
        self.outcome = [None] * n
        self.free = False
        self.deadlock = False
        self.overrun = False
        self.state = ["ready"] * n
        self.cur, self.step, self.chosen, self.token = None, 0, [], None
        stuck_seen = 0
        CURRENT = self
        threads = [threading.Thread(target=self._body, args=(t, thunks[t]), daemon=True) for t in range(n)]
        for th in threads:
            th.start()
        try:
            with self.mu:
                self.token = self._pick()
            self.sem[self.token].release()
            last = (-1, None)
            while not self.finished.wait(self.timeout):
                with self.mu:
                    now = (self.step, self.token)
                    if now == last and self.token is not None and self.state[self.token] == "ready":
                        # the token holder made no progress: blocked inside C code
                        self.state[self.token] = "stuck"
                        stuck_seen += 1
                        nxt = self._pick()
                        self.token = nxt
                        if nxt is not None:
                            self.sem[nxt].release()
                    elif now == last and self.token is None and any(s == "stuck" for s in self.state):
                        stuck_seen += 1
                        if stuck_seen > 20:
                            self.deadlock = True
                            self.free = True
                            break
                    last = now
        finally:
            CURRENT = None
        if self.free:
            for t in range(n):
                self.sem[t].release()
        for th in threads:
            th.join(timeout=0.05 if self.deadlock else self.timeout * 4)
        return {"log": self.log, "outcome": self.outcome, "chosen": self.chosen, "steps": self.step,
                "deadlock": self.deadlock, "stuck": stuck_seen, "overrun": self.overrun}
