"""C09 — grammar of class hierarchies: generation, rendering to Python source and to Coq terms.

A hierarchy is a list of class descriptions in definition order (JSON-able):
  cls   = {id, bases:[id], deco: None | {key, ovf, dnc}, annots:[[aid, ty]], entries:[[aid, entry]],
           preps:[[aid, fn]], post: bool, hinit: None | {params:[[aid, val]], tr:[[aid, fn]]}}
  deco  : key/ovf in {"unset", None, aid}; dnc in {False, True, [aid]}
  entry = ["lit", val] | ["attr", dflt, init, is_field];  dflt = ["none"] | ["val", val] | ["fac", val]
  val   = ["n"] | ["i", z] | ["s", z] | ["l", [val]] | ["d", [[aid, val]]] | ["f", z]   (f: Leaf(n=z))
  fn    = ["id"] | ["inc"] | ["const", val] | ["wrap"]
  ty    in any int str optint listint leaf dictany
"""
import itertools

NAMES = {0: "n", 1: "alpha", 2: "beta", 3: "gamma", 4: "delta", 5: "kappa", 6: "opts", 7: "opts2",
         8: "zeta", 9: "eta", 99: "extra"}
IDS = {v: k for k, v in NAMES.items()}
ATTRS = [1, 2, 3, 4]
KAPPA, OPTS, OPTS2, ZETA, ETA, EXTRA = 5, 6, 7, 8, 9, 99

TY_PY = {"any": "Any", "int": "int", "str": "str", "optint": "Optional[int]", "listint": "List[int]",
         "leaf": "Leaf", "dictany": "Dict[str, Any]"}
TY_COQ = {"any": "TAny", "int": "TInt", "str": "TStr", "optint": "TOptInt", "listint": "TListInt",
          "leaf": "TLeaf", "dictany": "TDictAny"}
TYS = ["int", "str", "optint", "listint", "leaf"]


# ------------------------------------------------------------------ strings <-> Z
def word(z):
    s = ""
    while z > 0:
        z -= 1
        s = "ab"[z % 2] + s
        z //= 2
    return s


def unword(s):
    z = 0
    for ch in s:
        if ch not in "ab":
            raise ValueError("string outside the value grammar: %r" % (s,))
        z = z * 2 + (1 if ch == "a" else 2)
    return z


# ------------------------------------------------------------------ values
def val_py(v):
    t = v[0]
    if t == "n":
        return "None"
    if t == "i":
        return repr(v[1])
    if t == "s":
        return repr(word(v[1]))
    if t == "l":
        return "[" + ", ".join(val_py(x) for x in v[1]) + "]"
    if t == "d":
        return "{" + ", ".join(f"{NAMES[k]!r}: {val_py(x)}" for k, x in v[1]) + "}"
    if t == "f":
        return f"Leaf(n={v[1]})"
    raise AssertionError(v)


def val_obj(v, ns):
    return eval(val_py(v), ns)


def cz(n):
    return f"({n})" if n < 0 else str(n)


def val_coq(v):
    t = v[0]
    if t == "n":
        return "ANone"
    if t == "i":
        return f"(AInt {cz(v[1])})"
    if t == "s":
        return f"(AStr {v[1]})"
    if t == "l":
        return "(AList [" + "; ".join(val_coq(x) for x in v[1]) + "])"
    if t == "d":
        return "(ADict [" + "; ".join(f"({k}%nat, {val_coq(x)})" for k, x in v[1]) + "])"
    if t == "f":
        return f"(ALeaf {cz(v[1])})"
    raise AssertionError(v)


def encode_obj(o, ns):
    """implementation object -> val (raises on anything outside the value grammar)"""
    if o is None:
        return ["n"]
    if isinstance(o, bool):
        raise ValueError("bool outside grammar")
    if isinstance(o, int):
        return ["i", o]
    if isinstance(o, str):
        return ["s", unword(o)]
    if type(o) is list:
        return ["l", [encode_obj(x, ns) for x in o]]
    if type(o) is dict:
        return ["d", [[IDS[k], encode_obj(x, ns)] for k, x in o.items()]]
    if type(o) is ns["Leaf"]:
        d = object.__getattribute__(o, "__dict__")
        if list(d) != ["n"] or type(d["n"]) is not int:
            raise ValueError("Leaf outside grammar: %r" % (d,))
        return ["f", d["n"]]
    raise ValueError("value outside grammar: %r" % (o,))


def fn_py(f, var):
    return {"id": var, "inc": f"{var} + 1", "wrap": f"[{var}]"}.get(f[0]) or val_py(f[1])


def fn_coq(f):
    return {"id": "FId", "inc": "FInc", "wrap": "FWrap"}.get(f[0]) or f"(FConst {val_coq(f[1])})"


def dflt_coq(d):
    return {"none": "DNone"}.get(d[0]) or f"({'DVal' if d[0] == 'val' else 'DFac'} {val_coq(d[1])})"


def entry_coq(e):
    if e[0] == "lit":
        return f"(ELit {val_coq(e[1])})"
    return f"(EAttr {dflt_coq(e[1])} {'true' if e[2] else 'false'} {'true' if e[3] else 'false'})"


def entry_py(e):
    if e[0] == "lit":
        return val_py(e[1])
    _, d, init, is_field = e
    args = []
    if d[0] == "val":
        args.append(f"default={val_py(d[1])}")
    elif d[0] == "fac":
        args.append(f"default_factory=lambda: {val_py(d[1])}")
    if not init:
        args.append("init=False")
    return ("dataclasses.field(" if is_field else "Attr(") + ", ".join(args) + ")"


def clist(xs, f=str):
    return "[" + "; ".join(f(x) for x in xs) + "]"


def copt(o, f=str):
    return "None" if o is None else f"(Some {f(o)})"


def nat(n):
    return f"{n}%nat"


# ------------------------------------------------------------------ classes
def cls_name(c):
    return f"K{c}"


def cls_py(k):
    lines = []
    if k["deco"] is not None:
        d = k["deco"]
        args = []
        if d["key"] != "unset":
            args.append("key=" + ("None" if d["key"] is None else repr(NAMES[d["key"]])))
        if d["ovf"] != "unset":
            args.append("init_overflow_attr=" + ("None" if d["ovf"] is None else repr(NAMES[d["ovf"]])))
        if d["dnc"] is True:
            args.append("do_not_copy=True")
        elif d["dnc"]:
            args.append("do_not_copy=[" + ", ".join(repr(NAMES[a]) for a in d["dnc"]) + "]")
        lines.append("@spec_class" + (f"({', '.join(args)})" if args else ""))
    bases = ", ".join(cls_name(b) for b in k["bases"])
    lines.append(f"class {cls_name(k['id'])}" + (f"({bases})" if bases else "") + ":")
    body = []
    entries = dict((a, e) for a, e in k["entries"])
    for a, t in k["annots"]:
        body.append(f"{NAMES[a]}: {TY_PY[t]}" + (f" = {entry_py(entries[a])}" if a in entries else ""))
    annotated = {a for a, _ in k["annots"]}
    for a, e in k["entries"]:
        if a not in annotated:
            body.append(f"{NAMES[a]} = {entry_py(e)}")
    for a, f in k["preps"]:
        body.append(f"def _prepare_{NAMES[a]}(self, v): return {fn_py(f, 'v')}")
        body.append(f"_prepare_{NAMES[a]}.c09_fn = {f!r}")
    if k["post"]:
        # the hook records what it can see: the attribute names set on the instance when it runs
        body.append(f"def __post_init__(self): LOG.append(('post', {k['id']}, "
                    "[n for n in self.__dict__ if not n.startswith('__spec_class')]))")
    if k["hinit"] is not None:
        h = k["hinit"]
        ps = ", ".join(f"{NAMES[a]}={val_py(v)}" for a, v in h["params"])
        body.append(f"def __init__(self{', ' + ps if ps else ''}):")
        tr = dict((a, f) for a, f in h["tr"])
        vals = ", ".join(NAMES[a] for a, _ in h["params"])
        body.append(f"    if any(x is MISSING for x in ({vals}{',' if vals else ''})): LOG.append(('ph', {k['id']}))")
        for a, _ in h["params"]:
            body.append(f"    self.{NAMES[a]} = {fn_py(tr.get(a, ['id']), NAMES[a])}")
        vals = ", ".join(NAMES[a] for a, _ in h["params"])
        body.append(f"    self.extra = [None if x is MISSING else x for x in ({vals}{',' if vals else ''})]")
        body.append(f"    LOG.append(('hand', {k['id']}))")
    if not body:
        body.append("pass")
    return "\n".join(lines + ["    " + b for b in body])


PRELUDE_PY = """import dataclasses
from typing import Any, Dict, List, Optional
from spec_classes import spec_class, Attr, MISSING
LOG = []
@spec_class
class Leaf:
    n: int = 0
"""


def hier_py(h):
    return PRELUDE_PY + "\n".join(cls_py(k) for k in h) + "\n"


def deco_coq(d):
    def oo(x):
        return "None" if x == "unset" else ("(Some None)" if x is None else f"(Some (Some {nat(x)}))")
    dn = "DncFalse" if d["dnc"] is False else ("DncTrue" if d["dnc"] is True else "(DncList " + clist(d["dnc"], nat) + ")")
    return f"(mkdeco {oo(d['key'])} {oo(d['ovf'])} {dn})"


def cls_coq(k):
    hi = "None"
    if k["hinit"] is not None:
        h = k["hinit"]
        hi = ("(Some (mkhinit " + clist(h["params"], lambda p: f"({nat(p[0])}, {val_coq(p[1])})") + " "
              + clist(h["tr"], lambda p: f"({nat(p[0])}, {fn_coq(p[1])})") + "))")
    return ("(mkcdesc " + nat(k["id"]) + " " + clist(k["bases"], nat) + " "
            + ("None" if k["deco"] is None else f"(Some {deco_coq(k['deco'])})") + " "
            + clist(k["annots"], lambda p: f"({nat(p[0])}, {TY_COQ[p[1]]})") + " "
            + clist(k["entries"], lambda p: f"({nat(p[0])}, {entry_coq(p[1])})") + " "
            + clist(k["preps"], lambda p: f"({nat(p[0])}, {fn_coq(p[1])})") + " "
            + ("true" if k["post"] else "false") + " " + hi + ")")


def hier_coq(h):
    """class table, newest first"""
    return clist(list(reversed(h)), cls_coq)


# ------------------------------------------------------------------ value pools
def conforming(rng, t):
    if t == "int":
        return ["i", rng.choice([0, 1, 2, 7, -3])]
    if t == "str":
        return ["s", rng.choice([0, 1, 2, 4])]
    if t == "optint":
        return rng.choice([["n"], ["i", rng.choice([0, 5])]])
    if t == "listint":
        return ["l", [["i", x] for x in rng.choice([[], [1], [1, 2], [3, 0, 3]])]]
    if t == "leaf":
        return ["f", rng.choice([0, 1, 4])]
    if t == "dictany":
        return ["d", rng.choice([[], [[ZETA, ["i", 1]]]])]
    return rng.choice([["i", 3], ["s", 1], ["n"], ["l", [["s", 2]]]])


def nonconforming(rng, t):
    if t == "int":
        return rng.choice([["s", 1], ["n"], ["l", [["i", 1]]], ["f", 1]])
    if t == "str":
        return rng.choice([["i", 1], ["n"], ["l", []]])
    if t == "optint":
        return rng.choice([["s", 2], ["l", [["i", 1]]], ["f", 0]])
    if t == "listint":
        return rng.choice([["i", 4], ["l", [["i", 1], ["s", 1]]], ["s", 3], ["s", 0], ["n"], ["f", 2],
                           ["l", [["n"]]]])
    if t == "leaf":
        return rng.choice([["i", 1], ["n"], ["l", []], ["s", 1]])
    if t == "dictany":
        return rng.choice([["i", 1], ["n"], ["l", []]])
    return ["i", 1]


def some_value(rng, t, p_bad=0.06):
    return nonconforming(rng, t) if rng.random() < p_bad else conforming(rng, t)


def some_fn(rng, t):
    """a preparer that mostly makes sense for the attribute's type"""
    r = rng.random()
    if r < 0.08:
        return rng.choice([["inc"], ["wrap"], ["const", nonconforming(rng, t)]])
    if t in ("int", "optint") and r < 0.55:
        return ["inc"]
    if r < 0.75:
        return ["id"]
    return ["const", conforming(rng, t)]


def some_dflt(rng, t):
    r = rng.random()
    if r < 0.25:
        return ["none"]
    if r < 0.65:
        return ["val", some_value(rng, t)]
    return ["fac", some_value(rng, t)]


def some_entry(rng, t, allow_noinit=True):
    """declaration form of an annotated attribute; None = annotation only"""
    r = rng.random()
    if r < 0.22:
        return None
    if r < 0.55:
        return ["lit", some_value(rng, t)]
    init = not (allow_noinit and rng.random() < 0.25)
    return ["attr", some_dflt(rng, t), init, rng.random() < 0.4]


# ------------------------------------------------------------------ hierarchies
SHAPES = {
    # name: list of (kind, bases as indices into the list); kind: S spec, P plain
    1: [[("S", [])]],
    2: [[("S", []), ("S", [0])], [("S", []), ("P", [0])], [("S", []), ("S", []), ("S", [0, 1])]],
    3: [[("S", []), ("S", [0]), ("S", [1])], [("S", []), ("P", [0]), ("S", [1])],
        [("S", []), ("S", [0]), ("P", [1])], [("S", []), ("P", [0]), ("P", [1])],
        [("S", []), ("S", []), ("S", [0, 1]), ("S", [2])], [("S", []), ("S", []), ("S", [0, 1]), ("P", [2])],
        [("S", []), ("S", [0]), ("S", []), ("S", [1, 2])], [("S", []), ("P", [0]), ("S", []), ("S", [1, 2])],
        [("S", []), ("S", [0]), ("S", [0]), ("S", [1, 2])]],   # diamond
    4: [[("S", []), ("S", [0]), ("S", [1]), ("S", [2])], [("S", []), ("P", [0]), ("S", [1]), ("P", [2])],
        [("S", []), ("S", [0]), ("P", [1]), ("S", [2])], [("S", []), ("P", [0]), ("P", [1]), ("S", [2])]],
}


def shape_label(shape):
    return "-".join(k + "".join(str(b) for b in bs) for k, bs in shape)


def is_single(shape):
    return all(len(bs) <= 1 for _, bs in shape)


def gen_hierarchy(rng, depth, allow_hand=True, single_only=False):
    shapes = [s for d in range(1, depth + 1) for s in SHAPES[d] if not single_only or is_single(s)]
    # weight deeper shapes more
    shape = rng.choice([s for s in shapes if len(s) >= min(depth, 2)] * 3 + shapes)
    types = {a: rng.choice(TYS) for a in ATTRS}
    if rng.random() < 0.5:
        types[1] = "int"
    h = []
    managed = {}     # class index -> dict name -> type (names managed along the class's MRO, roughly)
    overflow = {}
    keyed = {}
    for idx, (kind, bases) in enumerate(shape):
        inherited = {}
        for b in bases:
            inherited.update(managed[b])
        inh_ovf = next((overflow[b] for b in bases if overflow.get(b)), None)
        inh_key = next((keyed[b] for b in bases if keyed.get(b)), None)
        k = {"id": idx + 1, "bases": [b + 1 for b in bases], "deco": None, "annots": [], "entries": [],
             "preps": [], "post": rng.random() < 0.35, "hinit": None}
        mine = dict(inherited)
        if kind == "P":
            for a in inherited:
                if a in (OPTS, OPTS2):
                    continue
                if rng.random() < 0.4:
                    k["entries"].append([a, ["lit", some_value(rng, inherited[a])]])
            managed[idx], overflow[idx], keyed[idx] = mine, inh_ovf, inh_key
            h.append(k)
            continue
        deco = {"key": "unset", "ovf": "unset", "dnc": False}
        fresh = [a for a in ATTRS if a not in inherited]
        rng.shuffle(fresh)
        n_new = rng.choice([1, 2, 2, 3]) if not inherited else rng.choice([0, 1, 1, 2])
        new = sorted(fresh[:n_new])
        rng.shuffle(new)
        mentioned = []
        # inherited names: re-declare / re-default / leave
        for a, t in list(inherited.items()):
            if a in (OPTS, OPTS2, KAPPA):
                continue
            r = rng.random()
            if r < 0.2:       # re-declared
                t2 = t if rng.random() < 0.85 else rng.choice(TYS)
                k["annots"].append([a, t2])
                e = some_entry(rng, t2)
                if e is not None:
                    k["entries"].append([a, e])
                mine[a] = t2
                mentioned.append(a)
            elif r < 0.42:    # merely re-defaulted
                k["entries"].append([a, ["lit", some_value(rng, t)]])
                mentioned.append(a)
            elif r < 0.46:    # Attr object without annotation
                k["entries"].append([a, ["attr", some_dflt(rng, t), rng.random() < 0.8, False]])
                mentioned.append(a)
        for a in new:
            t = types[a]
            k["annots"].append([a, t])
            e = some_entry(rng, t)
            if e is not None:
                k["entries"].append([a, e])
            mine[a] = t
            mentioned.append(a)
        rng.shuffle(k["annots"])
        # key
        cands = [a for a, _ in k["annots"]]
        r = rng.random()
        if inh_key is None:
            if r < 0.3 and cands:
                ka = rng.choice(cands)
                deco["key"] = ka
                keyed_here = ka
            elif r < 0.34 and KAPPA not in inherited:
                deco["key"] = KAPPA
                mine[KAPPA] = "any"
                keyed_here = KAPPA
            else:
                keyed_here = None
        else:
            keyed_here = inh_key
            if r < 0.1 and cands:
                deco["key"] = keyed_here = rng.choice(cands)
            elif r < 0.14:
                deco["key"] = keyed_here = None
            elif r < 0.34 and inh_key not in [a for a, _ in k["annots"]]:
                # the decorator re-states the key the class inherits, without re-declaring the
                # attribute (bootstrap then leaves the inherited attribute alone: the class body
                # must not say anything else about it)
                deco["key"] = inh_key
                k["entries"] = [[a, e] for a, e in k["entries"] if a != inh_key]
                mentioned = [a for a in mentioned if a != inh_key]
        if keyed_here is not None and keyed_here != KAPPA:
            # the key attribute is always initialisable
            k["entries"] = [[a, (e if not (a == keyed_here and e[0] == "attr") else [e[0], e[1], True, e[3]])]
                            for a, e in k["entries"]]
        # overflow
        r = rng.random()
        ovf_here = inh_ovf
        if inh_ovf is None and r < 0.3:
            deco["ovf"] = ovf_here = OPTS
            mine[OPTS] = "dictany"
        elif inh_ovf == OPTS and r < 0.08:
            deco["ovf"] = ovf_here = OPTS2
            mine[OPTS2] = "dictany"
        # do_not_copy
        r = rng.random()
        if r < 0.08:
            deco["dnc"] = True
        elif r < 0.3 and mine:
            names = [a for a in mine]
            rng.shuffle(names)
            deco["dnc"] = sorted(names[:rng.choice([1, 1, 2])])
        # preparers
        for a in mentioned:
            if rng.random() < 0.22:
                k["preps"].append([a, some_fn(rng, mine[a])])
        if inherited and rng.random() < 0.05:
            a = rng.choice([x for x in inherited if x not in (OPTS, OPTS2)] or [None])
            if a is not None and a not in mentioned:
                k["preps"].append([a, some_fn(rng, inherited[a])])
        # hand-written constructor
        if allow_hand and rng.random() < 0.14 and k["annots"]:
            params = [[a, conforming(rng, t)] for a, t in k["annots"]]
            if keyed_here is not None and keyed_here not in [a for a, _ in params]:
                # the constructor of a keyed class takes the key
                params.insert(0, [keyed_here, conforming(rng, mine.get(keyed_here, "any"))])
            tr = [[a, rng.choice([["id"], ["inc"], ["inc"], ["const", conforming(rng, t)]])]
                  for a, t in k["annots"] if rng.random() < 0.6]
            k["hinit"] = {"params": params, "tr": tr}
        k["deco"] = deco
        managed[idx], overflow[idx], keyed[idx] = mine, ovf_here, keyed_here
        h.append(k)
    return h, shape_label(shape)


def well_formed(h):
    """static side conditions of the grammar (see docs/C09.md); None when fine, else a reason"""
    seen = {}
    for k in h:
        if k["id"] in seen or any(b not in seen for b in k["bases"]) or len(set(k["bases"])) != len(k["bases"]):
            return "ids/bases"
        # names managed along the MRO / key in force, approximated through the bases
        inh, key, line_key = set(), None, None
        for b in k["bases"]:
            inh |= seen[b]["managed"]
        for b in k["bases"]:
            if seen[b]["spec_anc"]:
                key = seen[b]["key"]
                break
        names = [a for a, _ in k["annots"]]
        enames = [a for a, _ in k["entries"]]
        if len(set(names)) != len(names) or len(set(enames)) != len(enames) or \
                len({a for a, _ in k["preps"]}) != len(k["preps"]):
            return "duplicate names"
        for a in names + enames + [a for a, _ in k["preps"]]:
            if a in (OPTS, OPTS2, EXTRA, 0):
                return "reserved name in body"
        if k["deco"] is None:
            if len(k["bases"]) != 1 or k["annots"] or k["preps"] or k["hinit"] is not None:
                return "plain class shape"
            if any(e[0] != "lit" or a not in inh for a, e in k["entries"]):
                return "plain class entries"
            managed = set(inh)
        else:
            d = k["deco"]
            managed = set(inh) | set(names)
            if any(a not in managed for a in enames):
                return "entry for an unmanaged name"
            if d["ovf"] not in ("unset", None):
                if d["ovf"] not in (OPTS, OPTS2):
                    return "overflow name"
                managed.add(d["ovf"])
            if d["key"] != "unset":
                key = d["key"]
                if key is not None:
                    if key in (OPTS, OPTS2, EXTRA, 0):
                        return "key name"
                    if key not in names and key in inh and key in enames:
                        return "re-stated inherited key with a class-body entry"
                    managed.add(key)
            if any(a not in managed for a, _ in k["preps"]):
                return "preparer for an unmanaged name"
            if key is not None:
                for a, e in k["entries"]:
                    if a == key and e[0] == "attr" and not e[2]:
                        return "key with init=False"
            if k["hinit"] is not None:
                ps = [a for a, _ in k["hinit"]["params"]]
                if len(set(ps)) != len(ps) or any(a in (EXTRA, 0) for a in ps):
                    return "hand-written parameters"
                if any(a not in ps for a, _ in k["hinit"]["tr"]):
                    return "transform without parameter"
                if key is not None and key not in ps:
                    return "hand-written constructor of a keyed class without the key parameter"
        seen[k["id"]] = {"managed": managed, "key": key,
                         "spec_anc": k["deco"] is not None or any(seen[b]["spec_anc"] for b in k["bases"])}
        if k["deco"] is None and not seen[k["id"]]["spec_anc"]:
            return "plain class without spec ancestor"
    return None


# ------------------------------------------------------------------ calls
def candidate_keywords(rng, table_attrs, overflow, n):
    """a list of (name, value) candidates: managed names (conforming / non-conforming values),
    init=False names, the overflow attribute's own name, unknown names"""
    cands = []
    names = list(table_attrs)          # [(aid, ty)]
    rng.shuffle(names)
    for a, t in names:
        cands.append([a, some_value(rng, t, 0.12)])
    extra = [[ZETA, ["i", 1]], [ETA, ["s", 2]]]
    rng.shuffle(extra)
    k_unknown = rng.choice([0, 0, 1, 1, 2])
    cands = cands[:max(1, n - k_unknown)] + extra[:k_unknown]
    return cands[:n]


def subsets(cands, limit):
    out = []
    for r in range(0, min(limit, len(cands)) + 1):
        for sub in itertools.combinations(range(len(cands)), r):
            out.append([cands[i] for i in sub])
    return out
