"""Shared harness of the instance-level properties (C01-C09, C11): class grammar,
operation grammar, execution on the implementation, canonical object graphs,
Coq term printing, evaluation through coq/Corr/InstCorr.v, shrinking."""
import copy
import types

from common import ERR_CODES, cbool, clist, copt, coq_eval, cz, outcome_class

PRELUDE = """From Coq Require Import List ZArith Bool Arith.
From SC Require Import Base.Res Inst.Heap Inst.ClassTable Inst.Model Inst.Canon Corr.Enc Corr.InstCorr.
Import ListNotations.
Open Scope nat_scope.
"""
RB = 5000
# Optional "getattr view" of instances (default off; C02 turns it on for its own process): a
# managed attribute that is ABSENT from the instance dictionary but whose read falls back to a
# mutable class-level object (`getattr(obj, name)` returns the class attribute) is shown as a
# field of the instance holding that object.  On the unchanged library no API call leaves an
# instance in such a state, so both views coincide there.
GETATTR_VIEW = False


class UserError(Exception):
    pass


# ------------------------------------------------------------------ names
def pyname(aid):
    return f"a{aid}" if aid < 50 else f"c{aid}s"


def item_name(aid):
    return f"c{aid}"


def aid_of_name(name):
    if name == "__spec_class_initializing__":
        return 0
    try:
        if name.startswith("a"):
            return int(name[1:])
        if name.startswith("c") and name.endswith("s"):
            return int(name[1:-1])
    except ValueError:
        pass
    return 98


def pystr(z):
    return "" if z == 0 else pyname(z)


def str_id(s):
    if s == "":
        return 0
    a = aid_of_name(s)
    return a if a != 98 else 777


# ------------------------------------------------------------------ callbacks
class CB:
    count = 0
    fail_at = None

    @classmethod
    def reset(cls, fail_at):
        cls.count, cls.fail_at = 0, fail_at

    @classmethod
    def tick(cls):
        cls.count += 1
        if cls.fail_at is not None and cls.count == cls.fail_at:
            raise UserError(f"injected failure at callback invocation {cls.count}")


class World:
    """Python-side state of one case: classes, roots, registries."""

    def __init__(self, table, getattr_view=None):
        self.table = table
        self.getattr_view = GETATTR_VIEW if getattr_view is None else getattr_view
        self.classes = {}     # cid -> class
        self.cid_of = {}      # class -> cid
        self.roots = []
        self.build_classes()

    # ---- values
    def val(self, d):
        from spec_classes import EMPTY, MISSING, UNCHANGED
        k = d[0]
        if k == "missing":
            return MISSING
        if k == "empty":
            return EMPTY
        if k == "unchanged":
            return UNCHANGED
        if k == "none":
            return None
        if k == "bool":
            return bool(d[1])
        if k == "int":
            return d[1]
        if k == "str":
            return pystr(d[1])
        if k == "atom":
            return ATOMS[d[1]]
        if k == "root":
            return self.roots[d[1]]
        raise AssertionError(d)

    def obj(self, d):
        k = d[0]
        if k == "list":
            return [self.val(x) for x in d[1]]
        if k == "dict":
            return {self.val(a): self.val(b) for a, b in d[1]}
        if k == "set":
            return {self.val(x) for x in d[1]}
        raise AssertionError(d)

    def fn(self, f):
        if f is None:
            return None
        k = f[0]
        w = self

        def call(x):
            CB.tick()
            if k == "id":
                return x
            if k == "addint":
                return x + f[1]
            if k == "const":
                return w.val(f[1])
            if k == "newlist":
                return [w.val(v) for v in f[1]]
            if k == "appended":
                return x + [w.val(f[1])]
            if k == "dictof":
                return {pystr(f[1]): w.val(f[2])}
            if k == "raise":
                raise UserError("callback raises")
            raise AssertionError(f)
        return call

    # ---- classes
    def build_classes(self):
        import dataclasses
        from typing import Any, Dict, List, Optional, Set, Union

        from spec_classes import Attr, spec_class
        ns = {"List": List, "Dict": Dict, "Set": Set, "Optional": Optional, "Union": Union, "Any": Any}
        self.default_objs = []   # (cid, aid, python object) in heap0 order
        for c in self.table:
            cid = c["id"]
            body = {"__annotations__": {}, "__module__": "verif_generated", "__qualname__": f"K{cid}"}
            for a in c["attrs"]:
                if a.get("inherited"):
                    if "override" in a:
                        body[pyname(a["aid"])] = self.mk_default(a["override"], cid, a["aid"])
                    continue
                name = pyname(a["aid"])
                body["__annotations__"][name] = self.pytype(a["ty"], ns)
                dflt = a.get("default")
                fac = a.get("factory")
                decl = a.get("decl", "plain")
                kwargs = {}
                if not a.get("init", True):
                    kwargs["init"] = False
                if a.get("inv_by"):
                    kwargs["invalidated_by"] = [pyname(x) if x != 99 else "*" for x in a["inv_by"]]
                if dflt is not None:
                    dv = self.mk_default(dflt, cid, a["aid"])
                    if decl == "plain" and not kwargs:
                        body[name] = dv
                    elif decl == "field" and not a.get("inv_by"):
                        if isinstance(dv, (list, dict, set)):
                            body[name] = Attr(default=dv, **kwargs)
                        else:
                            body[name] = dataclasses.field(default=dv, **kwargs)
                    else:
                        body[name] = Attr(default=dv, **kwargs)
                elif fac is not None:
                    ff = self.mk_factory(fac)
                    if decl == "field" and not a.get("inv_by"):
                        body[name] = dataclasses.field(default_factory=ff, **kwargs)
                    else:
                        body[name] = Attr(default_factory=ff, **kwargs)
                elif kwargs:
                    body[name] = Attr(**kwargs)
                if a.get("prepare"):
                    body[f"_prepare_{name}"] = self.mk_preparer(a["prepare"])
                if a.get("prepare_item"):
                    body[f"_prepare_{item_name(a['aid'])}"] = self.mk_preparer(a["prepare_item"])
            if c.get("post_init"):
                f = self.fn(c["post_init"])
                body["__post_init__"] = lambda self_, f=f: f(None) and None
            if c.get("post_copy"):
                f = self.fn(c["post_copy"])
                body["__post_copy__"] = lambda self_, f=f: f(None) and None
            bases = (self.classes[c["base"]],) if c.get("base") is not None else ()
            raw = type(f"K{cid}", bases, body)
            ns[f"K{cid}"] = raw
            if c.get("kind", "spec") == "spec":
                dnc = [pyname(a["aid"]) for a in c["attrs"] if a.get("dnc")]
                kw = {}
                if c.get("key") is not None and not c.get("key_inherited"):
                    kw["key"] = pyname(c["key"])
                if c.get("frozen") and not c.get("frozen_inherited"):
                    kw["frozen"] = True
                if dnc:
                    kw["do_not_copy"] = dnc
                if c.get("eager"):
                    kw["bootstrap"] = True
                raw = spec_class(**kw)(raw)
            self.classes[cid] = raw
            self.cid_of[raw] = cid
        for cls in self.classes.values():
            getattr(cls, "__spec_class__")   # trigger bootstrap
        self.roots = [o for _, _, o in self.default_objs]

    def pytype(self, t, ns):
        k = t[0]
        if k == "any":
            return ns["Any"]
        if k == "int":
            return int
        if k == "str":
            return str
        if k == "bool":
            return bool
        if k == "opt":
            return ns["Optional"][self.pytype(t[1], ns)]
        if k == "union":
            return ns["Union"][self.pytype(t[1], ns), self.pytype(t[2], ns)]
        if k == "list":
            return ns["List"][self.pytype(t[1], ns)]
        if k == "set":
            return ns["Set"][self.pytype(t[1], ns)]
        if k == "dict":
            return ns["Dict"][self.pytype(t[1], ns), self.pytype(t[2], ns)]
        if k == "spec":
            return ns[f"K{t[1]}"]
        raise AssertionError(t)

    def mk_default(self, d, cid, aid):
        if d[0] in ("list", "dict", "set"):
            o = self.obj(d)
            self.default_objs.append((cid, aid, o))
            return o
        return self.val(d)

    def mk_factory(self, fac):
        w = self

        def factory():
            CB.tick()
            if fac[0] == "inst":
                return w.classes[fac[1]]()
            return w.obj(fac)
        return factory

    def mk_preparer(self, f):
        g = self.fn(f)
        return lambda self_, v: g(v)

    # ---- canonical graph
    def is_node(self, v):
        return isinstance(v, (list, dict, set)) and type(v) in (list, dict, set) or type(v) in self.cid_of

    def atom(self, v):
        from spec_classes import EMPTY, MISSING, UNCHANGED
        if v is MISSING:
            return ("missing",)
        if v is EMPTY:
            return ("empty",)
        if v is UNCHANGED:
            return ("unchanged",)
        if v is None:
            return ("none",)
        if isinstance(v, bool):
            return ("bool", v)
        if isinstance(v, int):
            return ("int", v)
        if isinstance(v, str):
            return ("str", str_id(v))
        for i, a in enumerate(ATOMS):
            if v is a:
                return ("atom", i)
        return ("atom", 998)

    def fields(self, inst):
        d = object.__getattribute__(inst, "__dict__")
        if self.getattr_view:
            extra = self.class_fallback(inst, d)
            if extra:
                d = dict(d, **extra)
        return sorted(((aid_of_name(k), v) for k, v in d.items()), key=lambda p: p[0])

    def class_fallback(self, inst, d):
        """managed attributes missing from the instance dictionary whose read yields a mutable
        class-level object (found statically along the MRO, then confirmed with getattr)"""
        out = {}
        try:
            names = list(type(inst).__spec_class__.attrs)
        except AttributeError:
            return out
        for name in names:
            if name in d:
                continue
            for klass in type(inst).__mro__:
                if name in klass.__dict__:
                    v = klass.__dict__[name]
                    if self.is_node(v):
                        try:
                            if getattr(inst, name) is v:
                                out[name] = v
                        except Exception:
                            pass
                    break
        return out

    def children(self, o):
        if type(o) is list:
            return list(o)
        if type(o) is dict:
            out = []
            for k, v in o.items():
                out += [k, v]
            return out
        if type(o) is set:
            return sorted(o, key=lambda v: atom_key(self.atom(v)))
        return [v for _, v in self.fields(o)]

    def canon(self, roots=None):
        roots = self.roots if roots is None else roots
        order, ids = [], {}
        stack = list(roots)
        while stack:
            v = stack.pop(0)
            if self.is_node(v):
                if id(v) in ids:
                    continue
                ids[id(v)] = len(order)
                order.append(v)
                stack[0:0] = self.children(v)

        def ren(v):
            return ("ref", ids[id(v)]) if self.is_node(v) else self.atom(v)
        nodes = []
        for o in order:
            if type(o) is list:
                nodes.append(("list", [ren(x) for x in o]))
            elif type(o) is dict:
                nodes.append(("dict", [(ren(k), ren(v)) for k, v in o.items()]))
            elif type(o) is set:
                nodes.append(("set", [ren(x) for x in sorted(o, key=lambda v: atom_key(self.atom(v)))]))
            else:
                nodes.append(("inst", self.cid_of[type(o)], [(a, ren(v)) for a, v in self.fields(o)]))
        return ([ren(r) for r in roots], nodes)

    # ---- operations
    def helper_call(self, op):
        _, x, (hname, aid), h = op
        recv = self.roots[x]
        name = {"with": "with_", "update": "update_", "transform": "transform_", "reset": "reset_",
                "with_item": "with_", "update_item": "update_", "transform_item": "transform_",
                "without_item": "without_"}.get(hname)
        if hname in ("update_top", "transform_top", "reset_top"):
            meth = getattr(recv, hname.split("_")[0])
        elif hname.endswith("_item"):
            meth = getattr(recv, name + item_name(aid))
        else:
            meth = getattr(recv, name + pyname(aid))
        args = [self.val(v) for v in h.get("pos", [])]
        kwargs = {}
        if h.get("fn") is not None:
            args.append(self.fn(h["fn"]))
        if h.get("inplace"):
            kwargs["_inplace"] = True
        if not h.get("if_", True):
            kwargs["_if"] = False
        if h.get("index", ("missing",))[0] != "missing":
            kwargs["_index"] = self.val(h["index"])
        if h.get("insert"):
            kwargs["_insert"] = True
        if h.get("by_index") is not None:
            kwargs["_by_index"] = h["by_index"]
        for a, v in (h.get("kw") or []):
            kwargs[pyname(a)] = self.val(v)
        for a, f in h.get("kwfn", []):
            kwargs[pyname(a)] = self.fn(f)
        return meth(*args, **kwargs)

    def apply(self, op):
        k = op[0]
        if k == "construct":
            _, cid, pos, kw = op
            args = [] if pos is None else [self.val(pos)]
            return self.classes[cid](*args, **{pyname(a): self.val(v) for a, v in kw})
        if k == "setattr":
            setattr(self.roots[op[1]], pyname(op[2]), self.val(op[3]))
            return None
        if k == "delattr":
            delattr(self.roots[op[1]], pyname(op[2]))
            return None
        if k == "helper":
            return self.helper_call(op)
        if k == "deepcopy":
            return copy.deepcopy(self.roots[op[1]])
        if k == "alloc":
            return self.obj(op[1])
        raise AssertionError(op)

    def run(self, ops):
        seen0 = self.canon()
        seen = []
        for op, fail_at in ops:
            if op[0] == "same":
                seen.append(([0], self.canon()))
                continue
            CB.reset(fail_at)
            try:
                r = self.apply(op)
                out = [0]
            except BaseException as e:
                if isinstance(e, (KeyboardInterrupt, SystemExit, AssertionError)):
                    raise
                r, out = None, [ERR_CODES[outcome_class(e)]]
            CB.reset(None)
            self.roots.append(r)
            seen.append((out, self.canon()))
        return seen0, seen


ATOMS = [types, copy, len, int]   # a module, another module, a builtin function, a class


def atom_key(a):
    k = a[0]
    return {"missing": 0, "empty": 1, "unchanged": 2, "none": 3}.get(k) if k in ("missing", "empty", "unchanged", "none") else (
        10 + int(a[1]) if k == "bool" else
        100000 + a[1] if k == "int" else
        300000 + a[1] if k == "str" else
        500000 + a[1] if k == "atom" else 700000 + a[1])


# ------------------------------------------------------------------ Coq printing
def c_val(d):
    k = d[0]
    if k in ("missing", "empty", "unchanged", "none"):
        return {"missing": "VMissing", "empty": "VEmpty", "unchanged": "VUnchanged", "none": "VNone"}[k]
    if k == "bool":
        return f"(VBool {cbool(d[1])})"
    if k == "int":
        return f"(VInt {cz(d[1])}%Z)"
    if k == "str":
        return f"(VStr {cz(d[1])}%Z)"
    if k == "atom":
        return f"(VAtom {cz(d[1])}%Z)"
    if k == "ref":
        return f"(VRef {d[1]})"
    if k == "root":
        return f"(VRef (RB + {d[1]}))"
    raise AssertionError(d)


def c_kw(kw):
    return clist(kw, lambda p: f"({p[0]}, {c_val(p[1])})")


def c_obj(d):
    k = d[0]
    if k == "list":
        return f"OList {clist(d[1], c_val)}"
    if k == "set":
        return f"OSet {clist(d[1], c_val)}"
    if k == "dict":
        return "ODict " + clist(d[1], lambda p: f"({c_val(p[0])}, {c_val(p[1])})")
    if k == "inst":
        return f"OInst {d[1]} {c_kw(d[2])}"
    raise AssertionError(d)


def c_graph(g):
    return f"({clist(g[0], c_val)}, {clist(g[1], c_obj)})"


def c_ty(t):
    k = t[0]
    if k in ("any", "int", "str", "bool"):
        return {"any": "TAny", "int": "TInt", "str": "TStr", "bool": "TBool"}[k]
    if k == "opt":
        return f"(TOpt {c_ty(t[1])})"
    if k == "union":
        return f"(TUnion {c_ty(t[1])} {c_ty(t[2])})"
    if k == "list":
        return f"(TList {c_ty(t[1])})"
    if k == "set":
        return f"(TSet {c_ty(t[1])})"
    if k == "dict":
        return f"(TDict {c_ty(t[1])} {c_ty(t[2])})"
    if k == "spec":
        return f"(TSpec {t[1]})"
    raise AssertionError(t)


def c_fn(f):
    k = f[0]
    if k == "id":
        return "FId"
    if k == "addint":
        return f"(FAddInt {cz(f[1])}%Z)"
    if k == "const":
        return f"(FConst {c_val(f[1])})"
    if k == "newlist":
        return f"(FNewList {clist(f[1], c_val)})"
    if k == "appended":
        return f"(FAppended {c_val(f[1])})"
    if k == "dictof":
        return f"(FDictOf {cz(f[1])}%Z {c_val(f[2])})"
    if k == "raise":
        return "FRaise"
    raise AssertionError(f)


def c_fac(f):
    k = f[0]
    if k == "list":
        return f"(FacList {clist(f[1], c_val)})"
    if k == "set":
        return f"(FacSet {clist(f[1], c_val)})"
    if k == "dict":
        return "(FacDict " + clist(f[1], lambda p: f"({c_val(p[0])}, {c_val(p[1])})") + ")"
    if k == "inst":
        return f"(FacInst {f[1]})"
    raise AssertionError(f)


def resolve_table(table):
    """The harness's own resolution of the class descriptions into per-class
    attribute lists (inherited first, re-declared replaced in place) and heap0."""
    heap0, out, by_id = [], [], {}
    for c in table:
        attrs = []
        base = by_id.get(c.get("base"))
        if base is not None:
            attrs = [dict(a) for a in base["rattrs"]]
        overrides = list(base.get("overrides", [])) if base is not None and c.get("kind") == "plain" else []
        for a in c["attrs"]:
            if a.get("inherited"):
                if c.get("kind") == "plain":
                    # a plain subclass shares its parent's metadata; its class attributes only
                    # shadow the defaults (Attr.lookup_default_value walks the MRO)
                    if "override" in a:
                        overrides = [o for o in overrides if o[0] != a["aid"]] + [(a["aid"], default_term(a["override"], heap0))]
                    continue
                for r in attrs:
                    if r["aid"] == a["aid"] and "override" in a:
                        r["default_c"] = default_term(a["override"], heap0)
                        r["factory"] = None
                    if r["aid"] == a["aid"] and "dnc" in a:
                        # a spec subclass's OWN decorator decides do_not_copy for the attributes it
                        # inherits (SpecClass.bootstrap rebuilds / copies the inherited Attr with
                        # `attr in self.do_not_copy`); the renderer lists exactly the entries with
                        # a true "dnc" in the subclass's decorator.  Existing generators restate
                        # the parent's flag, so this changes nothing for them.
                        r["dnc"] = bool(a["dnc"])
                continue
            r = dict(a)
            r["owner"] = c["id"]
            d = a.get("default")
            r["default_c"] = default_term(d, heap0) if d is not None else "VMissing"
            attrs = [x for x in attrs if x["aid"] != a["aid"]] + [r] if not any(x["aid"] == a["aid"] for x in attrs) \
                else [r if x["aid"] == a["aid"] else x for x in attrs]
        rc = dict(c)
        rc["rattrs"] = attrs
        rc["overrides"] = overrides
        rc["owner_cls"] = base["owner_cls"] if (base is not None and c.get("kind") == "plain") else c["id"]
        rc["mro"] = [c["id"]] + (base["mro"] if base is not None else [])
        rc["rfrozen"] = bool(c.get("frozen")) or (base is not None and base["rfrozen"])
        rc["rkey"] = c.get("key") if c.get("key") is not None else (base["rkey"] if base is not None else None)
        for hook in ("post_init", "post_copy"):
            if rc.get(hook) is None and base is not None:
                rc[hook] = base.get(hook)
        by_id[c["id"]] = rc
        out.append(rc)
    return out, heap0


def default_term(d, heap0):
    if d[0] in ("list", "dict", "set"):
        heap0.append(d)
        return f"(VRef {len(heap0) - 1})"
    return c_val(d)


def c_table(table):
    res, heap0 = resolve_table(table)
    cls_terms = []
    for c in res:
        attrs = []
        for a in c["rattrs"]:
            attrs.append("mkattr {aid} {ty} {dflt} {fac} {owner} {init} {dnc} {prep} {prepi} {inv}".format(
                aid=a["aid"], ty=c_ty(a["ty"]), dflt=a["default_c"],
                fac=copt(a.get("factory"), c_fac), owner=a["owner"], init=cbool(a.get("init", True)),
                dnc=cbool(a.get("dnc", False)), prep=copt(a.get("prepare"), c_fn),
                prepi=copt(a.get("prepare_item"), c_fn), inv=clist(a.get("inv_by", []))))
        cls_terms.append("mkcls {id} {attrs} {frozen} false {key} {mro} {owner} {ov} {pi} {pc}".format(
            id=c["id"], attrs=clist(attrs), frozen=cbool(c["rfrozen"]), key=copt(c["rkey"]),
            mro=clist(c["mro"]), owner=c["owner_cls"],
            ov=clist(c["overrides"], lambda o: f"({o[0]}, {o[1]})"),
            pi=copt(c.get("post_init"), c_fn), pc=copt(c.get("post_copy"), c_fn)))
    return clist(cls_terms), clist(heap0, c_obj)


HELPERS = {"with": "HWith", "update": "HUpdate", "transform": "HTransform", "reset": "HReset",
           "with_item": "HWithItem", "update_item": "HUpdateItem", "transform_item": "HTransformItem",
           "without_item": "HWithoutItem"}


def c_hargs(h):
    return "(mkh {pos} {inp} {if_} {idx} {ins} {bi} {kw} {kwfn} {fn})".format(
        pos=clist(h.get("pos", []), c_val), inp=cbool(h.get("inplace", False)), if_=cbool(h.get("if_", True)),
        idx=c_val(h.get("index", ("missing",))), ins=cbool(h.get("insert", False)),
        bi=copt(h.get("by_index"), cbool), kw=copt(h.get("kw"), c_kw),
        kwfn=clist(h.get("kwfn", []), lambda p: f"({p[0]}, {c_fn(p[1])})"), fn=copt(h.get("fn"), c_fn))


def c_op(op):
    k = op[0]
    if k == "construct":
        return f"XOp (OpConstruct {op[1]} {copt(op[2], c_val)} {c_kw(op[3])})"
    if k == "setattr":
        return f"XOp (OpSetAttr {op[1]} {op[2]} {c_val(op[3])})"
    if k == "delattr":
        return f"XOp (OpDelAttr {op[1]} {op[2]})"
    if k == "helper":
        hn, aid = op[2]
        hp = {"update_top": "HUpdateTop", "transform_top": "HTransformTop", "reset_top": "HResetTop"}.get(hn) \
            or f"({HELPERS[hn]} {aid})"
        return f"XOp (OpHelper {op[1]} {hp} {c_hargs(op[3])})"
    if k == "deepcopy":
        return f"XOp (OpDeepCopy {op[1]})"
    if k == "alloc":
        return f"XOp (OpAlloc ({c_obj(op[1])}))"
    if k == "same":
        return f"XSame {op[1]} {op[2]} {op[3]}"
    raise AssertionError(op)


def c_case(table, ops, seen0, seen):
    ct, heap0 = c_table(table)
    ops_t = clist(ops, lambda p: f"({c_op(p[0])}, {copt(p[1])})")
    seen_t = clist(seen, lambda o: f"({clist(o[0], cz)}%Z, {c_graph(o[1])})")
    return f"mkic {ct} {heap0} {ops_t} {c_graph(seen0)} {seen_t}"


ANCHORED = ("utils/mutation.py", "methods/core.py", "methods/scalar.py", "methods/toplevel.py",
            "collections/base.py", "collections/sequences.py", "collections/mappings.py", "collections/sets.py",
            "methods/collections/sequences.py", "methods/collections/mappings.py", "methods/collections/sets.py",
            "types/attr.py")
EXECUTED = set()      # (relative file, line) executed while running compared cases


def _tracer(frame, event, arg):
    fn = frame.f_code.co_filename
    i = fn.find("spec_classes/")
    if i < 0:
        return None
    rel = fn[i + len("spec_classes/"):]
    if rel not in ANCHORED:
        return None

    def local(frame, event, arg):
        if event == "line":
            EXECUTED.add((rel, frame.f_lineno))
        return local
    EXECUTED.add((rel, frame.f_lineno))
    return local


def line_coverage():
    """executed / executable lines of the anchored files (function bodies only)"""
    import importlib
    import os
    import spec_classes
    root = os.path.dirname(spec_classes.__file__)
    out = {}
    for rel in ANCHORED:
        path = os.path.join(root, rel)
        try:
            code = compile(open(path).read(), path, "exec")
        except OSError:
            continue
        lines = set()

        def walk(co, top=True):
            if not top:
                for _, _, ln in co.co_lines():
                    if ln is not None and ln != co.co_firstlineno:
                        lines.add(ln)
            for c in co.co_consts:
                if hasattr(c, "co_code"):
                    walk(c, False)
        walk(code)
        done = {ln for f, ln in EXECUTED if f == rel}
        miss = sorted(lines - done)
        out[rel] = {"executable": len(lines), "executed": len(lines & done), "not_executed": miss[:60]}
    return out


def run_case(case, trace=False, getattr_view=None):
    import sys
    table, ops = case["table"], case["ops"]
    try:
        w = World(table, getattr_view=getattr_view)
        if trace:
            sys.settrace(_tracer)
        try:
            seen0, seen = w.run(ops)
        finally:
            if trace:
                sys.settrace(None)
    except BaseException as e:
        if isinstance(e, (KeyboardInterrupt, SystemExit)):
            raise
        return None, repr(e)
    return (seen0, seen), None


def evaluate(pid, cases, tag="c", trace_every=0):
    """returns list of (index, bitmask, observation) for non-zero masks, and logs"""
    terms, obs, broken = [], [], []
    for i, case in enumerate(cases):
        r, err = run_case(case, trace=bool(trace_every) and i % trace_every == 0)
        if r is None:
            broken.append((i, err))
            r = (([], []), [])
        obs.append(r)
        terms.append(c_case(case["table"], case["ops"], r[0], r[1]) if err is None
                     else c_case(case["table"], [], ([], []), []))
    bad, logs = coq_eval(pid, PRELUDE, "check_case", terms, shard=150, tag=tag, case_type="icase")
    out = [(i, code, obs[i]) for i, code in bad]
    for i, err in broken:
        logs.append(f"case {i}: harness could not run the implementation: {err}")
    return out, logs


def drop_op(case, j):
    nd = case["nd"]
    ops = case["ops"]
    root_of = []      # root index created by op i (None for 'same')
    n = nd
    for op, _ in ops:
        if op[0] == "same":
            root_of.append(None)
        else:
            root_of.append(n)
            n += 1
    dead = root_of[j]

    def fix_root(r):
        if dead is None or r < dead:
            return r
        if r == dead:
            raise KeyError
        return r - 1

    def fix(x):
        if isinstance(x, tuple):
            if len(x) == 2 and x[0] == "root":
                return ("root", fix_root(x[1]))
            return tuple(fix(y) for y in x)
        if isinstance(x, list):
            return [fix(y) for y in x]
        if isinstance(x, dict):
            return {k: fix(v) for k, v in x.items()}
        return x
    out = []
    try:
        for i, (op, fa) in enumerate(ops):
            if i == j:
                continue
            if op[0] in ("setattr", "delattr", "helper", "deepcopy"):
                op = (op[0], fix_root(op[1])) + tuple(fix(y) for y in op[2:])
            elif op[0] == "same":
                op = ("same", fix_root(op[1]), fix_root(op[2]), op[3])
            else:
                op = fix(op)
            out.append((op, fa))
    except KeyError:
        return None
    return dict(case, ops=out)


def shrink_case(pid, case, mask, rounds=40):
    cur = case
    # 1. shortest failing prefix
    prefixes = [dict(cur, ops=cur["ops"][:n]) for n in range(1, len(cur["ops"]))]
    if prefixes:
        bad, _ = evaluate(pid, prefixes, tag="s")
        hit = [i for i, c, _ in bad if c & mask]
        if hit:
            cur = prefixes[min(hit)]
    # 2. drop single operations (latest first), keeping the last one
    for _ in range(rounds):
        idx = [j for j in range(len(cur["ops"]) - 1)][::-1]
        cands = [(j, drop_op(cur, j)) for j in idx]
        cands = [c for _, c in cands if c is not None and c["ops"]]
        if not cands:
            break
        bad, _ = evaluate(pid, cands, tag="s")
        hit = [i for i, c, _ in bad if c & mask]
        if not hit:
            break
        cur = cands[min(hit)]
    return cur
