"""C02 — implementation-level probe: KeyedList / KeyedSet attributes of keyed spec items.

The property's grammar names `KeyedList` / `KeyedSet` of keyed spec classes, but these containers
are outside the Coq instance model (inst_common has List / Dict / Set attributes only), and the
other probes of this check have no attribute of these types.  A keyed container keeps its items
TWICE (`KeyedList`: `_list` for position / iteration and `_dict` for lookups by key; `KeyedSet`:
`_dict`), so "the copy shares no mutable object with the original" has to be observed through
every access path: position, iteration, `keys()`, lookup by key (`c[key]`, `c.get(key)`) and the
private `_list` / `_dict` themselves.  Oracle (the property statement evaluated in Python on the
implementation's objects, NOT a Coq evaluation), after deepcopy and after every helper kind:

  * the result is not the receiver; no mutable object is reachable from both (through instance
    dictionaries, getattr of the declared attributes, containers, the keyed containers' `_list` /
    `_dict` AND their public by-position / by-key lookups), except values of declared do_not_copy
    attributes and the caller's own arguments;
  * every keyed container reachable from the result (and from the receiver) is coherent:
    `c[key] is c[index] is c.get(key)` for every item, `_dict` and `_list` hold the same objects;
  * in-place changes of the result made through by-key lookups, by-position lookups, iteration,
    container methods and `_inplace=True` helpers (every depth: item, the item's own keyed
    container, the leaf's list) leave the receiver's structural value -- observed by position AND by
    key -- unchanged, and vice versa.
"""
import collections
import types

from c02_state import ATOMIC, sentinels

M = "verif_generated"
H_ATTRS = ("label", "count", "items", "members", "byname", "layers", "inner", "plain")


def _keyed_base():
    from spec_classes.types.keyed import KeyedBase
    return KeyedBase


def reach(root):
    """id -> (object, access path) for every mutable object reachable from `root`"""
    KB = _keyed_base()
    sent = sentinels()
    seen = {}
    stack = [(root, "")]
    while stack:
        o, p = stack.pop()
        if isinstance(o, ATOMIC) or any(o is s for s in sent):
            continue
        if isinstance(o, types.MethodType):
            stack.append((o.__self__, p + ".__self__"))
            continue
        if isinstance(o, (tuple, frozenset)):
            stack.extend((x, p + "(%d)" % i) for i, x in enumerate(o))
            continue
        if id(o) in seen:
            continue
        seen[id(o)] = (o, p)
        if isinstance(o, KB):
            d = object.__getattribute__(o, "__dict__")
            for k, v in d.items():
                if k not in ("_type", "_key"):      # configuration (a typing alias / a function), not content
                    stack.append((v, p + "." + k))
            try:
                for i, x in enumerate(list(o)):
                    stack.append((x, p + "<iter %d>" % i))
                    if "_list" in d:
                        stack.append((o[i], p + "[%d]" % i))
                for k in list(o.keys()):
                    stack.append((o[k], p + "[%r]" % (k,)))
                    stack.append((o.get(k), p + ".get(%r)" % (k,)))
            except Exception:
                pass        # an incoherent container: reported by `incoherent`
        elif isinstance(o, dict):
            for k, v in o.items():
                stack.append((k, p + "<key %r>" % (k,)))
                stack.append((v, p + "[%r]" % (k,)))
        elif isinstance(o, (list, collections.deque)):
            stack.extend((x, p + "[%d]" % i) for i, x in enumerate(o))
        elif isinstance(o, set):
            stack.extend((x, p + "<elem>") for x in o)
        else:
            try:
                st = object.__getattribute__(o, "__dict__")
            except AttributeError:
                continue
            for k, v in st.items():
                stack.append((v, p + "." + k))
            for n in getattr(type(o), "__spec_class__", None) and type(o).__spec_class__.attrs or ():
                if n not in st:
                    try:
                        stack.append((getattr(o, n), p + ".<getattr %s>" % n))
                    except Exception:
                        pass
    return seen


def shared(ia, ib, exempt):
    """`ia`, `ib`: reach() of result and receiver"""
    ex = {}
    for e in exempt:
        ex.update(reach(e))
    return [(ia[i][0], ia[i][1], ib[i][1]) for i in ia if i in ib and i not in ex]


def incoherent(reached):
    """keyed containers among reach(obj) whose by-key view and by-position view disagree"""
    KB = _keyed_base()
    out = []
    for o, p in list(reached.values()):
        if not isinstance(o, KB):
            continue
        d = object.__getattribute__(o, "__dict__")
        try:
            its = list(o)
            keys = list(o.keys())
            if len(keys) != len(its) or len(d["_dict"]) != len(its):
                out.append("%s: %d items but %d keys" % (p, len(its), len(d["_dict"])))
                continue
            for i, x in enumerate(its):
                k = o.key(x)
                if k not in keys:       # (the ORDER of keys() is insertion order, not position order)
                    out.append("%s: the key %r of the item at position %d is not among keys()" % (p, k, i))
                if o[k] is not x or o.get(k) is not x or d["_dict"].get(k) is not x:
                    out.append("%s: the item looked up by key %r is not the item at position %d" % (p, k, i))
                if "_list" in d and (o[i] is not x or d["_list"][i] is not x):
                    out.append("%s: position %d disagrees with iteration" % (p, i))
                if k not in o:
                    out.append("%s: key %r not contained" % (p, k))
        except Exception as e:
            out.append("%s: %r while reading the container" % (p, e))
    return out


def canon(obj, skip=(), skip_cls=None):
    """structural value (no identities); keyed containers are shown by position AND by key"""
    KB = _keyed_base()
    memo = {}       # an item of a keyed container is met three times (position, c[key], c.get(key))

    def go(o, top, seen):
        if id(o) in memo and not top:
            return memo[id(o)]
        out = memo[id(o)] = go1(o, top, seen)
        return out

    def go1(o, top, seen):
        if isinstance(o, types.MethodType):
            return ("method", o.__func__.__name__)
        if isinstance(o, ATOMIC):
            return ("scalar", type(o).__name__, repr(o))
        if id(o) in seen:
            return ("cycle",)
        seen = seen | {id(o)}
        if isinstance(o, KB):
            try:
                by_key = tuple((repr(k), go(o[k], False, seen), go(o.get(k), False, seen)) for k in o.keys())
            except Exception as e:
                by_key = ("raised", repr(e))
            return ("keyed", type(o).__name__, tuple(go(x, False, seen) for x in o), by_key)
        if isinstance(o, (list, tuple, collections.deque)):
            return (type(o).__name__, tuple(go(x, False, seen) for x in o))
        if isinstance(o, (set, frozenset)):
            return (type(o).__name__, tuple(sorted(repr(go(x, False, seen)) for x in o)))
        if isinstance(o, dict):
            return ("dict", tuple((go(k, False, seen), go(v, False, seen)) for k, v in o.items()))
        try:
            st = object.__getattribute__(o, "__dict__")
        except AttributeError:
            return ("scalar", type(o).__name__, repr(o))
        drop = skip if (top or (skip_cls is not None and isinstance(o, skip_cls))) else ()
        return ("inst", type(o).__name__, tuple((k, go(v, False, seen)) for k, v in st.items() if k not in drop))
    return go(obj, True, frozenset())


def keyed_family(eager, dnc):
    """Leaf (keyed) <- K (keyed; holds a KeyedList of Leaf) <- H (keyed by label; KeyedList / KeyedSet of K,
    Dict of KeyedList, List of KeyedSet, nested K, plain List of K) <- Outer (H as value, list elements, dict
    values and KeyedList items).  Returns the classes and (class, declared do_not_copy) of H."""
    from typing import Dict, List

    from spec_classes import spec_class
    from spec_classes.types import KeyedList, KeyedSet
    kw = {"bootstrap": True} if eager else {}

    @spec_class(key="name", **kw)
    class Leaf:
        __module__ = M
        name: str
        tags: List[str] = []

    @spec_class(key="name", **kw)
    class K:
        __module__ = M
        name: str
        marks: List[int] = []
        subs: KeyedList[Leaf, str] = KeyedList[Leaf, str]()

    dkw = {"do_not_copy": list(dnc)} if dnc else {}

    @spec_class(key="label", **dkw, **kw)
    class H:
        __module__ = M
        label: str = "h"
        count: int = 0
        items: KeyedList[K, str] = KeyedList[K, str]()
        members: KeyedSet[K, str] = KeyedSet[K, str]()
        byname: Dict[str, KeyedList[K, str]] = {}
        layers: List[KeyedSet[K, str]] = []
        inner: K = K("i0")
        plain: List[K] = []

    class PlainH(H):
        __module__ = M

    @spec_class(**kw)
    class SubH(H):
        __module__ = M
        more: KeyedList[K, str] = KeyedList[K, str]()

    @spec_class(**kw)
    class Outer:
        __module__ = M
        kid: H
        kids: List[H] = []
        lookup: Dict[str, H] = {}
        regs: KeyedList[H, str] = KeyedList[H, str]()
        pool: KeyedSet[H, str] = KeyedSet[H, str]()
        n: int = 0

    ns = types.SimpleNamespace(Leaf=Leaf, K=K, H=H, PlainH=PlainH, SubH=SubH, Outer=Outer, KeyedList=KeyedList,
                               KeyedSet=KeyedSet)
    ns.members = [(H, tuple(dnc)), (PlainH, tuple(dnc)), (SubH, ())]
    return ns


def mk_k(ns, name, marks=()):
    return ns.K(name, marks=list(marks), subs=[ns.Leaf("s", tags=["t0"]), ns.Leaf("u")])


def make(ns, cls, mode="ctor", label="h"):
    """a receiver whose every attribute holds freshly built values.  ctor: through the constructor;
    inplace: through with_<attr>(_inplace=True); grown: the keyed containers filled item by item
    (element helpers, append / insert / __setitem__ by key / add)"""
    KL, KS = ns.KeyedList[ns.K, str], ns.KeyedSet[ns.K, str]

    def k(n, m=()):
        return mk_k(ns, n, m)
    kw = dict(label=label, count=1, items=[k("a", [5]), k("b")], members=[k("c"), k("d", [2])],
              byname={"n": KL([k("e", [1]), k("g")]), "m": KL()}, layers=[KS([k("f", [3])]), KS()],
              inner=k("i", [2]), plain=[k("p", [1])])
    if mode == "ctor":
        return cls(**kw)
    if mode == "inplace":
        o = cls()
        for a, v in kw.items():
            getattr(o, "with_" + a)(v, _inplace=True)
        return o
    o = cls(label=label, count=1, inner=kw["inner"], plain=kw["plain"])
    o.with_item(k("b"), _inplace=True)
    o.items.insert(0, k("a", [4]))
    o.items["a"] = k("a", [5])                  # replaced by key
    o.with_member("c", _inplace=True)
    o.members.add(k("d", [2]))
    o.update_member("c", subs=[ns.Leaf("s", tags=["t0"]), ns.Leaf("u")], _inplace=True)
    o.with_byname_item("n", KL(), _inplace=True)
    o.byname["n"].append(k("e", [1]))
    o.byname["n"].extend([k("g")])
    o.with_byname_item("m", KL(), _inplace=True)
    o.with_layer(KS([k("f", [3])]), _inplace=True)
    o.with_layer(KS(), _inplace=True)
    return o


def h_calls(ns, arg):
    """(name, call, attributes addressed)"""
    import copy
    K, Leaf = ns.K, ns.Leaf
    KL, KS = ns.KeyedList[K, str], ns.KeyedSet[K, str]

    def inc(v):
        return v + 1

    def nk(n="z", m=()):
        return arg(mk_k(ns, n, m))
    return [
        ("deepcopy", lambda o: copy.deepcopy(o), ()),
        ("with_count(3)", lambda o: o.with_count(3), ("count",)),
        ("with_label('z')", lambda o: o.with_label("z"), ("label",)),
        ("update_count(4)", lambda o: o.update_count(4), ("count",)),
        ("transform_count(+1)", lambda o: o.transform_count(inc), ("count",)),
        ("reset_count()", lambda o: o.reset_count(), ("count",)),
        ("with_items(new list)", lambda o: o.with_items(arg([nk("n")])), ("items",)),
        ("with_items(new KeyedList)", lambda o: o.with_items(arg(KL([nk("n")]))), ("items",)),
        ("with_members(new)", lambda o: o.with_members(arg([nk("n")])), ("members",)),
        ("with_byname(new)", lambda o: o.with_byname(arg({"q": arg(KL([nk("n")]))})), ("byname",)),
        ("with_layers(new)", lambda o: o.with_layers(arg([arg(KS([nk("n")]))])), ("layers",)),
        ("with_inner(new)", lambda o: o.with_inner(nk("n")), ("inner",)),
        ("with_plain(new)", lambda o: o.with_plain(arg([nk("n")])), ("plain",)),
        ("transform_items(xs + [z])", lambda o: o.transform_items(lambda xs: xs + [nk()]), ("items",)),
        ("transform_items(identity)", lambda o: o.transform_items(lambda xs: xs), ("items",)),
        ("transform_members(identity)", lambda o: o.transform_members(lambda xs: xs), ("members",)),
        ("transform_members(xs | {z})", lambda o: o.transform_members(lambda xs: xs | KS([nk()])), ("members",)),
        ("transform_byname(identity)", lambda o: o.transform_byname(lambda d: d), ("byname",)),
        ("update_inner(marks=new)", lambda o: o.update_inner(marks=arg([9])), ("inner",)),
        ("update_inner(subs=new)", lambda o: o.update_inner(subs=arg([arg(Leaf("w"))])), ("inner",)),
        ("transform_inner(subs=xs + [w])", lambda o: o.transform_inner(subs=lambda s: s + [arg(Leaf("w"))]), ("inner",)),
        ("reset_items()", lambda o: o.reset_items(), ("items",)),
        ("reset_members()", lambda o: o.reset_members(), ("members",)),
        ("reset_byname()", lambda o: o.reset_byname(), ("byname",)),
        ("reset_inner()", lambda o: o.reset_inner(), ("inner",)),
        ("with_item(new K)", lambda o: o.with_item(nk()), ("items",)),
        ("with_item('z', marks=new)", lambda o: o.with_item("z", marks=arg([3])), ("items",)),
        ("with_item(new K, _index=0, _insert=True)", lambda o: o.with_item(nk(), _index=0, _insert=True), ("items",)),
        ("update_item('b', marks=new)", lambda o: o.update_item("b", marks=arg([3])), ("items",)),
        ("update_item(0, marks=new)", lambda o: o.update_item(0, marks=arg([3]), _by_index=True), ("items",)),
        ("transform_item('a', marks=copy+[1])", lambda o: o.transform_item("a", marks=lambda m: list(m) + [1]), ("items",)),
        ("transform_item('a', subs=xs+[w])", lambda o: o.transform_item("a", subs=lambda s: s + [arg(Leaf("w"))]), ("items",)),
        ("without_item('a')", lambda o: o.without_item("a"), ("items",)),
        ("without_item(0)", lambda o: o.without_item(0, _by_index=True), ("items",)),
        ("with_member(new K)", lambda o: o.with_member(nk()), ("members",)),
        ("with_member('z', marks=new)", lambda o: o.with_member("z", marks=arg([3])), ("members",)),
        ("update_member('c', marks=new)", lambda o: o.update_member("c", marks=arg([3])), ("members",)),
        ("transform_member('d', marks=copy+[1])", lambda o: o.transform_member("d", marks=lambda m: list(m) + [1]), ("members",)),
        ("without_member('c')", lambda o: o.without_member("c"), ("members",)),
        ("with_byname_item('k', new)", lambda o: o.with_byname_item("k", arg(KL([nk()]))), ("byname",)),
        ("transform_byname_item('n', xs+[z])", lambda o: o.transform_byname_item("n", lambda xs: xs + [nk()]), ("byname",)),
        ("without_byname_item('n')", lambda o: o.without_byname_item("n"), ("byname",)),
        ("with_layer(new)", lambda o: o.with_layer(arg(KS([nk()]))), ("layers",)),
        ("transform_layer(0, xs | {z})", lambda o: o.transform_layer(0, lambda xs: xs | KS([nk()]), _by_index=True), ("layers",)),
        ("without_layer(1)", lambda o: o.without_layer(1, _by_index=True), ("layers",)),
        ("with_plain_item(new K)", lambda o: o.with_plain_item(nk()), ("plain",)),
        ("update(count=7)", lambda o: o.update(count=7), ("count",)),
        ("update(items=new, label='q')", lambda o: o.update(items=arg([nk("n")]), label="q"), ("items", "label")),
        ("transform(count=+1)", lambda o: o.transform(count=inc), ("count",)),
        ("transform(items=xs+[z])", lambda o: o.transform(items=lambda xs: xs + [nk()]), ("items",)),
        ("reset()", lambda o: o.reset(), ("*",)),
    ]


def outer_calls(ns, cls, arg):
    import copy

    def inc(v):
        return v + 1

    def new(label="new"):
        return arg(make(ns, cls, "ctor", label))
    return [
        ("deepcopy", lambda h: copy.deepcopy(h)),
        ("with_n(2)", lambda h: h.with_n(2)),
        ("update(n=1)", lambda h: h.update(n=1)),
        ("transform(n=+1)", lambda h: h.transform(n=inc)),
        ("reset_n()", lambda h: h.reset_n()),
        ("with_kid(new)", lambda h: h.with_kid(new())),
        ("update_kid(count=3)", lambda h: h.update_kid(count=3)),
        ("transform_kid(count=+1)", lambda h: h.transform_kid(count=inc)),
        ("update_kid(items=new)", lambda h: h.update_kid(items=arg([arg(mk_k(ns, "n"))]))),
        ("with_kids_item(new)", lambda h: h.with_kids_item(new())),
        ("update_kids_item(0, count=5)", lambda h: h.update_kids_item(0, count=5)),
        ("without_kids_item(0)", lambda h: h.without_kids_item(0)),
        ("with_lookup_item('c', new)", lambda h: h.with_lookup_item("c", new())),
        ("update_lookup_item('a', count=2)", lambda h: h.update_lookup_item("a", count=2)),
        ("without_lookup_item('a')", lambda h: h.without_lookup_item("a")),
        ("with_reg(new)", lambda h: h.with_reg(new())),
        ("update_reg('r1', count=2)", lambda h: h.update_reg("r1", count=2)),
        ("transform_reg('r2', count=+1)", lambda h: h.transform_reg("r2", count=inc)),
        ("without_reg('r1')", lambda h: h.without_reg("r1")),
        ("transform_regs(xs + [new])", lambda h: h.transform_regs(lambda xs: xs + [new()])),
        ("with_pool_item(new)", lambda h: h.with_pool_item(new())),
        ("update_pool_item('p1', count=2)", lambda h: h.update_pool_item("p1", count=2)),
        ("without_pool_item('p1')", lambda h: h.without_pool_item("p1")),
        ("reset_kids()", lambda h: h.reset_kids()),
    ]


def poke(ns, x):
    """in-place changes of an H instance through every access path and at every depth"""
    K, Leaf = ns.K, ns.Leaf
    ops = [
        # lookups by key
        lambda: x.items["a"].marks.append(99), lambda: x.items["b"].marks.append(99),
        lambda: x.items.get("b").with_mark(98, _inplace=True), lambda: x.items.get("z").with_mark(98, _inplace=True),
        lambda: x.items["a"].subs["s"].tags.append("poked"), lambda: x.items["b"].with_sub("new", _inplace=True),
        lambda: x.items["n"].subs.get("u").with_tag("poked", _inplace=True),
        lambda: x.members["c"].marks.append(99), lambda: x.members["d"].subs["s"].tags.append("poked"),
        lambda: x.members.get("z").marks.append(99), lambda: x.members.get("n").marks.append(99),
        lambda: x.byname["n"]["e"].marks.append(99), lambda: x.byname["n"].get("g").subs["u"].tags.append("poked"),
        lambda: x.byname["q"]["n"].marks.append(99), lambda: x.byname["k"]["z"].marks.append(99),
        lambda: x.layers[0]["f"].marks.append(99), lambda: x.layers[0].get("f").subs["s"].tags.append("poked"),
        lambda: x.inner.subs["s"].tags.append("poked"), lambda: x.inner.subs.get("w").tags.append("poked"),
        lambda: x.more["x"].marks.append(99),
        # positions / iteration
        lambda: x.items[0].marks.append(97), lambda: x.items[-1].subs[0].tags.append("pos"),
        lambda: [i.marks.append(96) for i in x.items], lambda: [i.marks.append(96) for i in x.members],
        lambda: [i.marks.append(96) for kl in x.byname.values() for i in kl],
        lambda: [i.marks.append(96) for ks in x.layers for i in ks],
        lambda: x.plain[0].marks.append(97), lambda: x.inner.marks.append(97),
        # helpers in place
        lambda: x.update_item("a", marks=[1, 2, 3], _inplace=True), lambda: x.with_item("pk", _inplace=True),
        lambda: x.transform_item("b", marks=lambda m: m + [7], _inplace=True),
        lambda: x.with_member("pm", _inplace=True), lambda: x.update_member("d", marks=[7], _inplace=True),
        lambda: x.with_count(99, _inplace=True), lambda: x.update_inner(name="poked", _inplace=True),
        # the containers' own methods
        lambda: x.items.append(mk_k(ns, "ap")), lambda: x.items.__setitem__("b", K("b", marks=[55])),
        lambda: x.items.__delitem__("a"), lambda: x.members.add(K("ad")), lambda: x.members.discard("c"),
        lambda: x.byname["n"].append(K("pk")), lambda: x.layers[0].add(K("pk")), lambda: x.items.reverse(),
        lambda: x.inner.subs.append(Leaf("pk")),
    ]
    skipped = 0
    for f in ops:
        try:
            f()
        except (AttributeError, IndexError, KeyError, TypeError, ValueError):
            skipped += 1            # the item / attribute was removed by the call under test
    return skipped


CONFIGS = [(e, d) for e in (False, True) for d in ((), ("byname", "plain"))]
MODES = ("ctor", "inplace", "grown")


def keyed_container_probe(chk, extra, only=None, full=False):
    """quick tier: lazy classes without do_not_copy and eager classes with a do_not_copy list;
    `full` (thorough tier, replays): all four configurations"""
    n = bad = raised = skipped = 0
    args = []
    raised_list = extra.setdefault("keyed_container_raised", [])

    def arg(x):
        args.append(x)
        return x

    def report(reasons, info):
        nonlocal bad
        bad += 1
        if bad <= 4:
            chk.violation("C02 violated by the implementation: %s on an instance of %s (%s; KeyedList / KeyedSet attributes of "
                          "keyed spec items; declared do_not_copy: %s): %s"
                          % (info["call"], info["class"], info["nesting"], info["declared"], "; ".join(reasons)),
                          dict(info, kind="keyed-container", reasons=reasons), sig={"kind": "keyed-container"})

    def describe(sh):
        o, pr, po = sh[0]
        return ("%d mutable object(s) reachable from both result and receiver, e.g. %s (result%s, receiver%s)"
                % (len(sh), repr(o)[:60], pr, po))

    configs = [c for c in CONFIGS if (c == only if only is not None else (full or c[0] == bool(c[1])))]
    for eager, dnc0 in configs:
        ns = keyed_family(eager, dnc0)
        calls = h_calls(ns, arg)
        for cls, dnc in ns.members:
            for ci, (name, call, touched) in enumerate(calls):
                modes = MODES if (full or name == "deepcopy") else (MODES[ci % 3],)
                for mode in modes:
                    o = make(ns, cls, mode)
                    if cls is ns.SubH:
                        o.with_more([mk_k(ns, "x", [1])], _inplace=True)
                    info = {"eager": eager, "base_dnc": list(dnc0), "class": cls.__name__, "declared": list(dnc),
                            "call": name, "nesting": "receiver, built by " + mode}
                    n += 1
                    pre = incoherent(reach(o))
                    if pre:     # the constructor / the in-place helpers copy the caller's values
                        report(["receiver incoherent before the call: " + pre[0]], info)
                        continue
                    del args[:]
                    try:
                        r = call(o)
                    except Exception as e:      # not this property; counted, must stay 0 on /repo
                        raised += 1
                        raised_list.append("%s.%s: %r" % (cls.__name__, name, e))
                        continue
                    so, sr = vars(o), vars(r)
                    reasons = []
                    if r is o:
                        reasons.append("the result is the receiver itself")
                    rr, ro = reach(r), reach(o)
                    if r is not o:
                        sh = shared(rr, ro, [so[a] for a in dnc if a in so] + list(args))
                        if sh:
                            reasons.append(describe(sh))
                    inc_r, inc_o = incoherent(rr), incoherent(ro)
                    if inc_r:
                        reasons.append("keyed container of the result incoherent: result" + inc_r[0])
                    if inc_o:
                        reasons.append("keyed container of the receiver incoherent after the call: receiver" + inc_o[0])
                    for a in dnc:
                        if "*" not in touched and a not in touched and a in so and (a not in sr or sr[a] is not so[a]):
                            reasons.append("do_not_copy attribute %s duplicated" % a)
                    if not reasons:
                        before = canon(o, skip=dnc)
                        skipped += poke(ns, r)
                        if canon(o, skip=dnc) != before:
                            reasons.append("in-place changes of the result (items reached by key / position / helpers) are "
                                           "visible through the receiver")
                        before = canon(r, skip=dnc)
                        skipped += poke(ns, o)
                        if canon(r, skip=dnc) != before:
                            reasons.append("in-place changes of the receiver (items reached by key / position / helpers) are "
                                           "visible through the result")
                    if reasons:
                        report(reasons, info)
            # ---- instances nested in a copy-on-write holder: value, list elements, dict values, KeyedList / KeyedSet items
            if not full and cls is not (ns.SubH if eager else ns.H):
                continue
            for ci, (name, call) in enumerate(outer_calls(ns, cls, arg)):
                def mk(label, i=0):
                    return make(ns, cls, MODES[(ci + i) % 3], label)
                h = ns.Outer(kid=mk("k0"), kids=[mk("k1", 1), mk("k2", 2)], lookup={"a": mk("la"), "b": mk("lb", 1)},
                             regs=[mk("r1", 2), mk("r2")], pool=[mk("p1", 1), mk("p2", 2)])

                def nested(x):
                    v = vars(x)
                    return ([v["kid"]] if "kid" in v else []) + list(v.get("kids", [])) + list(v.get("lookup", {}).values()) \
                        + list(v.get("regs", [])) + list(v.get("pool", []))
                info = {"eager": eager, "base_dnc": list(dnc0), "class": cls.__name__, "declared": list(dnc), "call": name,
                        "nesting": "nested in a holder: value, list elements, dict values, KeyedList items, KeyedSet items"}
                del args[:]
                n += 1
                try:
                    r = call(h)
                except Exception as e:
                    raised += 1
                    raised_list.append("Outer[%s].%s: %r" % (cls.__name__, name, e))
                    continue
                reasons = []
                if r is h:
                    reasons.append("the result is the receiver itself")
                rr, ro = reach(r), reach(h)
                if r is not h:
                    sh = shared(rr, ro, [vars(x)[a] for x in nested(h) for a in dnc if a in vars(x)] + list(args))
                    if sh:
                        reasons.append(describe(sh))
                inc_r, inc_o = incoherent(rr), incoherent(ro)
                if inc_r:
                    reasons.append("keyed container of the result incoherent: result" + inc_r[0])
                if inc_o:
                    reasons.append("keyed container of the receiver incoherent after the call: receiver" + inc_o[0])
                if not reasons:
                    before = canon(h, skip=dnc, skip_cls=ns.H)
                    for x in nested(r):
                        if not any(x is a for a in args):
                            skipped += poke(ns, x)
                    for f in (lambda: r.regs["r2"].items["b"].marks.append(1), lambda: r.pool["p2"].members["d"].marks.append(1),
                              lambda: r.regs.get("r1").inner.subs["s"].tags.append("x")):
                        try:
                            f()
                        except (AttributeError, KeyError, IndexError, ValueError):
                            skipped += 1
                    if canon(h, skip=dnc, skip_cls=ns.H) != before:
                        reasons.append("in-place changes of the instances nested in the result are visible through the receiver")
                    before = canon(r, skip=dnc, skip_cls=ns.H)
                    for x in nested(h):
                        skipped += poke(ns, x)
                    if canon(r, skip=dnc, skip_cls=ns.H) != before:
                        reasons.append("in-place changes of the instances nested in the receiver are visible through the result")
                if reasons:
                    report(reasons, info)
    if not raised_list:
        del extra["keyed_container_raised"]
    extra["keyed_container_probe"] = {
        "cases": n, "failing": bad, "raised": raised, "inplace_followups_skipped": skipped, "configurations": len(configs),
        "rule": "implementation only: KeyedList / KeyedSet attributes of keyed spec items (items holding their own KeyedList), "
                "Dict of KeyedList, List of KeyedSet, on a keyed spec class, a plain and a spec subclass, as receiver and nested "
                "in a holder (value, list elements, dict values, KeyedList / KeyedSet items); deepcopy and every helper kind; "
                "oracle: nothing mutable reachable from both sides -- through the containers' _list / _dict and by-key / "
                "by-position lookups -- except declared do_not_copy attributes and the caller's arguments; c[key] is c[index] "
                "on both sides; in-place follow-ups through by-key lookups on both sides"}
