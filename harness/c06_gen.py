"""Generators of the C06 check.

Exhaustive small scope: every list / dict / set content of <= 3 elements over
{0, 1, 2} (ints; strings '', 'a7', 'a8' for dict keys and for the List[str]
attribute) x every element helper x every addressing mode (_index/_insert,
_by_index True/False/default, key, value) x indices in [-len-1, len+1], the
container present or missing; plus random larger containers with consecutive
edits, spec-class elements (keywords, bare keys, dict-as-arguments), item
preparers, and the flag combinations."""
import itertools

import inst_common as ic
import inst_gen as ig
from inst_gen import INT, MISSING, NONE, STR, S, V

A_LI, A_D, A_S, A_LS = 50, 51, 52, 55     # List[int], Dict[str,int], Set[int], List[str]
INTS = [V(0), V(1), V(2)]
STRS = [S(0), S(7), S(8)]                # '', 'a7', 'a8'
FNS_INT = [("addint", 1), ("const", V(0))]
FNS_STR = [("const", S(0)), ("id",)]


def small_table(prep_li=None, prep_s=None, defaults=False):
    """K1: leaf; K2: the four scalar-element collection attributes"""
    k1 = {"id": 1, "eager": True, "frozen": False, "key": None, "attrs": [
        {"aid": 1, "ty": INT, "default": V(0), "decl": "plain"}]}
    k2 = {"id": 2, "eager": False, "frozen": False, "attrs": [
        {"aid": A_LI, "ty": ("list", INT), "default": None, "factory": ("list", []) if defaults else None,
         "decl": "Attr", "prepare_item": prep_li},
        {"aid": A_D, "ty": ("dict", STR, INT), "default": None, "factory": ("dict", []) if defaults else None, "decl": "Attr"},
        {"aid": A_S, "ty": ("set", INT), "default": None, "factory": ("set", []) if defaults else None, "decl": "Attr",
         "prepare_item": prep_s},
        {"aid": A_LS, "ty": ("list", STR), "default": None, "factory": None, "decl": "Attr"},
    ]}
    return [k1, k2]


def list_contents(univ, maxlen=3):
    for n in range(maxlen + 1):
        for xs in itertools.product(univ, repeat=n):
            yield list(xs)


def dict_contents(maxlen=3):
    for n in range(maxlen + 1):
        for ks in itertools.permutations(STRS, n):
            for vs in itertools.product(INTS, repeat=n):
                yield list(zip(ks, vs))


def set_contents():
    for n in range(4):
        for xs in itertools.combinations(INTS, n):
            yield list(xs)


def H(pos, **kw):
    h = {"inplace": False, "if_": True, "pos": pos}
    h.update(kw)
    return h


def list_ops(aid, n, univ, fns, other):
    """every element-helper call on a list of length n; `other`: values of the other scalar type
    (used as _value_or_index so that the defaulting rule picks 'index')"""
    idx = [V(i) for i in range(-n - 1, n + 2)]
    ops = []
    for v in univ:
        ops.append(("with_item", aid, H([v])))
        # `_insert=True` WITHOUT `_index`: nothing to insert before, the item is appended
        ops.append(("with_item", aid, H([v], insert=True)))
        for i in idx:
            for ins in (False, True):
                ops.append(("with_item", aid, H([v], index=i, insert=ins)))
    # `_index=None` handed over explicitly is an index that is no integer (TypeError), with and without `_insert`
    for ins in (False, True):
        ops.append(("with_item", aid, H([univ[0]], index=NONE, insert=ins)))
    targets = idx + [u for u in univ if u not in idx]
    for t in targets:
        for bi in (None, True, False):
            for v in univ:
                ops.append(("update_item", aid, H([t, v], by_index=bi)))
            for f in fns:
                ops.append(("transform_item", aid, H([t], by_index=bi, fn=f)))
            ops.append(("without_item", aid, H([t], by_index=bi)))
    return ops


def dict_ops(aid):
    keys = STRS + [S(9)]
    ops = []
    for k in keys:
        for v in INTS:
            ops.append(("with_item", aid, H([k, v])))
            ops.append(("update_item", aid, H([k, v])))
        for f in FNS_INT:
            ops.append(("transform_item", aid, H([k], fn=f)))
        ops.append(("without_item", aid, H([k])))
    return ops


def set_ops(aid):
    vals = INTS + [V(3)]
    ops = []
    for v in vals:
        ops.append(("with_item", aid, H([v])))
        for w in vals:
            ops.append(("update_item", aid, H([v, w])))
        for f in FNS_INT:
            ops.append(("transform_item", aid, H([v], fn=f)))
        ops.append(("without_item", aid, H([v])))
    return ops


def make_cases(table, aid, content_obj, ops, batch, inplace_every=0, rng=None):
    """histories: build the receiver with the given content (None: attribute missing), then
    apply `batch` copy-on-write calls to it (each on the untouched receiver); every
    `inplace_every`-th call is additionally run in place on a fresh deep copy"""
    _, heap0 = ic.resolve_table(table)
    nd = len(heap0)
    cases = []
    for k in range(0, len(ops), batch):
        hist = []
        nroots = nd
        if content_obj is not None:
            hist.append((("alloc", content_obj), None))
            hist.append((("construct", 2, None, [(aid, ("root", nroots))]), None))
            nroots += 2
        else:
            hist.append((("construct", 2, None, []), None))
            nroots += 1
        recv = nroots - 1
        for j, (kind, a, h) in enumerate(ops[k:k + batch]):
            hist.append((("helper", recv, (kind, a), dict(h)), None))
            nroots += 1
            if inplace_every and (k + j) % inplace_every == 0:
                hist.append((("deepcopy", recv), None))
                nroots += 1
                h2 = dict(h, inplace=True)
                hist.append((("helper", nroots - 1, (kind, a), h2), None))
                nroots += 1
        cases.append({"table": table, "ops": hist, "nd": nd})
    return cases


def exhaustive(tier, rng):
    """returns (cases, stats)"""
    quick = tier == "quick"
    cases = []
    stats = {"list_int_contents": 0, "list_str_contents": 0, "dict_contents": 0, "set_contents": 0,
             "operations_enumerated": 0, "operations_kept": 0}
    batch = 12

    def keep(ops, rate):
        stats["operations_enumerated"] += len(ops)
        if quick and rate < 1.0:
            ops = [o for o in ops if rng.random() < rate]
        stats["operations_kept"] += len(ops)
        return ops
    t_plain = small_table()
    t_prep = small_table(prep_li=("addint", 10), prep_s=("addint", 10))
    # lists of ints
    for xs in list_contents(INTS):
        stats["list_int_contents"] += 1
        ops = keep(list_ops(A_LI, len(xs), INTS, FNS_INT, STRS), 0.3)
        cases += make_cases(t_plain, A_LI, ("list", xs), ops, batch, inplace_every=5 if quick else 3)
    # lists of strings: integer targets fall under the defaulting rule "index unless element type"
    for xs in list_contents(STRS, 2 if quick else 3):
        stats["list_str_contents"] += 1
        n = len(xs)
        idx = [V(i) for i in range(-n - 1, n + 2)]
        ops = []
        for t in idx + STRS:
            for bi in (None, True, False):
                ops.append(("update_item", A_LS, H([t, S(7)], by_index=bi)))
                ops.append(("transform_item", A_LS, H([t], by_index=bi, fn=("const", S(0)))))
                ops.append(("without_item", A_LS, H([t], by_index=bi)))
        for i in idx:
            ops.append(("with_item", A_LS, H([S(0)], index=i, insert=True)))
            ops.append(("with_item", A_LS, H([S(8)], index=i)))
        for v in (S(0), S(8)):
            ops.append(("with_item", A_LS, H([v])))
            ops.append(("with_item", A_LS, H([v], insert=True)))
        ops = keep(ops, 0.4)
        cases += make_cases(t_plain, A_LS, ("list", xs), ops, batch, inplace_every=7)
    # dicts
    for kvs in dict_contents():
        stats["dict_contents"] += 1
        ops = keep(dict_ops(A_D), 0.3)
        cases += make_cases(t_plain, A_D, ("dict", kvs), ops, batch, inplace_every=5 if quick else 3)
    # sets
    for xs in set_contents():
        stats["set_contents"] += 1
        ops = keep(set_ops(A_S), 0.6)
        cases += make_cases(t_plain, A_S, ("set", xs), ops, batch, inplace_every=3)
        ops = keep(set_ops(A_S), 0.3)
        cases += make_cases(t_prep, A_S, ("set", xs), ops, batch, inplace_every=4)
    # item preparer on the list
    for xs in list_contents(INTS, 2):
        ops = keep(list_ops(A_LI, len(xs), INTS, FNS_INT, STRS), 0.2)
        cases += make_cases(t_prep, A_LI, ("list", xs), ops, batch, inplace_every=6)
    # the container is missing (created by the helper)
    for aid, ops in ((A_LI, list_ops(A_LI, 0, INTS, FNS_INT, STRS)), (A_D, dict_ops(A_D)), (A_S, set_ops(A_S))):
        ops = keep(ops, 0.5)
        cases += make_cases(t_plain, aid, None, ops, batch, inplace_every=4)
    # _if=False (no-op) samples
    noop = []
    for kind, a, h in list_ops(A_LI, 2, INTS, FNS_INT, STRS)[::9] + dict_ops(A_D)[::5] + set_ops(A_S)[::5]:
        noop.append((kind, a, dict(h, if_=False)))
    noop = keep(noop, 0.4)
    cases += make_cases(t_plain, A_LI, ("list", [V(0), V(1)]), [o for o in noop if o[1] == A_LI], batch, inplace_every=2)
    cases += make_cases(t_plain, A_D, ("dict", [(S(0), V(0))]), [o for o in noop if o[1] == A_D], batch, inplace_every=2)
    cases += make_cases(t_plain, A_S, ("set", [V(0)]), [o for o in noop if o[1] == A_S], batch, inplace_every=2)
    return cases, stats


def flag_combinations():
    """every combination of the flags of the list element helpers that the enumeration by
    (`_index` x `_insert`) leaves out, on an aimed set of receivers, kept in BOTH tiers (no sampling),
    each call copy-on-write and in place:
      * `with_<item>(x, _insert=True)` WITHOUT `_index` -- nothing to insert before, so the item is
        appended ("creating the container when it is missing"): container missing / empty (explicit
        and default_factory) / one / several elements with equal ones, List[int] and List[str], falsy
        items, an item preparer, an ill-typed item (ValueError, nothing changed), no item at all;
      * `_index=None` handed over explicitly (an index that is no integer: TypeError) with and
        without `_insert`;
      * the same calls under `_if=False` (nothing happens, whatever the other flags say);
      * `_by_index` True / False given explicitly together with `_if=False`, and on a missing container.
    (Dict / Set helpers have no flags besides `_inplace` / `_if`; `with_<item>` of a Dict of scalars
    requires key and value -- leaving one out is rejected by the signature, not by the helper.)"""
    cases = []
    t_plain, t_def = small_table(), small_table(defaults=True)
    t_prep = small_table(prep_li=("addint", 10), prep_s=("addint", 10))

    def with_calls(aid, univ, bad):
        ops = []
        for v in univ:
            ops.append(("with_item", aid, H([v], insert=True)))
        ops.append(("with_item", aid, H([univ[0]])))
        ops.append(("with_item", aid, H([bad], insert=True)))
        ops.append(("with_item", aid, H([], insert=True)))
        ops.append(("with_item", aid, H([])))
        for ins in (False, True):
            ops.append(("with_item", aid, H([univ[1]], index=NONE, insert=ins)))
            ops.append(("with_item", aid, H([univ[1]], index=NONE, insert=ins, if_=False)))
        ops.append(("with_item", aid, H([univ[1]], insert=True, if_=False)))
        ops.append(("with_item", aid, H([univ[1]], index=V(7), if_=False)))
        for bi in (True, False):
            ops.append(("without_item", aid, H([V(0)], by_index=bi, if_=False)))
            ops.append(("update_item", aid, H([V(0), univ[2]], by_index=bi, if_=False)))
            ops.append(("without_item", aid, H([V(0)], by_index=bi)))
            ops.append(("update_item", aid, H([V(0), univ[2]], by_index=bi)))
        return ops
    li = [None, [], [V(0)], [V(1), V(0)], [V(0), V(1), V(0)], [V(2), V(2), V(1), V(0)]]
    for table in (t_plain, t_def, t_prep):
        for xs in (li if table is t_plain else li[:2] + li[3:4] if table is t_def else li[:1] + li[2:3] + li[4:5]):
            cases += make_cases(table, A_LI, None if xs is None else ("list", xs), with_calls(A_LI, INTS, S(7)), 12,
                                inplace_every=1)
    for xs in (None, [], [S(0)], [S(7), S(0)], [S(0), S(8), S(0)]):
        cases += make_cases(t_plain, A_LS, None if xs is None else ("list", xs), with_calls(A_LS, STRS, V(1)), 12,
                            inplace_every=1)
    return cases


def random_chain(rng, n_ops, prep=False):
    """a larger container edited by consecutive calls, each applied to the result of the
    previous successful one (the implementation is run along to know which calls succeed)"""
    table = small_table(prep_li=("addint", 10) if prep and rng.random() < 0.5 else None, defaults=rng.random() < 0.5)
    _, heap0 = ic.resolve_table(table)
    nd = len(heap0)
    fam = rng.choice(["list", "list", "dict", "set", "lstr"])
    hist = []
    if fam == "list":
        aid, content = A_LI, ("list", [V(rng.choice([0, 1, 2, 3])) for _ in range(rng.randrange(3, 9))])
    elif fam == "lstr":
        aid, content = A_LS, ("list", [S(rng.choice([0, 7, 8])) for _ in range(rng.randrange(2, 7))])
    elif fam == "dict":
        aid, content = A_D, ("dict", [(S(k), V(rng.choice([0, 1, 2]))) for k in rng.sample([0, 7, 8, 9, 10], rng.randrange(2, 6))])
    else:
        aid, content = A_S, ("set", [V(x) for x in rng.sample([0, 1, 2, 3, 4, 5], rng.randrange(2, 6))])
    hist.append((("alloc", content), None))
    hist.append((("construct", 2, None, [(aid, ("root", nd))]), None))
    w = ic.World(table)
    w.run(hist)
    cur, nroots = nd + 1, nd + 2
    for _ in range(n_ops):
        holder = w.roots[cur]
        size = len(getattr(holder, ic.pyname(aid), ()) or ())
        if fam in ("list", "lstr"):
            univ, fns = (INTS + [V(3)], FNS_INT) if fam == "list" else (STRS, FNS_STR)
            ops = list_ops(aid, min(size, 8), univ, fns, None)
        elif fam == "dict":
            ops = dict_ops(aid)
        else:
            ops = set_ops(aid)
        kind, a, h = rng.choice(ops)
        h = dict(h, inplace=rng.random() < 0.4, if_=rng.random() > 0.05)
        op = (("helper", cur, (kind, a), h), None)
        hist.append(op)
        _, seen = w.run([op])
        if seen[-1][0] == [0] and not h["inplace"]:
            cur = nroots
        nroots += 1
    return {"table": table, "ops": hist, "nd": nd}


A_LK, A_DK = 53, 54      # List[K1], Dict[str, K1] with K1 keyed by attribute 2


def keyed_table(prep_item=None, key_default=False):
    """K1 keyed spec class; K2 with a list and a dict of K1, optionally with an item preparer"""
    k1 = {"id": 1, "eager": True, "frozen": False, "key": 2, "attrs": [
        {"aid": 2, "ty": STR, "default": S(7) if key_default else None, "decl": "plain"},
        {"aid": 1, "ty": INT, "default": V(0), "decl": "plain"}]}
    k2 = {"id": 2, "eager": False, "frozen": False, "attrs": [
        {"aid": A_LK, "ty": ("list", ("spec", 1)), "default": None, "factory": None, "decl": "Attr",
         "prepare_item": prep_item},
        {"aid": A_DK, "ty": ("dict", STR, ("spec", 1)), "default": None, "factory": None, "decl": "Attr",
         "prepare_item": prep_item},
    ]}
    return [k1, k2]


def keyed_elements(tier, rng):
    """bare keys promoted to keyed elements (with and without keywords, _index, _insert, on a
    missing / empty / one-element container), with and without an item preparer on the attribute"""
    cases = []
    kw = [(1, V(1))]
    list_calls = [
        ("with_item", A_LK, H([S(10)])),
        ("with_item", A_LK, H([S(10)], kw=kw)),
        ("with_item", A_LK, H([], kw=[(2, S(11)), (1, V(2))])),
        ("with_item", A_LK, H([S(10)], index=V(0), insert=True)),
        ("with_item", A_LK, H([S(10)], index=V(0))),
        ("with_item", A_LK, H([S(10)], index=V(-1), kw=kw)),
        ("with_item", A_LK, H([], index=V(0), kw=[(2, S(11))])),      # replace at index, keywords only: built from scratch
        ("update_item", A_LK, H([V(0), S(11)])),
        ("update_item", A_LK, H([V(0), S(11)], kw=kw)),
        ("update_item", A_LK, H([V(0)], kw=kw)),
        ("update_item", A_LK, H([V(-1), S(11)], by_index=True)),
        ("without_item", A_LK, H([V(0)])),
        # `_insert=True` without `_index`: appended like without the flag -- bare key promoted, bare key
        # with keywords, element built from keywords only; also under `_if=False` and with `_index=None`
        ("with_item", A_LK, H([S(10)], insert=True)),
        ("with_item", A_LK, H([S(10)], insert=True, kw=kw)),
        ("with_item", A_LK, H([], insert=True, kw=[(2, S(11)), (1, V(2))])),
        ("with_item", A_LK, H([S(10)], insert=True, if_=False)),
        ("with_item", A_LK, H([S(10)], index=NONE, insert=True)),
        ("with_item", A_LK, H([S(10)], index=NONE, kw=kw)),
    ]
    n_old = 12
    dict_calls = [
        ("with_item", A_DK, H([S(7), S(10)])),
        ("with_item", A_DK, H([S(7), S(10)], kw=kw)),
        ("with_item", A_DK, H([S(8)], kw=[(2, S(11))])),
        # existing key, keywords only: with_ REPLACES -- the element is built from scratch,
        # nothing of the stored element (non-default a1) may leak into it
        ("with_item", A_DK, H([S(7)], kw=[(2, S(11))])),
        ("with_item", A_DK, H([S(7)], kw=[(2, S(10)), (1, V(2))])),
        ("update_item", A_DK, H([S(7), S(11)])),
        ("update_item", A_DK, H([S(7), S(11)], kw=kw)),
        ("update_item", A_DK, H([S(7)], kw=kw)),
        ("without_item", A_DK, H([S(7)])),
    ]
    for prep in (None, ("id",)):
        for key_default in (False, True):
            table = keyed_table(prep, key_default)
            _, heap0 = ic.resolve_table(table)
            nd = len(heap0)
            for aid, calls in ((A_LK, list_calls), (A_DK, dict_calls)):
                for content in ("missing", "empty", "one"):
                    hist, n = [], nd
                    if content == "missing":
                        hist.append((("construct", 2, None, []), None))
                        n += 1
                    else:
                        elems = []
                        if content == "one":
                            hist.append((("construct", 1, S(7), [(1, V(5))]), None))
                            elems = [("root", n)]
                            n += 1
                        obj = ("list", elems) if aid == A_LK else ("dict", [(S(7), e) for e in elems])
                        hist.append((("alloc", obj), None))
                        hist.append((("construct", 2, None, [(aid, ("root", n))]), None))
                        n += 2
                    recv = n - 1
                    for j, (kind, a, h) in enumerate(calls):
                        hist.append((("helper", recv, (kind, a), dict(h)), None))
                        n += 1
                        if j % 2 == 0 or (aid == A_LK and j >= n_old):
                            hist.append((("deepcopy", recv), None))
                            n += 1
                            hist.append((("helper", n - 1, (kind, a), dict(h, inplace=True)), None))
                            n += 1
                    cases.append({"table": table, "ops": hist, "nd": nd})
    return cases


def object_addressed():
    """List[K1] / Dict[str,K1] of keyed elements holding two / one element(s) with non-default
    attributes; the list element is addressed by an element OBJECT: equal to the stored one
    (found by value), only key-equal (other attribute differs: not found, ValueError like
    list.index) or with an absent key; update_ with keywords / a new bare key, transform_ with a
    function and with attribute transforms, without_, with_ (append / replace at index), explicit
    _by_index=False; copy-on-write and in place.  The dict element is addressed by its key and
    updated with a replacement element object plus keywords, transformed by attribute."""
    cases = []
    kw = [(1, V(1))]
    for prep in (None, ("id",)):
        table = keyed_table(prep, False)
        _, heap0 = ic.resolve_table(table)
        nd = len(heap0)
        for pkey, pkw in ((7, [(1, V(5))]), (7, [(1, V(6))]), (7, []), (8, [(1, V(5))])):
            for fam in ("list", "dict"):
                hist, n = [], nd
                hist.append((("construct", 1, S(7), [(1, V(5))]), None))
                hist.append((("construct", 1, S(9), [(1, V(2))]), None))
                e, e2 = n, n + 1
                n += 2
                if fam == "list":
                    hist.append((("alloc", ("list", [("root", e2), ("root", e)])), None))
                    aid = A_LK
                else:
                    hist.append((("alloc", ("dict", [(S(9), ("root", e2)), (S(7), ("root", e))])), None))
                    aid = A_DK
                hist.append((("construct", 2, None, [(aid, ("root", n))]), None))
                n += 2
                recv = n - 1
                hist.append((("construct", 1, S(pkey), pkw), None))
                p = ("root", n)
                n += 1
                if fam == "list":
                    calls = [
                        ("update_item", aid, H([p], kw=kw)),
                        ("update_item", aid, H([p, S(11)])),
                        ("transform_item", aid, H([p], fn=("id",), kwfn=[(1, ("addint", 1))])),
                        ("transform_item", aid, H([p], fn=("id",))),
                        ("without_item", aid, H([p])),
                        ("with_item", aid, H([p])),
                        ("with_item", aid, H([p], insert=True)),           # no index: appended
                        ("with_item", aid, H([p], insert=True, kw=kw)),
                        ("with_item", aid, H([p], index=V(0))),
                        ("with_item", aid, H([p], index=V(1), kw=kw)),
                        ("update_item", aid, H([p], kw=kw, by_index=False)),
                        ("without_item", aid, H([p], by_index=False)),
                    ]
                else:
                    calls = [
                        ("update_item", aid, H([S(7), p], kw=kw)),
                        ("update_item", aid, H([S(7), p])),
                        ("update_item", aid, H([S(7)], kw=[(2, S(11))])),
                        ("transform_item", aid, H([S(7)], fn=("id",), kwfn=[(1, ("addint", 1))])),
                        ("transform_item", aid, H([S(9)], fn=("id",))),
                        ("with_item", aid, H([S(7), p])),
                        ("with_item", aid, H([S(9), p], kw=kw)),
                        ("without_item", aid, H([S(7)])),
                    ]
                for kind, a, h in calls:
                    hist.append((("helper", recv, (kind, a), dict(h)), None))
                    hist.append((("deepcopy", recv), None))
                    hist.append((("helper", n + 1, (kind, a), dict(h, inplace=True)), None))
                    n += 3
                cases.append({"table": table, "ops": hist, "nd": nd})
    return cases


def spec_elements(rng, n_ops):
    """element helpers on List/Dict of (keyed) spec classes: keywords build/update the
    element, bare keys are promoted, dicts are constructor arguments (conforming arguments)"""
    case = ig.gen_case(rng, n_ops, bad_rate=0.0, fail_rate=0.0, inplace_rate=0.35,
                       weights={"construct": 1, "setattr": 1, "item": 9, "scalar": 1, "deepcopy": 1})
    return insert_without_index(case, rng, 0.4)


def insert_without_index(case, rng, rate):
    """the shared history grammar draws `_insert` only together with an `_index`: hand `_insert=True`
    to a share of the list `with_<item>` calls that give NO index (the item is appended all the same)"""
    fam = {a["aid"]: a["ty"][0] for c in case["table"] for a in c.get("attrs", []) if "ty" in a}
    for op, _ in case["ops"]:
        if op[0] == "helper" and op[2][0] == "with_item" and fam.get(op[2][1]) == "list":
            h = op[3]
            if h.get("index", MISSING)[0] == "missing" and not h.get("insert") and rng.random() < rate:
                h["insert"] = True
    return case
