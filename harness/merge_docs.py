"""Rebuild KNOWN_FINDINGS.json from docs/*.findings.json (one file per builder) and
MANIFEST.json from docs/*.manifest.py + harness/gen_manifest.py.  Run by hand after
a builder delivers; never at check time."""
import glob, json, os
V = os.path.dirname(os.path.dirname(os.path.abspath(__file__)))
def main():
    open_, fixed = [], []
    for f in sorted(glob.glob(os.path.join(V, "docs", "*.findings.json"))):
        d = json.load(open(f))
        for o in d.get("open", []):
            if o not in open_:
                open_.append(o)
        for x in d.get("fixed", []):
            if x not in fixed:
                fixed.append(x)
    json.dump({"open": open_, "fixed": fixed}, open(os.path.join(V, "KNOWN_FINDINGS.json"), "w"), indent=1)
    import gen_manifest
    gen_manifest.main()
if __name__ == "__main__":
    main()
