"""Writes the per-property summary table of DESIGN.md (between the markers
<!-- TABLE:BEGIN --> and <!-- TABLE:END -->) from MANIFEST.json, evidence/*.json and
seeded/*/meta.json.  Developer aid; run after the checks."""
import glob
import json
import os
import re

V = os.path.dirname(os.path.dirname(os.path.abspath(__file__)))
man = json.load(open(f"{V}/MANIFEST.json"))
kf = json.load(open(f"{V}/KNOWN_FINDINGS.json"))
rows = []
for c in man["checks"]:
    pid = c["property_id"]
    try:
        ev = json.load(open(f"{V}/evidence/{pid}.json"))
    except Exception:
        ev = {}
    cov = ev.get("coverage", {})
    pa = cov.get("print_assumptions", {})
    closed = sum(1 for v in pa.values() if "Closed under the global context" in str(v)) if isinstance(pa, dict) else ""
    seeds = [json.load(open(m)) for m in sorted(glob.glob(f"{V}/seeded/{pid}-*/meta.json"))]
    conf = [s for s in seeds if s.get("confirmed")]
    det = [s for s in conf if s.get("detected")]
    opn = sum(1 for f in kf["open"] if f["property"] == pid)
    fixed = sum(1 for f in kf["fixed"] if (f.get("property") if isinstance(f, dict) else ("property=" + pid + " ") in f + " "))
    rows.append(f"| {pid} | {cov.get('obligations', '')} | {closed} | {ev.get('tier', '')} {ev.get('wall_s', '')} s | "
                f"{cov.get('evaluations', '')} | {len(det)}/{len(conf)} | {fixed} | {opn} |")
table = ("| property | theorems and examples in Props/Cnn.v | closed under the global context | last run | cases evaluated in Coq | "
         "seeded changes caught / confirmed | defects fixed | open findings |\n|---|---|---|---|---|---|---|---|\n" + "\n".join(rows))
p = f"{V}/DESIGN.md"
s = open(p).read()
s = re.sub(r"<!-- TABLE:BEGIN -->.*?<!-- TABLE:END -->", "<!-- TABLE:BEGIN -->\n" + table + "\n<!-- TABLE:END -->", s, flags=re.S)
open(p, "w").write(s)
print(table)
