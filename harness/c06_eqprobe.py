"""C06: by-value addressing with a target that EQUALS the stored element without being the same value
(True vs 1, 1.0 vs 1, 0 vs False) — implementation-level probe against the plain-container reference.

The refinement proof of the element helpers (coq/Inst/ElemRefineGuard.v) needs the guards `by_value_ok` /
`set_change_ok`: `SequenceMutator._extractor` and `SetMutator._extractor` hand the ARGUMENT, not the stored
element, to the value procedure, so `transform_<item>(target, f)` stores `f(target)` and `update_<item>(target)`
stores `target`.  Examples `C06_by_value_transforms_argument_refuted` / `…_set_refuted` show the model (and the
code) violating the specification there.  This probe keeps that case under observation on the implementation:
its signature is a recorded open finding; any other disagreement with the reference is a violation.
"""
from typing import Any, List, Set


def _classes():
    from spec_classes import spec_class

    @spec_class
    class A:
        xs: List[int] = []
        ys: List[Any] = []
        ts: Set[int] = set()

    return A


def _tag(v):
    return (type(v).__name__, v)


def _ref_list(xs, target, f):
    """plain-list reference: the first element equal to target is replaced by f(that element)"""
    out = list(xs)
    for i, x in enumerate(out):
        if x == target:
            out[i] = f(x)
            return out
    raise ValueError


def _ref_set(ts, target, f):
    for x in ts:
        if x == target:
            return (set(ts) - {x}) | {f(x)}
    raise KeyError


def run():
    A = _classes()
    ident = lambda x: x          # noqa: E731
    inc = lambda x: x + 10       # noqa: E731
    cases = []
    for inplace in (False, True):
        for xs, target in (([1, 0, 2], True), ([1, 0, 2], False), ([5, 1, 1], True), ([2, 3], True)):
            for fname, f in (("id", ident), ("inc", inc)):
                cases.append(("xs", "transform_x", list(xs), target, fname, f, inplace))
            cases.append(("xs", "update_x", list(xs), target, "none", None, inplace))
        for ys, target in (([1, "a", 2.5], True), ([1, "a", 2.5], 1.0), ([1.0, 0], 1), ([True, 2], 1)):
            cases.append(("ys", "transform_y", list(ys), target, "id", ident, inplace))
            cases.append(("ys", "update_y", list(ys), target, "none", None, inplace))
        for ts, target in (({1, 2}, True), ({0, 2}, False), ({3}, True)):
            cases.append(("ts", "transform_t", set(ts), target, "id", ident, inplace))
            cases.append(("ts", "transform_t", set(ts), target, "inc", inc, inplace))
    failures = []
    for attr, meth, content, target, fname, f, inplace in cases:
        ff = f if f is not None else (lambda x: x)
        try:
            want = ("ok", _ref_set(content, target, ff) if attr == "ts" else _ref_list(content, target, ff))
        except (ValueError, KeyError):
            want = ("missing", None)
        obj = A(**{attr: content})
        kw = {"_inplace": True} if inplace else {}
        try:
            res = getattr(obj, meth)(target, f, **kw) if f is not None else getattr(obj, meth)(target, **kw)
            got = ("ok", getattr(res, attr))
        except (ValueError, KeyError, IndexError):
            got = ("missing", None)
        except Exception as e:          # any other exception class is a disagreement
            got = ("raised " + type(e).__name__, None)
        if want[0] != got[0]:
            same = False
        elif want[0] != "ok":
            same = True
        elif attr == "ts":
            same = sorted(map(_tag, want[1]), key=repr) == sorted(map(_tag, got[1]), key=repr)
        else:
            same = list(map(_tag, want[1])) == list(map(_tag, got[1]))
        if not same:
            # the recorded finding: the stored result is what the ARGUMENT would give
            arg_based = None
            if want[0] == "ok" and got[0] == "ok":
                try:
                    if attr == "ts":
                        alt = (set(content) - {x for x in content if x == target}) | {ff(target)}
                        arg_based = sorted(map(_tag, alt), key=repr) == sorted(map(_tag, got[1]), key=repr)
                    else:
                        alt = list(content)
                        alt[[i for i, x in enumerate(alt) if x == target][0]] = ff(target)
                        arg_based = list(map(_tag, alt)) == list(map(_tag, got[1]))
                except Exception:
                    arg_based = False
            failures.append({"attr": attr, "call": "%s(%r%s%s)" % (meth, target, "" if f is None else ", " + fname,
                                                                   ", _inplace=True" if inplace else ""),
                             "content": repr(content), "expected": repr(want), "observed": repr(got),
                             "argument_instead_of_stored_element": bool(arg_based)})
    return {"cases": len(cases), "failures": failures}


def probe(chk, extra):
    r = run()
    known = [f for f in r["failures"] if f["argument_instead_of_stored_element"]]
    other = [f for f in r["failures"] if not f["argument_instead_of_stored_element"]]
    if known:
        f = known[0]
        chk.violation("C06 violated by the implementation: A(%s=%s).%s stores what the ARGUMENT gives, not what the stored "
                      "element gives: expected %s, observed %s" % (f["attr"], f["content"], f["call"], f["expected"], f["observed"]),
                      dict(f, kind="by-value-equal-target", n_cases=len(known)),
                      sig={"kind": "by-value-equal-target", "argument_instead_of_stored_element": True})
    for f in other[:3]:
        chk.violation("C06 violated by the implementation: A(%s=%s).%s: expected %s, observed %s"
                      % (f["attr"], f["content"], f["call"], f["expected"], f["observed"]),
                      dict(f, kind="by-value-equal-target"), sig={"kind": "by-value-equal-target", "call": f["call"]})
    extra["by_value_equal_target_probe"] = {
        "cases": r["cases"], "disagreements": len(r["failures"]), "of_which_recorded_finding": len(known),
        "rule": "implementation only: transform_/update_<item> addressed BY VALUE with a target equal to, but distinguishable "
                "from, the stored element (True/1, 1.0/1, False/0) on List[int], List[Any] and Set[int]; reference = plain "
                "list / set operation on the STORED element; the 'argument instead of stored element' signature is a recorded open finding"}


def replay(path):
    r = run()
    bad = [f for f in r["failures"] if not f["argument_instead_of_stored_element"]]
    print("by-value-equal-target probe: %d cases, %d disagreements (%d of the recorded kind)"
          % (r["cases"], len(r["failures"]), len(r["failures"]) - len(bad)))
    for f in r["failures"][:5]:
        print("  ", f["call"], f["content"], "expected", f["expected"], "observed", f["observed"])
    return 1 if r["failures"] else 0


if __name__ == "__main__":
    import json
    print(json.dumps(run(), indent=1)[:3000])
