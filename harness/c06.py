"""C06 — element helpers edit list/dict/set attributes like the plain container operation.

Expected content: coq/Inst/SpecHelpers.v:spec_elem_op (plain list / association
list / duplicate-free list with Python semantics) applied to the abstraction of
the container the implementation held before the call; compared inside Coq
(coq/Corr/SpecCorr.v) with what it holds afterwards, all other attributes
included.  The same run ties the executable model to the implementation."""
import json

import c05_common as cc
import c05_gen as g5
import c06_gen as g6
import c06_eqprobe
import c06_kset_probe
import c06_probe
from common import Check

PID, SEL = "C06", 6

ASSUMPTIONS = [
    "exhaustive scope: containers of <= 3 elements over {0,1,2} (List[int], Set[int]; Dict[str,int] with keys '', 'a7', 'a8'; List[str] over those strings) x with_/update_/transform_/without_<item> x _index in [-len-1, len+1] x _insert x _by_index in {default, True, False} x keys/values present and absent, container present or missing (quick tier: a seeded sample of the enumerated calls, thorough tier: all of them)",
    "keyed spec elements: List[K1]/Dict[str,K1] with K1 keyed, attribute with and without an item preparer (identity), container missing / empty / one element: bare keys promoted by with_/update_<item> with and without keywords, _index, _insert (48 histories, both tiers); List[K1] elements addressed by an element object (equal to the stored element, only key-equal, absent key) and Dict[str,K1] elements replaced / updated through an element object with other attributes (16 histories, both tiers)",
    "flag combinations of the list helpers beyond (_index x _insert): with_<item>(x, _insert=True) WITHOUT _index (appended; container missing / empty / populated, List[int], List[str], item preparer, default_factory, ill-typed item, no item; keyed elements from a bare key, keywords, an element object), _index=None given explicitly (TypeError), every flag under _if=False, explicit _by_index on a missing container -- aimed block in both tiers (c06_gen.flag_combinations), and the same combination in the enumerated scope, the random chains, the spec-element histories and the KeyedList probe",
    "beyond the exhaustive scope: random containers of up to 8 elements edited by up to 8 consecutive calls (copy and in place), List/Dict of (keyed) spec classes with keywords, bare keys and dict-as-arguments from the shared history grammar (conforming arguments)",
    "KeyedList/KeyedSet-typed attributes are outside the Coq instance model (their container semantics are C13/C14); KeyedList attributes are covered by an implementation-level probe (harness/c06_probe.py): chains of element-helper calls addressed by index, by key and by element object (equal: found by value; only key-equal: not found), compared in Python with a plain list of records, plus agreement of the by-key and by-index views",
    "KeyedSet attributes of keyed spec elements: implementation-level probe (harness/c06_kset_probe.py): aimed one-call chains and random chains of with_/update_/transform_/without_<item> addressed by bare key, by an equal element object and by a key-equal element object whose other attributes differ, copy and in place, with and without an item preparer, compared in Python with a plain dict of elements by key (order not compared); a transform must be handed the stored element",
    "interpretation: transform_<item>(f) stores f(old) (not run through the item preparer); update_<item>(target) without a new value leaves the element; with_<item>(_index=i) on an absent index is an IndexError unless _insert; a bool _index counts as an integer",
]


def main(tier, replay=None):
    if replay:
        if json.load(open(replay)).get("kind") == "keyedlist-probe":
            return c06_probe.replay(replay)
        if json.load(open(replay)).get("kind") == "keyedset-probe":
            return c06_kset_probe.replay(replay)
        if json.load(open(replay)).get("kind") == "by-value-equal-target":
            return c06_eqprobe.replay(replay)
        return cc.replay(PID, replay, SEL)
    chk = Check(PID, tier)
    chk.proofs(extra_targets=["Corr/InstCorr.vo", "Corr/SpecCorr.vo"])
    rng = chk.rng
    quick = tier == "quick"
    cases, stats = g6.exhaustive(tier, rng)
    keyed = g6.keyed_elements(tier, rng) + g6.object_addressed()
    cases += keyed
    flags = g6.flag_combinations()
    cases += flags
    n_exh = len(cases)
    n_chain = 200 if quick else 1500
    for _ in range(n_chain):
        cases.append(g6.random_chain(rng, 6 if quick else 8, prep=True))
    n_spec = 200 if quick else 1500
    for _ in range(n_spec):
        cases.append(g5.sanitize(g6.spec_elements(rng, 6 if quick else 9)))
    bad, logs = cc.evaluate(PID, cases, SEL, shard=100)
    cc.report(chk, PID, SEL, cases, bad, logs)
    ophist, sizes, n_ops = cc.histograms(cases)
    modes = {}
    for c in cases:
        for op, _ in c["ops"]:
            if op[0] == "helper" and op[2][0].endswith("_item"):
                h = op[3]
                k = op[2][0] + (":index" if h.get("index", ("missing",))[0] != "missing" else "") + \
                    (":insert" if h.get("insert") else "") + \
                    ("" if "by_index" not in h else ":by_index=%s" % h["by_index"]) + (":kw" if h.get("kw") else "")
                modes[k] = modes.get(k, 0) + 1
    distinct = len({json.dumps((c["table"], c["ops"]), sort_keys=True, default=str) for c in cases})
    extra = {
        "correspondence": {"cases": len(cases), "operations": n_ops,
                           "exhaustive_cases": n_exh, "keyed_element_cases": len(keyed), "flag_combination_cases": len(flags), "random_chain_cases": n_chain, "spec_element_cases": n_spec,
                           "spec_violations": sum(1 for _, c, _ in bad if c == 2),
                           "model_only_disagreements": sum(1 for _, c, _ in bad if c == 1),
                           "op_histogram": ophist, "addressing_mode_histogram": modes,
                           "history_length_histogram": sizes, "small_scope": stats},
        "evaluations": len(cases), "distinct_nontrivial": distinct,
        "rule": "case = (class table, receiver built with one container content, a batch of element-helper calls each applied to that receiver (copy) or to a fresh deep copy of it (in place)) for the exhaustive part; (table, random container, chain of consecutive edits) and histories of the shared grammar for the rest; non-trivial = at least one element-helper call; distinct = distinct (table, history)",
        "samples": [{"ops": [list(map(str, op)) for op, _ in c["ops"]][:6]} for c in (cases[5:6] + cases[-1:])],
        "exhaustive": tier != "quick",
    }
    c06_probe.probe(chk, rng, 300 if quick else 3000, 5 if quick else 7, extra)
    c06_kset_probe.probe(chk, rng, 300 if quick else 3000, 6 if quick else 8, extra)
    c06_eqprobe.probe(chk, extra)
    return chk.finish(trusted_base=cc.TRUSTED, assumptions=ASSUMPTIONS, extra=extra)
