"""C08, implementation-level probe (no Coq evaluation; the oracle is the property statement):
constructors of PLAIN (undecorated) subclasses of spec classes - one and two levels, below a spec
class and below a spec subclass, lazily and eagerly bootstrapped, with and without class-attribute
overrides - called with mutable keyword arguments; two peers from the same argument; then in-place
mutation through every holder.

Oracle: (a) no mutable object is reachable from two of {argument, peer A, peer B, class-level
defaults}, except through attributes declared do_not_copy (those must hold the argument by
identity); (b) an in-place mutation performed through one holder leaves the other holders and the
class-level defaults equal to their snapshots.  Covers attribute kinds outside the Coq instance
model too (KeyedList / KeyedSet of keyed spec classes)."""
import copy


def reach(obj, acc=None):
    """id -> object for every mutable object (container or instance) reachable from obj"""
    acc = {} if acc is None else acc
    if isinstance(obj, (int, float, str, bytes, bool, type(None), type)) or callable(obj) and not hasattr(obj, "__spec_class__"):
        return acc
    if isinstance(obj, (tuple, frozenset)):
        for x in obj:
            reach(x, acc)
        return acc
    if id(obj) in acc:
        return acc
    acc[id(obj)] = obj
    if isinstance(obj, dict):
        for k, v in obj.items():
            reach(k, acc)
            reach(v, acc)
    elif isinstance(obj, (list, set)):
        for x in obj:
            reach(x, acc)
    else:
        try:
            for x in obj:       # KeyedList / KeyedSet
                reach(x, acc)
        except TypeError:
            pass
        for v in getattr(obj, "__dict__", {}).values():
            reach(v, acc)
    return acc


def class_defaults(cls):
    acc = {}
    for k in cls.__mro__:
        if k is object:
            continue
        for n, v in vars(k).items():
            if not n.startswith("__") and isinstance(v, (list, dict, set)) or hasattr(type(v), "__spec_class__"):
                reach(v, acc)
    return acc


def family(eager, override):
    from typing import Dict, List, Set

    from spec_classes import spec_class
    from spec_classes.types import KeyedList, KeyedSet
    deco = (lambda **kw: spec_class(bootstrap=True, **kw)) if eager else (lambda **kw: spec_class(**kw))
    mod = {"__module__": "verif_generated"}

    def mk(name, bases, ann, body=None, **kw):
        raw = type(name, bases, dict(mod, __qualname__=name, __annotations__=ann, **(body or {})))
        return deco(**kw)(raw) if kw is not None and kw.get("_plain") is None else raw

    Inner = mk("Inner", (), {"values": List[int]}, {"values": [0]})
    Item = mk("Item", (), {"name": str, "tags": List[int]}, {"tags": []}, key="name")
    ann = {"name": str, "xs": List[int], "table": Dict[str, int], "tags": Set[int], "inner": Inner,
           "items": List[Inner], "by": Dict[str, Inner], "kl": KeyedList[Item, str], "ks": KeyedSet[Item, str],
           "keep": List[int]}
    Base = mk("Base", (), ann, {"name": "base", "xs": [1], "table": {}, "inner": Inner()}, do_not_copy=["keep"])
    ov = {"xs": [7, 8], "table": {"o": 1}} if override else {}
    Plain = type("Plain", (Base,), dict(mod, **ov))
    PlainPlain = type("PlainPlain", (Plain,), dict(mod, **({"xs": [9]} if override else {})))
    Child = mk("Child", (Base,), {"ys": List[int]}, {"ys": []}, do_not_copy=["keep"])
    PlainOfChild = type("PlainOfChild", (Child,), dict(mod, **ov))
    PlainPlainOfChild = type("PlainPlainOfChild", (PlainOfChild,), dict(mod))
    GrandChild = mk("GrandChild", (PlainOfChild,), {"zs": List[int]}, {"zs": []})   # spec class above a plain one
    PlainOfGrandChild = type("PlainOfGrandChild", (GrandChild,), dict(mod))
    # (class, does the nearest spec class in its MRO declare do_not_copy=["keep"]): the flag is a
    # decorator argument of each spec class, not inherited by spec subclasses (GrandChild copies)
    classes = [(Base, True), (Plain, True), (PlainPlain, True), (Child, True), (PlainOfChild, True),
               (PlainPlainOfChild, True), (GrandChild, False), (PlainOfGrandChild, False)]
    return Inner, Item, classes


def arguments(Inner, Item):
    """attribute -> (factory of the argument, in-place mutation of a stored / given value)"""
    from spec_classes.types import KeyedList, KeyedSet
    return {
        "xs": (lambda: [1, 2], lambda v: v.append(7)),
        "table": (lambda: {"a": 1}, lambda v: v.__setitem__("k", 7)),
        "tags": (lambda: {1, 2}, lambda v: v.add(7)),
        "inner": (lambda: Inner(values=[5]), lambda v: v.values.append(7)),
        "items": (lambda: [Inner(values=[5]), Inner()], lambda v: v[0].values.append(7)),
        "by": (lambda: {"a": Inner(values=[5])}, lambda v: v["a"].values.append(7)),
        "kl": (lambda: KeyedList[Item, str]([Item("a", tags=[1])]), lambda v: v["a"].tags.append(7)),
        "ks": (lambda: KeyedSet[Item, str]([Item("a", tags=[1])]), lambda v: v["a"].tags.append(7)),
        "ys": (lambda: [3], lambda v: v.append(7)),
        "zs": (lambda: [4], lambda v: v.append(7)),
        "keep": (lambda: [0], lambda v: v.append(7)),
    }


def snapshot(x):
    return repr(x)


def run():
    keep_alive, failures, n = [], [], 0
    for eager in (False, True):
        for override in (False, True):
            Inner, Item, classes = family(eager, override)
            args = arguments(Inner, Item)
            for cls, keeps in classes:
                managed = set(cls.__spec_class__.attrs)
                for attr, (make, mutate) in args.items():
                    if attr not in managed:
                        continue
                    dnc = attr == "keep" and keeps
                    for holder_order in (("A", "B", "arg"), ("arg", "B", "A"), ("B", "arg", "A")):
                        n += 1
                        arg = make()
                        a, b = cls(**{attr: arg}), cls(**{attr: arg})
                        keep_alive += [arg, a, b]
                        where = {"eager": eager, "override": override, "class": cls.__name__, "attr": attr}
                        if snapshot(getattr(a, attr)) != snapshot(make()):
                            failures.append(dict(where, what="stored value differs from the argument", got=repr(getattr(a, attr))))
                            continue
                        if dnc:
                            if getattr(a, attr) is not arg or getattr(b, attr) is not arg:
                                failures.append(dict(where, what="do_not_copy attribute does not hold the argument by identity"))
                            continue
                        roots = {"argument": reach(arg), "peer A": reach(a), "peer B": reach(b),
                                 "class defaults": class_defaults(cls)}
                        names = list(roots)
                        shared = [(p, q, type(roots[p][i]).__name__) for x, p in enumerate(names) for q in names[x + 1:]
                                  for i in roots[p] if i in roots[q]]
                        if shared:
                            failures.append(dict(where, what="mutable object reachable from %s and from %s (%s)" % shared[0]))
                            continue
                        holders = {"A": lambda: getattr(a, attr), "B": lambda: getattr(b, attr), "arg": lambda: arg}
                        dflt = snapshot(sorted((k, repr(v)) for k, v in class_defaults(cls).items()))
                        for i, hn in enumerate(holder_order[:2]):
                            before = {o: snapshot(holders[o]()) for o in holders if o != hn}
                            mutate(holders[hn]())
                            changed = [o for o in before if snapshot(holders[o]()) != before[o]]
                            if changed or snapshot(sorted((k, repr(v)) for k, v in class_defaults(cls).items())) != dflt:
                                failures.append(dict(where, what="in-place mutation through %s changed %s" % (
                                    hn, ", ".join(changed) or "a class-level default")))
                                break
    return {"cases": n, "failures": failures, "keep": len(keep_alive)}
