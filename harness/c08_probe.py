"""C08, implementation-level probe (no Coq evaluation; the oracle is the property statement):
constructors of PLAIN (undecorated) subclasses of spec classes - one and two levels, below a spec
class and below a spec subclass, lazily and eagerly bootstrapped, with and without class-attribute
overrides - called with mutable keyword arguments; two peers from the same argument; then in-place
mutation through every holder.

Oracle: (a) no mutable object is reachable from two of {argument, peer A, peer B, class-level
defaults}, except through attributes declared do_not_copy (those must hold the argument by
identity); (b) an in-place mutation performed through one holder leaves the other holders and the
class-level defaults equal to their snapshots.  Covers attribute kinds outside the Coq instance
model too (KeyedList / KeyedSet of keyed spec classes)."""
import copy


def reach(obj, acc=None):
    """id -> object for every mutable object (container or instance) reachable from obj"""
    acc = {} if acc is None else acc
    if isinstance(obj, (int, float, str, bytes, bool, type(None), type)) or callable(obj) and not hasattr(obj, "__spec_class__"):
        return acc
    if isinstance(obj, (tuple, frozenset)):
        for x in obj:
            reach(x, acc)
        return acc
    if id(obj) in acc:
        return acc
    acc[id(obj)] = obj
    if isinstance(obj, dict):
        for k, v in obj.items():
            reach(k, acc)
            reach(v, acc)
    elif isinstance(obj, (list, set)):
        for x in obj:
            reach(x, acc)
    else:
        try:
            for x in obj:       # KeyedList / KeyedSet
                reach(x, acc)
        except TypeError:
            pass
        for v in getattr(obj, "__dict__", {}).values():
            reach(v, acc)
    return acc


def class_defaults(cls):
    acc = {}
    for k in cls.__mro__:
        if k is object:
            continue
        for n, v in vars(k).items():
            if not n.startswith("__") and isinstance(v, (list, dict, set)) or hasattr(type(v), "__spec_class__"):
                reach(v, acc)
    return acc


def family(eager, override):
    from typing import Dict, List, Set

    from spec_classes import spec_class
    from spec_classes.types import KeyedList, KeyedSet
    deco = (lambda **kw: spec_class(bootstrap=True, **kw)) if eager else (lambda **kw: spec_class(**kw))
    mod = {"__module__": "verif_generated"}

    def mk(name, bases, ann, body=None, **kw):
        raw = type(name, bases, dict(mod, __qualname__=name, __annotations__=ann, **(body or {})))
        return deco(**kw)(raw) if kw is not None and kw.get("_plain") is None else raw

    Inner = mk("Inner", (), {"values": List[int]}, {"values": [0]})
    Item = mk("Item", (), {"name": str, "tags": List[int]}, {"tags": []}, key="name")
    ann = {"name": str, "xs": List[int], "table": Dict[str, int], "tags": Set[int], "inner": Inner,
           "items": List[Inner], "by": Dict[str, Inner], "kl": KeyedList[Item, str], "ks": KeyedSet[Item, str],
           "keep": List[int]}
    Base = mk("Base", (), ann, {"name": "base", "xs": [1], "table": {}, "inner": Inner()}, do_not_copy=["keep"])
    ov = {"xs": [7, 8], "table": {"o": 1}} if override else {}
    Plain = type("Plain", (Base,), dict(mod, **ov))
    PlainPlain = type("PlainPlain", (Plain,), dict(mod, **({"xs": [9]} if override else {})))
    Child = mk("Child", (Base,), {"ys": List[int]}, {"ys": []}, do_not_copy=["keep"])
    PlainOfChild = type("PlainOfChild", (Child,), dict(mod, **ov))
    PlainPlainOfChild = type("PlainPlainOfChild", (PlainOfChild,), dict(mod))
    GrandChild = mk("GrandChild", (PlainOfChild,), {"zs": List[int]}, {"zs": []})   # spec class above a plain one
    PlainOfGrandChild = type("PlainOfGrandChild", (GrandChild,), dict(mod))
    # (class, does the nearest spec class in its MRO declare do_not_copy=["keep"]): the flag is a
    # decorator argument of each spec class, not inherited by spec subclasses (GrandChild copies)
    classes = [(Base, True), (Plain, True), (PlainPlain, True), (Child, True), (PlainOfChild, True),
               (PlainPlainOfChild, True), (GrandChild, False), (PlainOfGrandChild, False)]
    return Inner, Item, classes


def arguments(Inner, Item):
    """attribute -> (factory of the argument, in-place mutation of a stored / given value)"""
    from spec_classes.types import KeyedList, KeyedSet
    return {
        "xs": (lambda: [1, 2], lambda v: v.append(7)),
        "table": (lambda: {"a": 1}, lambda v: v.__setitem__("k", 7)),
        "tags": (lambda: {1, 2}, lambda v: v.add(7)),
        "inner": (lambda: Inner(values=[5]), lambda v: v.values.append(7)),
        "items": (lambda: [Inner(values=[5]), Inner()], lambda v: v[0].values.append(7)),
        "by": (lambda: {"a": Inner(values=[5])}, lambda v: v["a"].values.append(7)),
        "kl": (lambda: KeyedList[Item, str]([Item("a", tags=[1])]), lambda v: v["a"].tags.append(7)),
        "ks": (lambda: KeyedSet[Item, str]([Item("a", tags=[1])]), lambda v: v["a"].tags.append(7)),
        "ys": (lambda: [3], lambda v: v.append(7)),
        "zs": (lambda: [4], lambda v: v.append(7)),
        "keep": (lambda: [0], lambda v: v.append(7)),
    }


def snapshot(x):
    return repr(x)


def run():
    keep_alive, failures, n = [], [], 0
    for eager in (False, True):
        for override in (False, True):
            Inner, Item, classes = family(eager, override)
            args = arguments(Inner, Item)
            for cls, keeps in classes:
                managed = set(cls.__spec_class__.attrs)
                for attr, (make, mutate) in args.items():
                    if attr not in managed:
                        continue
                    dnc = attr == "keep" and keeps
                    for holder_order in (("A", "B", "arg"), ("arg", "B", "A"), ("B", "arg", "A")):
                        n += 1
                        arg = make()
                        a, b = cls(**{attr: arg}), cls(**{attr: arg})
                        keep_alive += [arg, a, b]
                        where = {"eager": eager, "override": override, "class": cls.__name__, "attr": attr}
                        if snapshot(getattr(a, attr)) != snapshot(make()):
                            failures.append(dict(where, what="stored value differs from the argument", got=repr(getattr(a, attr))))
                            continue
                        if dnc:
                            if getattr(a, attr) is not arg or getattr(b, attr) is not arg:
                                failures.append(dict(where, what="do_not_copy attribute does not hold the argument by identity"))
                            continue
                        roots = {"argument": reach(arg), "peer A": reach(a), "peer B": reach(b),
                                 "class defaults": class_defaults(cls)}
                        names = list(roots)
                        shared = [(p, q, type(roots[p][i]).__name__) for x, p in enumerate(names) for q in names[x + 1:]
                                  for i in roots[p] if i in roots[q]]
                        if shared:
                            failures.append(dict(where, what="mutable object reachable from %s and from %s (%s)" % shared[0]))
                            continue
                        holders = {"A": lambda: getattr(a, attr), "B": lambda: getattr(b, attr), "arg": lambda: arg}
                        dflt = snapshot(sorted((k, repr(v)) for k, v in class_defaults(cls).items()))
                        for i, hn in enumerate(holder_order[:2]):
                            before = {o: snapshot(holders[o]()) for o in holders if o != hn}
                            mutate(holders[hn]())
                            changed = [o for o in before if snapshot(holders[o]()) != before[o]]
                            if changed or snapshot(sorted((k, repr(v)) for k, v in class_defaults(cls).items())) != dflt:
                                failures.append(dict(where, what="in-place mutation through %s changed %s" % (
                                    hn, ", ".join(changed) or "a class-level default")))
                                break
    return {"cases": n, "failures": failures, "keep": len(keep_alive)}


# ------------------------------------------------------------------ a spec subclass's OWN do_not_copy list
def own_dnc_family(eager):
    """Base lists parts / index / kl in do_not_copy.  Spec subclasses that inherit, re-default by a
    bare class attribute, re-default through Attr(default=...), restate part of the list, list another
    attribute; plain subclasses and further spec subclasses below them; and the reverse direction
    (parent lists nothing, the subclass lists what it re-defaults).  Returns (Part, [(class,
    names the class's nearest spec class lists in ITS decorator)])."""
    from typing import Dict, List

    from spec_classes import Attr, spec_class
    from spec_classes.types import KeyedList
    kw = {"bootstrap": True} if eager else {}
    mod = {"__module__": "verif_generated"}

    def mk(name, bases, ann, body, spec=True, **skw):
        raw = type(name, bases, dict(mod, __qualname__=name, __annotations__=dict(ann), **body))
        return spec_class(**skw, **kw)(raw) if spec else raw

    Part = mk("Part", (), {"name": str, "tags": List[int]}, {"tags": []}, key="name")
    ann = {"parts": List[Part], "index": Dict[str, int], "kl": KeyedList[Part, str], "free": List[int], "label": str}
    Base = mk("Base", (), ann, {"parts": [], "index": {}, "free": [0], "label": "base"}, do_not_copy=["parts", "index", "kl"])
    redef = lambda: {"parts": [Part("seed")], "index": {"seed": 0}, "kl": KeyedList[Part, str]([Part("k")])}  # noqa: E731
    Inheriting = mk("Inheriting", (Base,), {"extra": int}, {"extra": 0})
    Redefaulting = mk("Redefaulting", (Base,), {"extra": int}, dict(redef(), extra=0))
    RedefaultingBare = mk("RedefaultingBare", (Base,), {}, redef())
    RedefaultingAttr = mk("RedefaultingAttr", (Base,), {}, {"parts": Attr(default=[Part("seed")]), "index": {"seed": 0}})
    Restating = mk("Restating", (Base,), {}, redef(), do_not_copy=["parts"])
    ListingOther = mk("ListingOther", (Base,), {}, dict(redef(), free=[5]), do_not_copy=["free"])
    PlainRedefaulting = mk("PlainRedefaulting", (Redefaulting,), {}, {}, spec=False)
    PlainRedefaultingAgain = mk("PlainRedefaultingAgain", (Redefaulting,), {}, {"parts": [Part("again")]}, spec=False)
    Redefaulting2 = mk("Redefaulting2", (Redefaulting,), {"more": int}, {"more": 0})
    Redefaulting3 = mk("Redefaulting3", (Redefaulting,), {}, {"index": {"three": 3}})
    SpecOverPlain = mk("SpecOverPlain", (PlainRedefaulting,), {}, {"parts": [Part("sp")]})
    BelowRestating = mk("BelowRestating", (Restating,), {}, {"parts": [Part("br")]})
    PlainOfBase = mk("PlainOfBase", (Base,), {}, {"parts": [Part("pb")]}, spec=False)
    Free = mk("Free", (), ann, {"parts": [], "index": {}, "free": [0], "label": "free"})
    FreeSub = mk("FreeSub", (Free,), {}, {"parts": [Part("fs")], "index": {"fs": 1}}, do_not_copy=["parts"])
    PlainOfFreeSub = mk("PlainOfFreeSub", (FreeSub,), {}, {}, spec=False)
    BelowFreeSub = mk("BelowFreeSub", (FreeSub,), {}, {"parts": [Part("bfs")]})
    three = ("parts", "index", "kl")
    return Part, [(Base, three), (Inheriting, ()), (Redefaulting, ()), (RedefaultingBare, ()), (RedefaultingAttr, ()),
                  (Restating, ("parts",)), (ListingOther, ("free",)), (PlainRedefaulting, ()), (PlainRedefaultingAgain, ()),
                  (Redefaulting2, ()), (Redefaulting3, ()), (SpecOverPlain, ()), (BelowRestating, ()), (PlainOfBase, three),
                  (Free, ()), (FreeSub, ("parts",)), (PlainOfFreeSub, ("parts",)), (BelowFreeSub, ())]


def poke(Part, attr, v):
    """in-place mutation of whatever a default holds: nested instances first, then the container"""
    if isinstance(v, dict):
        v["zz"] = 7
        return
    for p in list(v):
        if isinstance(p, Part):
            p.tags.append(7)
    v.append(Part("zz") if attr in ("parts", "kl") else 7)


def run_own_dnc():
    """Oracle (the property statement on object identities; do_not_copy as declared by the nearest
    spec class's own decorator): for every class of own_dnc_family and every mutable attribute:
    two peers from the same argument; a do_not_copy attribute holds the argument by identity, any
    other shares no mutable object with the argument, the peer or a class-level default; copies made
    by reset_<other>() / with_<other>() / update / transform / deepcopy share the attribute by identity
    iff it is do_not_copy and otherwise nothing; an in-place mutation through one holder leaves the
    other holders and the class-level defaults as they were; del / reset_<a> install a fresh value
    equal to what a new instance holds."""
    from spec_classes.types import KeyedList
    keep_alive, failures, n = [], [], 0
    for eager in (False, True):
        Part, classes = own_dnc_family(eager)
        args = {
            "parts": (lambda: [Part("a", tags=[1])], lambda v: (v.append(Part("b")), v[0].tags.append(7))),
            "index": (lambda: {"a": 1}, lambda v: v.__setitem__("k", 7)),
            "kl": (lambda: KeyedList[Part, str]([Part("a", tags=[1])]), lambda v: v["a"].tags.append(7)),
            "free": (lambda: [1, 2], lambda v: v.append(7)),
        }
        for cls, listed in classes:
            for attr, (make, mutate) in args.items():
                dnc = attr in listed
                where = {"eager": eager, "class": cls.__name__, "attr": attr, "declared_do_not_copy": list(listed)}
                n += 1
                arg = make()
                a, b = cls(**{attr: arg}), cls(**{attr: arg, "label": "L"})
                keep_alive += [arg, a, b]
                if snapshot(getattr(a, attr)) != snapshot(make()):
                    failures.append(dict(where, what="stored value differs from the argument", got=repr(getattr(a, attr))))
                    continue
                where["Attr.do_not_copy"] = cls.__spec_class__.attrs[attr].do_not_copy
                derived = [("reset_label()", lambda: b.reset_label()), ("with_label('x')", lambda: b.with_label("x")),
                           ("update(label='y')", lambda: b.update(label="y")), ("deepcopy", lambda: copy.deepcopy(b)),
                           ("transform(label=...)", lambda: b.transform(label=lambda s: s + "!"))]
                if dnc:
                    if getattr(a, attr) is not arg or getattr(b, attr) is not arg:
                        failures.append(dict(where, what="do_not_copy attribute does not hold the argument by identity"))
                        continue
                    for name, f in derived:
                        c = f()
                        keep_alive.append(c)
                        if getattr(c, attr) is not arg:
                            failures.append(dict(where, what="%s duplicates the do_not_copy attribute" % name))
                            break
                    continue
                roots = {"argument": reach(arg), "peer A": reach(a), "peer B": reach(b), "class defaults": class_defaults(cls)}
                copies = []
                for name, f in derived:
                    c = f()
                    keep_alive.append(c)
                    copies.append((name, c))
                    roots["copy of peer B by " + name] = reach(getattr(c, attr))
                names = list(roots)
                shared = [(p, q, type(roots[p][i]).__name__) for x, p in enumerate(names) for q in names[x + 1:]
                          for i in roots[p] if i in roots[q]]
                if shared:
                    failures.append(dict(where, what="mutable object reachable from %s and from %s (%s)" % shared[0]))
                    continue
                holders = {"A": lambda: getattr(a, attr), "B": lambda: getattr(b, attr), "arg": lambda: arg}
                for name, c in copies[:2]:
                    holders[name] = lambda c=c: getattr(c, attr)
                dflt = lambda: snapshot(sorted((k, repr(v)) for k, v in class_defaults(cls).items()))  # noqa: E731
                d0 = dflt()
                broke = False
                for hn in list(holders):
                    before = {o: snapshot(holders[o]()) for o in holders if o != hn}
                    mutate(holders[hn]())
                    changed = [o for o in before if snapshot(holders[o]()) != before[o]]
                    if changed or dflt() != d0:
                        failures.append(dict(where, what="in-place mutation through %s changed %s" % (
                            hn, ", ".join(changed) or "a class-level default")))
                        broke = True
                        break
                if broke:
                    continue
                # del / reset_<attr>: what a new instance holds, fresh
                for form in ("del", "reset_inplace", "reset_copy"):
                    fresh = cls()
                    if form == "del":
                        delattr(a, attr)
                        got = a
                    elif form == "reset_inplace":
                        got = getattr(b, "reset_" + attr)(_inplace=True)
                    else:
                        got = getattr(copies[0][1], "reset_" + attr)()
                    keep_alive += [fresh, got]
                    gv, fv = vars(got).get(attr, "<absent>"), vars(fresh).get(attr, "<absent>")
                    if snapshot(gv) != snapshot(fv):
                        failures.append(dict(where, what="after %s the attribute differs from a new instance's" % form,
                                             got=repr(gv), fresh=repr(fv)))
                        break
                    if not isinstance(gv, str):
                        both = [i for i in reach(gv) if i in reach(fv) or i in class_defaults(cls)]
                        if both:
                            failures.append(dict(where, what="after %s the attribute shares a mutable object with a new instance or a class-level default" % form))
                            break
                        poke(Part, attr, gv)
                        if dflt() != d0 or snapshot(vars(cls()).get(attr)) != snapshot(fv):
                            failures.append(dict(where, what="in-place mutation after %s reached a class-level default" % form))
                            break
    return {"cases": n, "failures": failures, "keep": len(keep_alive)}
