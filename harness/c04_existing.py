"""Implementation-level probe (no Coq evaluation; the oracle is the property statement itself)
for two shapes no class of the instance model and no class of the other zoos has:

A. "resolving preparers" -- an attribute preparer / item preparer that turns a NAME (key, index
   token, registry name) into an object that ALREADY EXISTS: an element of the receiver's own
   KeyedList / list / dict, or an object of a module-level registry which the caller holds too.
   (The callbacks of the model only allocate; the preparers of the other zoos build new values.)

       x.with_<attr>(<name>, kw1=ok, kw2=<rejected>)     x.update_<attr>(<name>, kw...)
       x.with_<item>(<name>, kw...[, _index, _insert])   x.with_<item>(<key>, <name>, kw...)
       x.update_<item>(<index / key>, <name>, kw...)     -- copy-on-write and _inplace=True

   The nested keywords may only ever be written into a private copy of what the preparer
   returned: when a later keyword is rejected the call raises and the receiver's own elements
   and the registry objects are exactly as before.

B. "late failure on an empty container" -- a copy-on-write element helper on a receiver whose
   collection attribute is EMPTY (list / dict / set / List[spec] / Dict[str, spec] / KeyedList /
   KeyedSet; also non-empty as control), with a failure in the CLOSING step of the call, i.e.
   after the element was added to the working collection: `__post_copy__` of the receiver or of
   a nested value raising while the receiver is copied, the preparer / default factory of an
   `invalidated_by` dependant raising while it is reset on the copy.  Every callback ticks one
   counter; the case is re-run with the failure at the 1st, 2nd, ... tick (enumeration of the
   failure points).  The receiver's live (empty) container must still be empty.

Oracle (`wide_explore.snapshot`: identity and content of everything reachable):
  C04: the call raised  =>  receiver, arguments, keyword values and registry objects unchanged;
  C01: the same for every copy-on-write call, whether it returns or raises.

Every case is rebuilt from one integer (`case_seed`) [+ `fail_at`]; replay kind "existing-probe"
(`bin/check C04|C01 --replay <file>`).
"""
import random

from wide_explore import snapshot

_ZOO = None
REGISTRY = {}          # module-level registry: name -> Part (the caller holds these objects too)
FAULT = {"at": None, "ticks": 0}


def _tick(what):
    FAULT["ticks"] += 1
    if FAULT["at"] is not None and FAULT["ticks"] == FAULT["at"]:
        raise RuntimeError(f"{what} raises (tick {FAULT['ticks']})")


def _zoo():
    global _ZOO
    if _ZOO is not None:
        return _ZOO
    from typing import Dict, List, Set

    from spec_classes import Attr, spec_class
    from spec_classes.types import KeyedList, KeyedSet

    @spec_class(key="name")
    class Part:
        name: str
        qty: int = 0
        note: str = ""
        sizes: List[int] = []

    def resolve(self, v):
        """a name -> an object that already exists (held by the receiver or by the registry)"""
        if isinstance(v, str):
            if v.startswith("reg:"):
                return REGISTRY[v[4:]]
            if v.startswith("#"):
                return self.shelf[int(v[1:])]
            if v.startswith("@"):
                return self.named[v[1:]]
            if v.startswith("!"):
                return self.primary
            return self.catalog[v]
        return v

    @spec_class
    class Kit:
        catalog: KeyedList[Part, str] = Attr(default_factory=KeyedList)
        shelf: List[Part] = Attr(default_factory=list)
        named: Dict[str, Part] = Attr(default_factory=dict)
        primary: Part
        picks: List[Part] = Attr(default_factory=list)
        bymark: Dict[str, Part] = Attr(default_factory=dict)
        bag: KeyedList[Part, str] = Attr(default_factory=KeyedList)
        pool: KeyedSet[Part, str] = Attr(default_factory=KeyedSet)

        def _prepare_primary(self, primary):
            return resolve(self, primary)

        def _prepare_pick(self, pick):
            return resolve(self, pick)

        def _prepare_bymark_item(self, item):
            return resolve(self, item)

        def _prepare_bag_item(self, item):
            return resolve(self, item)

        def _prepare_pool_item(self, item):
            return resolve(self, item)

    @spec_class
    class KitSub(Kit):                 # spec subclass with an attribute of its own
        extra: int = 0

    class KitPlain(Kit):               # plain subclass
        pass

    @spec_class(frozen=True)
    class KitFrozen(Kit):
        pass

    # ---- family B -------------------------------------------------------------------------
    @spec_class
    class Child:
        n: int = 0

        def __post_copy__(self):
            _tick("__post_copy__ of a nested value")

    def _fresh():
        _tick("default factory of a dependant")
        return 0

    @spec_class
    class Box:
        xs: List[int] = Attr(default_factory=list)
        tags: Dict[str, int] = Attr(default_factory=dict)
        marks: Set[str] = Attr(default_factory=set)
        parts: List[Part] = Attr(default_factory=list)
        byname: Dict[str, Part] = Attr(default_factory=dict)
        klist: KeyedList[Part, str] = Attr(default_factory=KeyedList)
        kset: KeyedSet[Part, str] = Attr(default_factory=KeyedSet)
        child: Child = Attr(default_factory=Child)
        total: int = Attr(default=0, invalidated_by=["xs", "tags", "marks"])
        count: int = Attr(default_factory=_fresh, invalidated_by=["parts", "byname", "klist", "kset"])

        def _prepare_total(self, total):
            _tick("preparer of a dependant")
            return total

    @spec_class
    class BoxHook(Box):                # the receiver's own copy hook
        def __post_copy__(self):
            _tick("__post_copy__ of the receiver")

    class BoxPlain(Box):
        pass

    @spec_class
    class BoxStar(Box):                # a dependant invalidated by everything
        stamp: int = Attr(default=0, invalidated_by="*")

        def _prepare_stamp(self, stamp):
            _tick("preparer of a '*' dependant")
            return stamp

    _ZOO = dict(Part=Part, kits=[Kit, Kit, KitSub, KitPlain, KitFrozen], boxes=[Box, Box, BoxHook, BoxPlain, BoxStar],
                Child=Child)
    return _ZOO


def _kwargs(rng, reject):
    """2..3 nested keywords of Part; per `reject` one of them is not accepted (later / first / none)"""
    ok = {"qty": [5, 9, -1], "note": ["n2", ""], "sizes": [[4], [], [1, 2]]}
    bad = {"qty": ["x", None, 2.5, [1]], "note": [12, None, ["s"]], "sizes": [["s"], 3, [1, "s"], "ab"], "zz": [1]}
    names = ["qty", "note", "sizes"]
    rng.shuffle(names)
    chosen = names[:rng.choice([2, 2, 3])]
    vals = [rng.choice(ok[n]) for n in chosen]
    kinds = ["ok"] * len(chosen)
    if reject != "none":
        j = 0 if reject == "first" else rng.randrange(1, len(chosen))
        if rng.random() < 0.12:
            chosen[j] = "zz"
        chosen_j = chosen[j]
        vals[j], kinds[j] = rng.choice(bad[chosen_j]), "bad"
    return dict(zip(chosen, vals)), [f"{n}=<{k}:{v!r}>" for n, v, k in zip(chosen, vals, kinds)]


def _build_a(rng, mode):
    z = _zoo()
    Part = z["Part"]
    cls = rng.choice(z["kits"])
    REGISTRY.clear()
    REGISTRY.update({"gear": Part("gear", qty=3, note="g", sizes=[1]), "cog": Part("cog", qty=4)})
    cat = [Part("bolt", qty=1, sizes=[1]), Part("nut", qty=1, note="n")]
    shelf = [Part("rod", qty=2), Part("pin", qty=3, sizes=[2, 3])]
    kw0 = dict(catalog=cat, shelf=shelf, named={"a": Part("axle", qty=6)}, primary=Part("main", qty=7))
    if rng.random() < 0.5:
        kw0["picks"] = [Part("washer"), Part("clip", qty=1)]
        kw0["bymark"] = {"m": Part("mark", qty=1)}
        kw0["bag"] = [Part("b1")]
        kw0["pool"] = [Part("p1")]
    if rng.random() < 0.2:                       # the receiver holds the registry object itself
        kw0["shelf"] = shelf + [REGISTRY["gear"]]
    kit = cls(**kw0)
    if rng.random() < 0.3:                       # an element of the receiver IS the registry's object (shared, not a copy)
        kit.__dict__["catalog"].append(REGISTRY["cog"])
    name = rng.choice(["bolt", "nut", "bolt", "nut", "cog", "#0", "#1", "#-1", "@a", "!", "reg:gear", "reg:cog", "absent"])
    shape = rng.choice(["with_attr", "with_attr", "update_attr", "with_item", "with_item", "with_dict", "update_item",
                        "update_dict", "with_bag", "with_pool", "update_bag"])
    inplace = mode == "C04" and rng.random() < 0.4
    reject = rng.choice(["later", "later", "later", "later", "first", "none", "none"])
    kw, desc = _kwargs(rng, reject)
    args = []
    if shape == "with_attr":
        meth, args = "with_primary", [name]
    elif shape == "update_attr":
        meth, args = "update_primary", [name]
    elif shape == "with_item":
        meth, args = "with_pick", [name]
        if rng.random() < 0.4:
            kw["_index"] = rng.choice([0, -1, 1])
            kw["_insert"] = rng.random() < 0.5
    elif shape == "with_dict":
        meth, args = "with_bymark_item", [rng.choice(["m", "new"]), name]
    elif shape == "update_item":
        meth, args = "update_pick", [rng.choice([0, -1, 1]), name]
    elif shape == "update_dict":
        meth, args = "update_bymark_item", [rng.choice(["m", "new"]), name]
    elif shape == "with_bag":
        meth, args = "with_bag_item", [name]
        if rng.random() < 0.3:
            kw["_index"] = 0
            kw["_insert"] = rng.random() < 0.5
    elif shape == "with_pool":
        meth, args = "with_pool_item", [name]
    else:
        meth, args = "update_bag_item", [rng.choice([0, "b1"]), name]
    if not hasattr(cls, meth):
        return None
    if inplace:
        kw["_inplace"] = True
    extras = [f"{k}={v!r}" for k, v in kw.items() if k.startswith("_")]
    watched = [kit] + list(REGISTRY.values()) + [v for k, v in kw.items() if not k.startswith("_")]
    label = f"{cls.__name__}.{meth}({', '.join([repr(a) for a in args] + desc + extras)}) [resolving preparers]"
    return {"label": label, "call": (lambda: getattr(kit, meth)(*args, **kw)), "watched": watched, "inplace": inplace,
            "shape": "A:" + shape, "family": "A",
            "roles": ["the receiver"] + [f"registry object {n!r}" for n in REGISTRY] + ["a keyword value"] * 8}


def _build_b(rng, mode):
    z = _zoo()
    Part, Child = z["Part"], z["Child"]
    cls = rng.choice(z["boxes"])
    empty = rng.random() < 0.75
    init = {}
    if not empty:
        init = dict(xs=[7], tags={"a": 1}, marks={"m0"}, parts=[Part("p0")], byname={"a": Part("p1")},
                    klist=[Part("k0")], kset=[Part("s0")])
        init = {k: v for k, v in init.items() if rng.random() < 0.6}
    box = cls(**init)
    new = Part("new", qty=1)
    calls = [
        ("with_x", [rng.choice([1, 0])], {}),
        ("with_x", [1], {"_index": 0, "_insert": True}),
        ("with_tag", ["k", 1], {}),
        ("with_mark", ["m"], {}),
        ("with_part", [new], {}),
        ("with_part", [], {"name": "built", "qty": 2}),
        ("with_part", [new], {"qty": 5, "note": "w"}),
        ("with_byname_item", ["k", new], {}),
        ("with_byname_item", ["k"], {"name": "built"}),
        ("with_klist_item", [new], {}),
        ("with_klist_item", [new], {"qty": 3}),
        ("with_kset_item", [new], {}),
        ("with_xs", [[1, 2]], {}),
        ("with_child", [], {"n": 3}),
    ]
    if not empty:
        calls += [("update_x", [0, 5], {}), ("without_x", [0], {}), ("transform_x", [0, lambda v: v + 1], {}),
                  ("update_tag", ["a", 5], {}), ("without_mark", ["m0"], {}), ("update_part", [0], {"qty": 4})]
    meth, args, kw = rng.choice(calls)
    if not hasattr(cls, meth):
        return None
    watched = [box] + [a for a in args if not callable(a)]
    label = (f"{cls.__name__}({', '.join(sorted(init)) or 'all collections EMPTY'}).{meth}("
             f"{', '.join([repr(a) if not callable(a) else '<fn>' for a in args] + [f'{k}={v!r}' for k, v in kw.items()])})"
             f" [late failure]")
    return {"label": label, "call": (lambda: getattr(box, meth)(*args, **kw)), "watched": watched, "inplace": False,
            "shape": "B:" + meth + (":empty" if empty else ""), "family": "B",
            "roles": ["the receiver"] + ["an argument"] * 4}


def build(case_seed, mode):
    rng = random.Random(case_seed)
    fam = rng.choice(["A", "A", "A", "B", "B"])
    for _ in range(6):
        b = (_build_a if fam == "A" else _build_b)(rng, mode)
        if b is not None:
            return b
    return None


def run(case_seed, mode, fail_at=None):
    FAULT["at"], FAULT["ticks"] = None, 0
    b = build(case_seed, mode)              # building never fails: the fault is armed afterwards
    if b is None:
        return None
    before = [snapshot(o) for o in b["watched"]]
    FAULT["at"], FAULT["ticks"] = fail_at, 0
    outcome = "returned"
    try:
        b["call"]()
    except BaseException as e:
        if isinstance(e, (KeyboardInterrupt, SystemExit)):
            raise
        outcome = "raised " + type(e).__name__
    finally:
        ticks = FAULT["ticks"]
        FAULT["at"] = None
    after = [snapshot(o) for o in b["watched"]]
    changed = [i for i, (x, y) in enumerate(zip(before, after)) if x != y]
    broken = bool(changed) and (mode != "C04" or outcome != "returned")
    return dict(b, outcome=outcome, changed=changed, broken=broken, before=before, after=after, ticks=ticks,
                fail_at=fail_at)


def _diff(before, after, limit=4):
    """the nodes of two snapshots that differ (a snapshot is a list of nodes in traversal order)"""
    out = [(x, y) for x, y in zip(before, after) if x != y][:limit]
    if len(before) != len(after):
        out.append((f"{len(before)} objects reachable", f"{len(after)} objects reachable"))
    return out


def _what(r):
    return ", ".join(sorted({r["roles"][i] for i in r["changed"]})) + " changed"


def explore(chk, extra, mode, n_quick=1500, n_thorough=25000, max_fail=6):
    rng = chk.rng
    n = n_quick if chk.tier == "quick" else n_thorough
    tried = raised = late = 0
    hist, reported = {}, set()

    def look(r, case_seed):
        nonlocal tried, raised
        tried += 1
        raised += r["outcome"] != "returned"
        hist[r["shape"]] = hist.get(r["shape"], 0) + 1
        key = (r["shape"].split(":")[0], r["shape"].split(":")[1], r["inplace"], r["fail_at"] is not None)
        if r["broken"] and key not in reported and len(reported) < 4:
            reported.add(key)
            chk.violation(
                f"{r['label']}{'' if r['fail_at'] is None else ' with the %d. callback invocation raising' % r['fail_at']}"
                f" ({r['outcome']}): {_what(r)}",
                {"kind": "existing-probe", "mode": mode, "case_seed": case_seed, "fail_at": r["fail_at"],
                 "call": r["label"], "outcome": r["outcome"], "changed": [r["roles"][i] for i in r["changed"]],
                 "differing objects (before, after)": repr([_diff(r["before"][i], r["after"][i]) for i in r["changed"]])[:3000],
                 "replay": f"bin/check {mode} --replay <this file>"},
                sig={"kind": "existing-probe", "shape": r["shape"], "inplace": r["inplace"],
                     "fault": r["fail_at"] is not None})

    for _ in range(n):
        case_seed = rng.getrandbits(48)
        r = run(case_seed, mode)
        if r is None:
            continue
        look(r, case_seed)
        if r["family"] == "B" and r["outcome"] == "returned":
            for k in range(1, min(r["ticks"], max_fail) + 1):
                r2 = run(case_seed, mode, fail_at=k)
                late += 1
                look(r2, case_seed)
    extra["existing_probe"] = {
        "calls": tried, "raised": raised, "runs_with_injected_late_failure": late, "shape_histogram": hist,
        "rule": "implementation only: (A) attribute / item preparers resolving a name to an EXISTING object (element of the "
                "receiver's own KeyedList / list / dict, its own nested value, an object of a module-level registry) + 2..3 "
                "nested keywords, the rejected one later / first / absent, copy-on-write and in place; (B) copy-on-write element "
                "helpers on receivers whose collections are EMPTY (control: non-empty), re-run with the 1st..6th callback "
                "invocation (__post_copy__ of receiver / nested value, preparer / default factory of an invalidated_by "
                "dependant) raising; oracle: "
                + ("receiver, arguments and registry objects unchanged whether the call returns or raises" if mode == "C01"
                   else "after an exception receiver, arguments and registry objects unchanged")}


def is_replay(path):
    import json
    try:
        with open(path) as fh:
            return json.load(fh).get("kind") == "existing-probe"
    except (OSError, ValueError, AttributeError):
        return False


def replay(pid, path):
    import json
    with open(path) as fh:
        d = json.load(fh)
    r = run(d["case_seed"], d.get("mode", pid), d.get("fail_at"))
    if r is None:
        print("replay: the case could not be rebuilt")
        return 1
    print("replay:", r["label"], "" if r["fail_at"] is None else f"| callback invocation {r['fail_at']} raises")
    print("  outcome:", r["outcome"], "| changed:", [r["roles"][i] for i in r["changed"]])
    for i in r["changed"][:3]:
        for x, y in _diff(r["before"][i], r["after"][i]):
            print("  before:", repr(x)[:400])
            print("  after: ", repr(y)[:400])
    print("replay:", f"still failing ({_what(r)})" if r["broken"] else "passes now")
    return 1 if r["broken"] else 0
