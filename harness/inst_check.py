"""Driver shared by the instance-level property checks (C01-C08): proofs, generated
histories, evaluation through Corr/InstCorr.v, shrinking, reporting."""
import json
import random

import inst_common as ic
import inst_gen as ig
from common import Check

BITS = {1: "model/implementation disagreement", 2: "C01", 4: "C02", 8: "C03", 16: "C04", 32: "C08", 64: "C07",
        128: "same-field assertion"}

TRUSTED = [
    "Coq 8.16.1 kernel and vm_compute",
    "hand-written model coq/Inst/{Heap,ClassTable,Model}.v (tied to /repo by this run's correspondence)",
    "Python semantics modelled by hand: list/dict/set operations, ==, copy.deepcopy memo protocol, attribute lookup",
    "harness/inst_common.py: class rendering, canonical graph (mirrors coq/Inst/Canon.v), Coq term printer",
    "callback pool: user callbacks only allocate (purity contract)",
]


def signature(case, mask):
    op = case["ops"][-1][0]
    sig = {"kind": op[0]}
    if op[0] == "helper":
        sig["helper"] = op[2][0]
        h = op[3]
        sig["inplace"] = bool(h.get("inplace"))
        sig["multi_kw"] = len(h.get("kw") or []) + len(h.get("kwfn") or []) >= 2
    # the written attribute has a dependant whose reset runs a user callback (default factory,
    # or the preparer applied to the restored default), and a callback was made to raise
    if op[0] in ("setattr", "delattr"):
        targets = [op[2]]
    elif op[0] == "helper" and op[2][1] is not None:
        targets = [op[2][1]]
    elif op[0] == "helper":     # top-level update / transform: the attributes named by the keywords
        targets = [a for a, _ in (op[3].get("kw") or [])] + [a for a, _ in (op[3].get("kwfn") or [])]
    else:
        targets = []
    writes_receiver = op[0] in ("setattr", "delattr") or (op[0] == "helper" and bool(op[3].get("inplace")))
    if targets and writes_receiver and case["ops"][-1][1] is not None:
        for c in case["table"]:
            for a in c["attrs"]:
                if ((a.get("factory") is not None or a.get("prepare") is not None)
                        and any(x in targets or x == 99 for x in a.get("inv_by") or [])):
                    sig["dependant_reset_raises"] = True
    return sig


def describe(case, mask, obs):
    return {"table": case["table"], "ops": case["ops"], "nd": case["nd"], "mask": mask,
            "bits": [BITS[b] for b in BITS if mask & b],
            "observed": obs, "replay": "bin/check <id> --replay <this file>"}


def load_replay(path):
    r = json.load(open(path))

    def tup(x):
        if isinstance(x, list):
            return tuple(tup(y) for y in x)
        if isinstance(x, dict):
            return {k: tup(v) for k, v in x.items()}
        return x

    def fix_op(op):
        op = list(op)
        k = op[0]
        if k == "construct":
            return ("construct", op[1], tup(op[2]) if op[2] is not None else None, [(a, tup(v)) for a, v in op[3]])
        if k == "setattr":
            return ("setattr", op[1], op[2], tup(op[3]))
        if k == "helper":
            h = dict(op[3])
            for key in ("pos",):
                if key in h:
                    h[key] = [tup(v) for v in h[key]]
            if "index" in h:
                h["index"] = tup(h["index"])
            if h.get("kw") is not None:
                h["kw"] = [(a, tup(v)) for a, v in h["kw"]]
            if "kwfn" in h:
                h["kwfn"] = [(a, tup(f)) for a, f in h["kwfn"]]
            if h.get("fn") is not None:
                h["fn"] = tup(h["fn"])
            return ("helper", op[1], (op[2][0], op[2][1]), h)
        if k == "alloc":
            o = op[1]
            if o[0] == "dict":
                return ("alloc", ("dict", [(tup(a), tup(b)) for a, b in o[1]]))
            return ("alloc", (o[0], [tup(v) for v in o[1]]))
        return tuple(op)

    def fix_attr(a):
        a = dict(a)
        for key in ("ty", "prepare", "prepare_item"):
            if a.get(key) is not None:
                a[key] = tup(a[key])
        for key in ("default", "factory", "override"):
            if a.get(key) is not None:
                a[key] = fix_default(tup(a[key]))
        return a

    def fix_default(d):
        if isinstance(d, tuple) and d and d[0] == "dict":
            return ("dict", [tuple(p) for p in d[1]])
        if isinstance(d, tuple) and d and d[0] in ("list", "set", "newlist"):
            return (d[0], list(d[1]))
        return d
    table = []
    for c in r["table"]:
        c = dict(c)
        c["attrs"] = [fix_attr(a) for a in c["attrs"]]
        for hook in ("post_init", "post_copy"):
            if c.get(hook) is not None:
                c[hook] = tup(c[hook])
        table.append(c)
    return {"table": table, "ops": [(fix_op(op), fa) for op, fa in r["ops"]], "nd": r["nd"]}


def run(pid, tier, bit, gens, n_quick, n_thorough, assumptions, also_model=True, sig_fn=signature, post=None,
        aimed=None):
    """gens: list of (weight, kwargs for inst_gen.gen_case); bit: the oracle bit(s) of this property."""
    chk = Check(pid, tier)
    chk.proofs(extra_targets=["Corr/InstCorr.vo"])
    rng = chk.rng
    n = n_quick if tier == "quick" else n_thorough
    cases = []
    total_w = sum(w for w, _ in gens)
    for w, kw in gens:
        for _ in range(max(1, n * w // total_w)):
            kw2 = dict(kw)
            n_ops = kw2.pop("n_ops", 6 if tier == "quick" else 10)
            cases.append(ig.gen_case(rng, n_ops, **kw2))
    if aimed:
        cases += aimed(rng, tier)
    bad, logs = ic.evaluate(pid, cases, trace_every=3 if tier == "quick" else 5)
    want = bit | (1 if also_model else 0)
    reported = set()
    relevant = [(i, c, o) for i, c, o in bad if c & want]
    relevant.sort(key=lambda t: (0 if t[1] & bit else 1, len(cases[t[0]]["ops"])))
    for i, code, obs in relevant[:25]:
        mask = code & bit if code & bit else 1
        small = ic.shrink_case(pid, cases[i], mask)
        sig = sig_fn(small, mask)
        key = (mask, json.dumps(sig, sort_keys=True))
        if key in reported:
            continue
        reported.add(key)
        r, _ = ic.run_case(small)
        concrete = bool(mask & bit)
        what = ("%s violated by the implementation: %s" % (pid, small["ops"][-1][0],) if concrete else
                "model and implementation disagree (property oracle accepts the run): %s" % (small["ops"][-1][0],))
        chk.violation(what, describe(small, mask, r), sig=sig if concrete else None, no_input=not concrete)
    for lg in logs[:3]:
        chk.violation("correspondence evaluation failed: " + lg[:400], {"kind": "coq-eval", "log": lg}, no_input=True)
    ophist, errhist, sizes = {}, {}, {}
    n_ops_total = 0
    for c in cases:
        sizes[len(c["ops"])] = sizes.get(len(c["ops"]), 0) + 1
        for op, fa in c["ops"]:
            n_ops_total += 1
            k = op[0] if op[0] != "helper" else "helper:" + op[2][0] + (":inplace" if op[3].get("inplace") else "")
            ophist[k] = ophist.get(k, 0) + 1
    distinct = len({json.dumps((c["table"], c["ops"]), sort_keys=True, default=str) for c in cases})
    extra = {
        "correspondence": {"cases": len(cases), "operations": n_ops_total, "flagged": len(bad),
                           "flagged_for_this_property": len(relevant), "op_histogram": ophist,
                           "history_length_histogram": sizes,
                           "mask_histogram": {str(k): sum(1 for _, c, _ in bad if c == k) for k in {c for _, c, _ in bad}}},
        "evaluations": len(cases), "distinct_nontrivial": distinct,
        "rule": "case = (class table K1 leaf / K2 node / K3 spec subclass drawn from the class grammar, history of operations with fresh argument objects); non-trivial = at least one constructor and one further operation; distinct = distinct (table, history)",
        "samples": [{"ops": [list(map(str, op)) for op, _ in c["ops"]][:8]} for c in cases[:2]],
        "exhaustive": False,
    }
    extra["anchored_line_coverage"] = ic.line_coverage()
    if post:
        post(chk, cases, bad, extra)
    return chk.finish(trusted_base=TRUSTED, assumptions=assumptions, extra=extra)


def replay(pid, path, bit):
    case = load_replay(path)
    bad, logs = ic.evaluate(pid, [case], tag="r")
    print("replay:", ("still failing, mask=%d" % bad[0][1]) if bad and bad[0][1] & (bit | 1) else "passes now", logs[:1])
    r, err = ic.run_case(case)
    if r:
        for (op, fa), o in zip(case["ops"], r[1]):
            print("  ", op, fa, "->", o[0])
    return 1 if bad and bad[0][1] & (bit | 1) else 0
