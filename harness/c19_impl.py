"""C19 — implementation side: render a class description to source (lazy / eager),
run first uses under the deterministic scheduler, extract the protocol events from
the line log, and describe classes / outcomes canonically."""
import importlib
import inspect
import linecache
import sys

import c19_sched as S

NAMES = ["a0", "a1", "a2", "a3", "a4", "a5"]
# attribute names that are parameter / closure names of the library's own wrappers (the lazy
# __new__ hook, the pass-through it leaves behind, placeholders, generated methods): a keyword of
# that name handed to the constructor must reach __init__ on the lazy class as on the eager one
COLLIDING = ["cls", "args", "kwargs", "owner", "instance", "new", "orig_new", "bootstrapper", "metadata",
             "attr", "value", "key", "name", "attrs", "method", "other"]
_SETUP = {}


def names_of(desc):
    return desc.get("names") or NAMES


def mids_of(desc):
    """indices i such that a plain class M<i>(C<i>) stands between C<i> and C<i+1>"""
    return [i for i, c in enumerate(desc["classes"]) if c.get("mid") is not None]


def targets_of(desc):
    """everything a first use can address: spec classes, the plain classes between them, the plain subclass"""
    k = len(desc["classes"])
    out = []
    for i in range(k):
        out.append(i)
        if desc["classes"][i].get("mid") is not None:
            out.append(f"m{i}")
    return out + (["sub"] if desc.get("sub") else [])


def setup():
    """import the library once, patch its locks, return module handles"""
    if _SETUP:
        return _SETUP
    scm = importlib.import_module("spec_classes.spec_class")
    mb = importlib.import_module("spec_classes.methods.base")
    scm.RLock = S.TracedRLock  # locks created by the library from now on are traced
    _SETUP.update(scm=scm, mb=mb, files=[scm.__file__, mb.__file__])
    return _SETUP


def fresh_locks():
    scm = setup()["scm"]
    for k, v in list(vars(scm).items()):
        if isinstance(v, (S.TracedRLock, type(S._real_RLock()))):
            setattr(scm, k, S.TracedRLock())


# ------------------------------------------------------------------ class source
def render(desc, eager):
    """desc: {"classes": [{"attrs": [[name, form, dk, init, repr, cmp, typ]], "key": n|None,
    "frozen": b, "new": b}], "sub": None | {"new": b}}"""
    out = ["import dataclasses", "from typing import List", "from spec_classes import spec_class, Attr, spec_property", ""]
    NAMES = names_of(desc)  # noqa: N806 - per-description attribute names

    def new_def(tag):
        # parameter names that cannot collide with an attribute name handed over as keyword.
        # The arguments are USED: handed on to the next __new__ of the MRO (unless that is
        # object.__new__, which refuses them) and recorded on the instance (`_got`), so the
        # observation says what every user-defined __new__ received, positionally and by keyword.
        return ["    def __new__(_cls_, *_a_, **_k_):",
                "        _up_ = super().__new__",
                "        self = _up_(_cls_) if _up_ is object.__new__ else _up_(_cls_, *_a_, **_k_)",
                f"        object.__setattr__(self, '_made_by', getattr(self, '_made_by', ()) + ({tag},))",
                f"        object.__setattr__(self, '_got', getattr(self, '_got', ()) + (({tag}, _a_, tuple(sorted(_k_.items()))),))",
                "        return self"]

    def prop_def(tag, deps):
        # a cached spec_property (not a managed attribute) that the listed attributes invalidate
        names = [NAMES[n] for n in deps]
        return [f"    @spec_property(cache=True, invalidated_by={names!r})",
                f"    def p{tag}(self):",
                f"        return ('p{tag}',) + tuple(getattr(self, n, '<unset>') for n in {names!r})"]

    parent = ""
    for i, c in enumerate(desc["classes"]):
        args = []
        if c.get("key") is not None:
            args.append(f"key={NAMES[c['key']]!r}")
        if c.get("frozen"):
            args.append("frozen=True")
        if c.get("dnc"):
            args.append("do_not_copy=" + repr([NAMES[n] for n in c["dnc"]]))
        if eager:
            args.append("bootstrap=True")
        out.append(f"@spec_class({', '.join(args)})" if args else "@spec_class")
        out.append(f"class C{i}({parent}):".replace("()", ""))
        parent = f"C{i}"
        body = []
        inv = {int(n): deps for n, deps in c.get("inv") or []}
        if c.get("priv"):  # private annotation: not managed by spec-classes
            body.append("    _cache: dict = None")
        for n, form, dk, ini, rep, cmp_, typ in c["attrs"]:
            ann = "List[int]" if typ == "list" else "int"
            name = NAMES[n]
            if form == "none":
                body.append(f"    {name}: {ann}")
            elif form == "plain":
                body.append(f"    {name}: {ann} = {10 + n}")
            else:
                kw = []
                if dk == 1:
                    kw.append(f"default={10 + n}")
                elif dk == 2:
                    kw.append("default_factory=" + ("list" if typ == "list" else "int"))
                if not ini:
                    kw.append("init=False")
                if not rep:
                    kw.append("repr=False")
                if not cmp_:
                    kw.append("compare=False")
                if form == "attr" and inv.get(n):
                    kw.append("invalidated_by=" + repr([NAMES[m] for m in inv[n]]))
                ctor = "Attr" if form == "attr" else "dataclasses.field"
                body.append(f"    {name}: {ann} = {ctor}({', '.join(kw)})")
        if c.get("prop"):
            body += prop_def(i, c["prop"])
        if c.get("new"):
            body += new_def(i)
        out += body or ["    pass"]
        out.append("")
        if c.get("mid") is not None and i + 1 < len(desc["classes"]):
            # a plain (undecorated) class between two lazily decorated spec classes
            out.append(f"class M{i}(C{i}):")
            out += ["    def describe(self):", "        return type(self).__name__"]
            if c["mid"].get("new"):
                out += new_def(100 + i)
            if c["mid"].get("prop"):
                out += prop_def(100 + i, c["mid"]["prop"])
            out.append("")
            parent = f"M{i}"
            if c["mid"].get("deep"):  # two plain levels: the spec parent is not a direct base of anything lazy
                out += [f"class N{i}(M{i}):", "    pass", ""]
                parent = f"N{i}"
    if desc.get("sub"):
        k = len(desc["classes"])
        out.append(f"class PS(C{k - 1}):")
        if desc["sub"].get("new"):
            out += new_def(k)
        if desc["sub"].get("prop"):
            out += prop_def(k, desc["sub"]["prop"])
        if not (desc["sub"].get("new") or desc["sub"].get("prop")):
            out.append("    pass")
        out.append("")
    return "\n".join(out)


def build(desc, eager):
    setup()
    ns = {}
    src = render(desc, eager)
    exec(compile(src, "<c19-classes>", "exec"), ns)  # noqa: S102 - generated source
    classes = [ns[f"C{i}"] for i in range(len(desc["classes"]))]
    classes = ClassList(classes)
    classes.mids = {i: ns[f"M{i}"] for i in range(len(classes)) if f"M{i}" in ns}
    classes.deep = {i: ns[f"N{i}"] for i in range(len(classes)) if f"N{i}" in ns}
    return classes, ns.get("PS"), src


class ClassList(list):
    """the spec classes of a description; .mids = {i: plain class between C<i> and C<i+1>}"""
    mids = {}
    deep = {}


def make_cmap(classes, sub):
    """class object -> number: spec class i -> i, plain subclass -> k, plain class above C<i> -> 100 + i"""
    cmap = {id(c): i for i, c in enumerate(classes)}
    if sub is not None:
        cmap[id(sub)] = len(classes)
    for i, m in getattr(classes, "mids", {}).items():
        cmap[id(m)] = 100 + i
    for i, m in getattr(classes, "deep", {}).items():
        cmap[id(m)] = 100 + i
    return cmap


# ------------------------------------------------------------------ uses
def target(classes, sub, tgt):
    if tgt == "sub":
        return sub
    if isinstance(tgt, str):  # "m<i>": the plain class between C<i> and C<i+1>
        return classes.mids[int(tgt[1:])]
    return classes[tgt]


def model_tgt(desc, tgt):
    """the class of the model's chain a use of `tgt` is a use of (plain classes are transparent)"""
    if tgt == "sub":
        return len(desc["classes"]) - 1
    if isinstance(tgt, str):
        return int(tgt[1:])
    return tgt


def helper_attr(desc, tgt):
    """an int attribute visible in class tgt for which with_<a> exists"""
    k = model_tgt(desc, tgt)
    for c in reversed(desc["classes"][:k + 1]):
        for a in c["attrs"]:
            if a[6] == "int":
                return names_of(desc)[a[0]]
    return None


def kw_for(desc, tgt):
    """constructor keywords for class tgt: every visible attribute all of whose declarations accept it"""
    k = model_tgt(desc, tgt)
    ok, typ = {}, {}
    for c in desc["classes"][:k + 1]:
        for a in c["attrs"]:
            ok[a[0]] = ok.get(a[0], True) and bool(a[3])
            typ[a[0]] = a[6]
    names = names_of(desc)
    return {names[n]: ([n, n + 1] if typ[n] == "list" else 40 + n) for n in sorted(ok) if ok[n]}


def key_of(desc, tgt):
    """(name, value to pass POSITIONALLY) of the key attribute visible in class tgt, or None"""
    k = model_tgt(desc, tgt)
    key = None
    for c in desc["classes"][:k + 1]:
        if c.get("key") is not None:
            key = c["key"]
    return None if key is None else (names_of(desc)[key], 70 + key)


def visible_attrs(desc, tgt):
    """[(index, type)] of the managed attributes visible in class tgt, in order of first declaration"""
    k = model_tgt(desc, tgt)
    typ = {}
    for c in desc["classes"][:k + 1]:
        for a in c["attrs"]:
            typ[a[0]] = a[6]
    return list(typ.items())


def props_of(desc, tgt):
    """[(property name, dependencies)] of the cached spec_property members visible in class tgt"""
    k = model_tgt(desc, tgt)
    out = []
    for i, c in enumerate(desc["classes"][:k + 1]):
        if c.get("prop"):
            out.append((f"p{i}", c["prop"]))
        m = c.get("mid")
        if m and m.get("prop") and (i < k or tgt == f"m{i}" or tgt == "sub") and i + 1 < len(desc["classes"]):
            out.append((f"p{100 + i}", m["prop"]))
    if tgt == "sub" and (desc.get("sub") or {}).get("prop"):
        out.append((f"p{len(desc['classes'])}", desc["sub"]["prop"]))
    return out


def mut_deps(desc, tgt):
    """indices of the attributes visible in class tgt that invalidate something (an attribute declared
    with Attr(invalidated_by=...) or a cached spec_property): the first MUTATION of an instance
    generates the class's invalidation map (lazily generated metadata)"""
    k = model_tgt(desc, tgt)
    deps = []
    for c in desc["classes"][:k + 1]:
        for _, ds in c.get("inv") or []:
            deps += ds
    for _, ds in props_of(desc, tgt):
        deps += ds
    vis = dict(visible_attrs(desc, tgt))
    return [n for n in sorted(set(deps)) if n in vis][:3]


def kinds_for(desc, tgt, kinds):
    """the use kinds that say something on class tgt: the positional forms need a key, `mutate`
    needs an invalidation edge"""
    out = []
    for kind in kinds:
        if kind in ("instpos", "instposkw") and key_of(desc, tgt) is None:
            continue
        if kind == "mutate" and not mut_deps(desc, tgt):
            continue
        out.append(kind)
    return out


def made(o, intern):
    """which user-defined __new__ built the instance, and the arguments each of them was given"""
    return [intern("m:" + repr(getattr(o, "_made_by", ()))), intern("g:" + repr(getattr(o, "_got", ())))]


def describe_attrs(attrs, cmap, intern):
    from spec_classes.types import MISSING
    out = []
    for name, a in attrs.items():
        dk = 2 if a.default_factory is not MISSING else (1 if a.default is not MISSING else 0)
        out += [intern("n:" + str(name)), cmap.get(id(a.owner), -5), dk, int(bool(a.init)), int(bool(a.repr)),
                int(bool(a.compare)), intern("t:" + str(a.type)), int(bool(a.is_masked)), int(bool(a.do_not_copy)),
                intern("h:" + ",".join(sorted(getattr(m, "__name__", str(m)) for m in (a.helper_methods or ())))),
                intern("d:" + repr(a.default)), intern("i:" + repr(sorted(a.invalidated_by or ())))]
    return out


def describe_meta(m, cmap, intern):
    return describe_attrs(m.attrs, cmap, intern) + [-1, intern("k:" + str(m.key)), int(bool(m.frozen)),
                                                     int(bool(m.do_not_copy)), cmap.get(id(m.owner), -5)]


def make_thunk(desc, classes, sub, use, cmap, intern):
    kind, tgt = use
    T = target(classes, sub, tgt)
    k = model_tgt(desc, tgt)
    mark = lambda d: S.CURRENT.mark(d) if S.CURRENT is not None else None  # noqa: E731

    def inst():
        mark(("new", k))
        o = T()
        return [intern("r:" + repr(o))] + made(o, intern)

    def instpos():
        # the key handed over POSITIONALLY: positional arguments travel through the lazy __new__
        # hook (and every __new__ below it) before __init__ sees them
        name, val = key_of(desc, tgt)
        mark(("new", k))
        o = T(val)
        return [intern("r:" + repr(o))] + made(o, intern) + [intern("v:" + repr(getattr(o, name, "<unset>")))]

    def instposkw():
        name, val = key_of(desc, tgt)
        kw = {n: v for n, v in kw_for(desc, tgt).items() if n != name}
        mark(("new", k))
        o = T(val, **kw)
        return [intern("r:" + repr(o))] + made(o, intern) + [
            intern("v:" + repr(sorted((n, getattr(o, n, "<unset>")) for n in [name] + list(kw))))]

    def state(o):
        names = names_of(desc)
        vals = [(names[n], getattr(o, names[n], "<unset>")) for n, _ in visible_attrs(desc, tgt)]
        vals += [(p, getattr(o, p, "<unset>")) for p, _ in props_of(desc, tgt)]
        return intern("o:" + repr(vals))

    def mutate():
        # construct, give every attribute a non-default value (also fills the property caches), then
        # change each dependency by with_<a> (copy) and finally in place: the dependants must be reset.
        # The first mutation generates the invalidation map of type(o).
        names = names_of(desc)
        kw = kw_for(desc, tgt)
        mark(("new", k))
        o = T(**kw)
        r = [intern("r:" + repr(o))] + made(o, intern)
        for n, typ in visible_attrs(desc, tgt):
            if names[n] not in kw:
                setattr(o, names[n], [n, n + 2] if typ == "list" else 50 + n)
        r.append(state(o))
        vis = dict(visible_attrs(desc, tgt))
        deps = mut_deps(desc, tgt)
        for n in deps:
            o2 = getattr(o, "with_" + names[n])([n, 9] if vis[n] == "list" else 90 + n)
            r += [state(o2), int(o2 is o)]
        for n in deps[:1]:
            setattr(o, names[n], [n, 8] if vis[n] == "list" else 80 + n)
            r.append(state(o))
        return r

    def instkw():
        # the constructor's keyword form as FIRST use: the keywords travel through the lazy
        # __new__ hook (and every __new__ below it) before __init__ sees them
        kw = kw_for(desc, tgt)
        mark(("new", k))
        o = T(**kw)
        return [intern("r:" + repr(o))] + made(o, intern) + [
            intern("v:" + repr(sorted((n, getattr(o, n, "<unset>")) for n in kw)))]

    def helper():
        a = helper_attr(desc, tgt)
        mark(("new", k))
        o = T()
        r = [intern("r:" + repr(o))] + made(o, intern)
        if a is not None and not desc["classes"][k].get("frozen_chain"):
            o2 = getattr(o, "with_" + a)(5)
            r += [intern("r:" + repr(o2)), int(o2 is o)]
        return r

    def meta():
        mark(("lookup", k, False))
        m = T.__spec_class__
        return describe_meta(m, cmap, intern)

    def later_lookups():
        """what the SAME lookups give afterwards (no trigger any more), and dataclasses.fields"""
        import dataclasses
        out = [-7]
        try:
            f2 = T.__dataclass_fields__
            out += [intern("ft:" + type(f2).__name__)] + describe_attrs(f2, cmap, intern)
        except Exception as e:  # noqa: BLE001
            out += [intern("E:" + type(e).__name__)]
        try:
            out += [-8, intern("dc:" + repr([(f.name, f.init, f.repr, f.compare) for f in dataclasses.fields(T)]))]
        except Exception as e:  # noqa: BLE001
            out += [-8, intern("E:" + type(e).__name__)]
        return out

    def fields():
        mark(("lookup", k, True))
        f = T.__dataclass_fields__
        return [intern("ft:" + type(f).__name__)] + describe_attrs(f, cmap, intern) + later_lookups()

    def dcfields():
        # dataclasses.fields(cls) as first use: one lookup of __dataclass_fields__ made by the
        # standard library, which then iterates over .values() of what it got
        import dataclasses
        mark(("lookup", k, True))
        fs = dataclasses.fields(T)
        return [intern("dc:" + repr([(f.name, f.init, f.repr, f.compare) for f in fs]))] + later_lookups()

    return {"inst": inst, "instkw": instkw, "helper": helper, "meta": meta, "fields": fields,
            "dcfields": dcfields, "instpos": instpos, "instposkw": instposkw, "mutate": mutate}[kind]


def new_kind(cls):
    e = cls.__dict__.get("__new__")
    if e is None:
        return "none"
    f = getattr(e, "__func__", e)
    if getattr(f, "__spec_classes_new_wrapper__", False):
        return "wrapper"
    if "spec_class.__call__" in getattr(f, "__qualname__", ""):
        return "none"  # the pass-through to object.__new__ installed instead of the wrapper
    return "user"


SKIP = {"__new__", "__dict__", "__weakref__", "__doc__", "__module__", "__qualname__", "__annotations__",
        "__spec_class__", "__dataclass_fields__", "__firstlineno__", "__static_attributes__"}


def describe_class(cls, cmap, intern):
    d = cls.__dict__
    m = d.get("__spec_class__")
    out = []
    scm = setup()["scm"]
    if isinstance(m, scm.SpecClassMetadata):
        out += [1] + describe_meta(m, cmap, intern)
        f = d.get("__dataclass_fields__")
        out += [-2, int(f is m.attrs)]
        names = list(m.attrs)
    else:
        out += [0]
        names = []
    out += [-3] + [intern("v:%s=%r" % (n, d.get(n, "<absent>"))) for n in names]
    # generated methods: names resolvable on the class (own or inherited).  In which class
    # dictionary a dissolved MethodDescriptor leaves its function depends on the order in which
    # instances of parent and subclass first touch the helper (eager classes too), not on bootstrapping.
    vis = set()
    for k in cls.__mro__:
        if k is not object:
            vis.update(k.__dict__)
    out += [-4, intern("M:" + ",".join(sorted(n for n in vis if n not in SKIP and n not in names)))]
    out += [-5, intern("A:" + ",".join(getattr(cls, "__annotations__", {}))), intern("N:" + new_kind(cls))]
    for meth in ("__init__", "update"):
        try:
            out.append(intern("S:" + meth + str(inspect.signature(getattr(cls, meth)))))
        except Exception as e:  # noqa: BLE001
            out.append(intern("S:" + meth + ":" + type(e).__name__))
    return out


def model_meta(cls, cmap, NAMES=NAMES):  # noqa: N803
    """eager metadata in the model's vocabulary"""
    from spec_classes.types import MISSING
    m = cls.__dict__["__spec_class__"]
    out = []
    for name, a in m.attrs.items():
        dk = 2 if a.default_factory is not MISSING else (1 if a.default is not MISSING else 0)
        out += [NAMES.index(name), cmap.get(id(a.owner), 99), dk, int(bool(a.init)), int(bool(a.repr)), int(bool(a.compare))]
    out += [NAMES.index(m.key) if m.key is not None else -1, int(bool(m.frozen))]
    return out


class Interner:
    def __init__(self):
        self.d = {}

    def __call__(self, s):
        return self.d.setdefault(s, len(self.d) + 10)


def post_use(classes, sub, intern, desc=None):
    """what a later sequential user sees: instances of every class of the hierarchy (leaf first, then
    the plain subclass, the plain classes in between and the parents), built without arguments
    and - the constructor's keyword form as a LATER use - with every accepted keyword.
    Runs in a helper thread with a time limit: after a broken run a traced lock can stay held
    by a thread that died at the recursion limit (the Python-level __exit__ of the traced
    lock needs a frame, the real RLock does not)."""
    import threading
    fresh_locks()
    out = []

    def work():
        k = len(classes)
        order = [(classes[-1], k - 1)] + ([(sub, k - 1)] if sub is not None else [])
        if desc is not None:
            order += [(m, i) for i, m in sorted(getattr(classes, "mids", {}).items(), reverse=True)]
            order += [(classes[i], i) for i in range(k - 2, -1, -1)]
        for T, i in order:
            kws = [((), {})] + ([((), kw_for(desc, i))] if desc is not None and kw_for(desc, i) else [])
            if desc is not None and key_of(desc, i) is not None:
                # the key handed over positionally as a LATER use (for a class no thread used: its first)
                name, val = key_of(desc, i)
                rest = {n: v for n, v in kw_for(desc, i).items() if n != name}
                kws = [((val,), {})] + kws + ([((val,), rest)] if rest else [])
            for pos, kw in kws:
                try:
                    o = T(*pos, **kw)
                    out.extend([1, intern("r:" + repr(o))] + made(o, intern))
                    if hasattr(o, "describe"):
                        out.append(intern("d:" + repr(o.describe())))
                except BaseException as e:  # noqa: BLE001
                    out.extend([0, intern("E:" + type(e).__name__)])

    th = threading.Thread(target=work, daemon=True)
    th.start()
    th.join(10)
    if th.is_alive():
        return [0, intern("E:<later use blocks>")]
    return list(out)


def run_eager(desc, uses, intern):
    classes, sub, _ = build(desc, True)
    cmap = make_cmap(classes, sub)
    outs = []
    for u in uses:
        try:
            outs.append([1] + make_thunk(desc, classes, sub, u, cmap, intern)())
        except BaseException as e:  # noqa: BLE001
            outs.append([0, intern("E:" + type(e).__name__)])
    post = post_use(classes, sub, intern, desc)
    descs = [describe_class(c, cmap, intern) for c in classes] + [post]
    metas = [model_meta(c, cmap, names_of(desc)) for c in classes]
    return outs, descs, metas


def run_lazy(desc, uses, policy, intern, timeout=2.0):
    st = setup()
    fresh_locks()
    classes, sub, _ = build(desc, False)
    cmap = make_cmap(classes, sub)
    k = len(classes)
    ph = {}
    for i, c in enumerate(classes):
        for n in ("__spec_class__", "__dataclass_fields__"):
            ph[id(c.__dict__.get(n))] = i
    scfile = st["scm"].__file__

    def probe(frame):
        code = frame.f_code
        if code.co_filename != scfile:
            return None
        fn = code.co_name
        loc = frame.f_locals
        if fn == "__get__":
            return ("get", ph.get(id(loc.get("self"))))
        if fn == "bootstrapper":
            return ("bs", cmap.get(id(loc.get("spec_cls"))))
        if fn == "bootstrap":
            return ("boot", cmap.get(id(loc.get("spec_cls"))), id(frame), cmap.get(id(loc.get("parent"))))
        if fn == "build_attr_spec":
            return ("bas", cmap.get(id(loc.get("spec_cls"))), loc.get("attr"))
        if fn == "__new__":
            return ("new", cmap.get(id(loc.get("spec_cls"))), cmap.get(id(loc.get("cls"))), id(frame))
        return None

    sch = S.Sched(st["files"], timeout=timeout, probe=probe, max_steps=40000)
    thunks = [make_thunk(desc, classes, sub, u, cmap, intern) for u in uses]
    r = sch.run(thunks, policy)
    outs = []
    for o in r["outcome"]:
        if o is None:
            outs.append([0, intern("E:<did not finish>")])
        elif o[0] == "ok":
            outs.append([1] + o[1])
        else:
            outs.append([0, intern("E:" + o[1])])
    post = post_use(classes, sub, intern, desc)
    descs = [describe_class(c, cmap, intern) for c in classes] + [post]
    return r, outs, descs, k


# ------------------------------------------------------------------ protocol events
def extract(log, k, scfile, NAMES=NAMES):  # noqa: N803
    """protocol events (tid, Coq term of BootstrapModel.ev) in execution order"""
    n = len(log)
    nxt = [None] * n
    last = {}
    for i in range(n - 1, -1, -1):
        t = log[i][0]
        nxt[i] = last.get(t)
        last[t] = i

    def text(e):
        return linecache.getline(e[2][0], e[2][1]).strip()

    def following(i):
        j = nxt[i]
        while j is not None:
            if log[j][1] == "line":
                yield log[j]
            j = nxt[j]

    def next_line(i):
        for e in following(i):
            return e
        return None

    def is_get(e):
        return e is not None and e[2][0] == scfile and e[2][2] == "__get__"

    def leaf(c):
        # a plain class stands for the spec class it derives from (same placeholders / wrapper
        # found along its MRO): the plain subclass (k) for the leaf, M<i> (100 + i) for C<i>
        if c is not None and c >= 100:
            return c - 100
        return k - 1 if c == k else c

    def unpack_line(e):
        # first line of the wrapper and of the pass-through: `cls, args = args[0], args[1:]`
        return e[2][0] == scfile and e[2][2] == "__new__" and text(e).startswith("cls, args = args[0]")

    def next_real_line(i):
        for e in following(i):
            if not unpack_line(e):
                return e
        return None

    def b(x):
        return "true" if x else "false"

    def wrapper_test(e):
        return (e[2][0] == scfile and e[2][2] == "__new__" and e[2][3] and e[2][3][1] is not None
                and text(e).startswith("if not isinstance(cls.__spec_class__"))

    def next_wrapper(i):
        for e in following(i):
            if wrapper_test(e):
                return e[2][3][1]
        return None

    ev = []
    st = {}
    for i, (tid, kind, data) in enumerate(log):
        s = st.setdefault(tid, {"boot": set(), "hasattr": False, "setattr": False, "wframes": set()})
        if kind == "acquired":
            ev.append((tid, f"EAcq {data[1]}"))
        elif kind == "release":
            ev.append((tid, f"ERel {data[1]}"))
        elif kind == "mark":
            if data[0] == "lookup":
                ev.append((tid, f"ETest {data[1]} {b(data[2])} {b(is_get(next_line(i)))}"))
            elif data[0] == "new":
                e = next_real_line(i)
                w = e[2][3][1] if (e is not None and wrapper_test(e)) else None
                ev.append((tid, f"EWNext {data[1] + 1} " + ("None" if w is None else f"(Some {w})")))
                if w is None:
                    ev.append((tid, "EObs"))
        elif kind == "line":
            f, l, fn, extra = data
            if f != scfile or extra is None:
                continue
            t = text(log[i])
            if fn == "__new__" and extra[1] is not None:
                w = extra[1]
                if t.startswith("if not isinstance(cls.__spec_class__"):
                    ev.append((tid, f"ETest {leaf(extra[2])} false {b(is_get(next_line(i)))}"))
                elif t.startswith("with _BOOTSTRAP_LOCK") or t.startswith("with thread_lock"):
                    if extra[3] not in s["wframes"]:
                        s["wframes"].add(extra[3])
                        ev.append((tid, "EWCheck true"))
                elif t.startswith('spec_cls.__dict__.get("__new__")') or t.startswith("if getattr(cls.__new__"):
                    did = False
                    for e in following(i):
                        te = text(e)
                        if te.startswith("if orig_new"):
                            did = True
                            break
                        if te.startswith("with ") or te.startswith("return spec_cls.__new__"):
                            break
                    if not did:  # nothing is written: the check is the whole step
                        ev.append((tid, f"EWRemove {w} false"))
                elif t.startswith("spec_cls.__new__ = ") or t.startswith("del spec_cls.__new__"):
                    # check and removal happen under the lock; the step is placed at the write
                    ev.append((tid, f"EWRemove {w} true"))
                elif t.startswith("return spec_cls.__new__(cls"):
                    p = next_wrapper(i)
                    ev.append((tid, f"EWNext {w} " + ("None" if p is None else f"(Some {p})")))
                    if p is None:
                        ev.append((tid, "EObs"))
            elif fn == "bootstrapper":
                if t.startswith('spec_cls.__dict__.get("__spec_class__")'):
                    hit = False
                    for e in following(i):
                        te = text(e)
                        if te.startswith("self.bootstrap(spec_cls)"):
                            hit = True
                            break
                        if te.startswith("with "):
                            break
                    ev.append((tid, f"ERecheck {extra[1]} {b(hit)}"))
            elif fn == "bootstrap":
                c = extra[1]
                if extra[2] not in s["boot"]:
                    s["boot"].add(extra[2])
                    ev.append((tid, f"EEnter {c}"))
                if t.startswith('parent, "__spec_class__"'):
                    s["hasattr"] = True
                elif t.startswith("hasattr(") and s["hasattr"]:
                    s["hasattr"] = False
                    if extra[3] is not None:
                        ev.append((tid, f"ETest {leaf(extra[3])} false {b(is_get(next_line(i)))}"))
                elif t.startswith("metadata = SpecClassMetadata.for_class(spec_cls)"):
                    ev.append((tid, f"EInherit {c}"))
                elif t.startswith("spec_cls.__spec_class__ = metadata"):
                    ev.append((tid, f"EBodyEnd {c}"))
                    ev.append((tid, f"EPublish {c}"))
                elif t.startswith("spec_cls.__dataclass_fields__ = metadata.attrs"):
                    ev.append((tid, f"EPublishF {c}"))
                elif t.startswith("self.register_methods(spec_cls, methods)"):
                    ev.append((tid, f"ERegister {c}"))
            elif fn == "build_attr_spec":
                c, attr = extra[1], extra[2]
                nm = NAMES.index(attr) if attr in NAMES else 99
                if t.startswith("attr_value = getattr(spec_cls, attr, MISSING)"):
                    decl = False
                    for e in following(i):
                        te = text(e)
                        if te.startswith("setattr("):
                            decl = True
                            break
                        if te.startswith("attr_spec = Attr.from_attr_value("):
                            break
                    ev.append((tid, f"ERead {c} {nm} {b(decl)}"))
                elif t.startswith("setattr("):
                    if s["setattr"]:
                        s["setattr"] = False
                        ev.append((tid, f"EConsume {c} {nm}"))
                    else:
                        s["setattr"] = True
            elif fn == "__get__":
                if t.startswith("return owner.__spec_class__") or t.startswith("return getattr(owner.__spec_class__"):
                    ev.append((tid, f"EReread {extra[1]}"))
    return ev


def anchored_lines(log, files):
    out = set()
    for e in log:
        if e[1] == "line":
            out.add((e[2][0], e[2][1]))
    return out
