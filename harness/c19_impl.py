"""C19 — implementation side: render a class description to source (lazy / eager),
run first uses under the deterministic scheduler, extract the protocol events from
the line log, and describe classes / outcomes canonically."""
import importlib
import inspect
import linecache
import sys

import c19_sched as S

NAMES = ["a0", "a1", "a2", "a3", "a4", "a5"]
_SETUP = {}


def setup():
    """import the library once, patch its locks, return module handles"""
    if _SETUP:
        return _SETUP
    scm = importlib.import_module("spec_classes.spec_class")
    mb = importlib.import_module("spec_classes.methods.base")
    scm.RLock = S.TracedRLock  # locks created by the library from now on are traced
    _SETUP.update(scm=scm, mb=mb, files=[scm.__file__, mb.__file__])
    return _SETUP


def fresh_locks():
    scm = setup()["scm"]
    for k, v in list(vars(scm).items()):
        if isinstance(v, (S.TracedRLock, type(S._real_RLock()))):
            setattr(scm, k, S.TracedRLock())


# ------------------------------------------------------------------ class source
def render(desc, eager):
    """desc: {"classes": [{"attrs": [[name, form, dk, init, repr, cmp, typ]], "key": n|None,
    "frozen": b, "new": b}], "sub": None | {"new": b}}"""
    out = ["import dataclasses", "from typing import List", "from spec_classes import spec_class, Attr", ""]
    for i, c in enumerate(desc["classes"]):
        args = []
        if c.get("key") is not None:
            args.append(f"key={NAMES[c['key']]!r}")
        if c.get("frozen"):
            args.append("frozen=True")
        if c.get("dnc"):
            args.append("do_not_copy=" + repr([NAMES[n] for n in c["dnc"]]))
        if eager:
            args.append("bootstrap=True")
        out.append(f"@spec_class({', '.join(args)})" if args else "@spec_class")
        out.append(f"class C{i}({'C%d' % (i - 1) if i else ''}):".replace("()", ""))
        body = []
        for n, form, dk, ini, rep, cmp_, typ in c["attrs"]:
            ann = "List[int]" if typ == "list" else "int"
            name = NAMES[n]
            if form == "none":
                body.append(f"    {name}: {ann}")
            elif form == "plain":
                body.append(f"    {name}: {ann} = {10 + n}")
            else:
                kw = []
                if dk == 1:
                    kw.append(f"default={10 + n}")
                elif dk == 2:
                    kw.append("default_factory=" + ("list" if typ == "list" else "int"))
                if not ini:
                    kw.append("init=False")
                if not rep:
                    kw.append("repr=False")
                if not cmp_:
                    kw.append("compare=False")
                ctor = "Attr" if form == "attr" else "dataclasses.field"
                body.append(f"    {name}: {ann} = {ctor}({', '.join(kw)})")
        if c.get("new"):
            body += ["    def __new__(cls, *args, **kwargs):",
                     "        self = super().__new__(cls)",
                     f"        object.__setattr__(self, '_made_by', getattr(self, '_made_by', ()) + ({i},))",
                     "        return self"]
        out += body or ["    pass"]
        out.append("")
    if desc.get("sub"):
        k = len(desc["classes"])
        out.append(f"class PS(C{k - 1}):")
        if desc["sub"].get("new"):
            out += ["    def __new__(cls, *args, **kwargs):",
                    "        self = super().__new__(cls)",
                    f"        object.__setattr__(self, '_made_by', getattr(self, '_made_by', ()) + ({k},))",
                    "        return self"]
        else:
            out.append("    pass")
        out.append("")
    return "\n".join(out)


def build(desc, eager):
    setup()
    ns = {}
    src = render(desc, eager)
    exec(compile(src, "<c19-classes>", "exec"), ns)  # noqa: S102 - generated source
    classes = [ns[f"C{i}"] for i in range(len(desc["classes"]))]
    return classes, ns.get("PS"), src


# ------------------------------------------------------------------ uses
def target(classes, sub, tgt):
    return sub if tgt == "sub" else classes[tgt]


def model_tgt(desc, tgt):
    return len(desc["classes"]) - 1 if tgt == "sub" else tgt


def helper_attr(desc, tgt):
    """an int attribute visible in class tgt for which with_<a> exists"""
    k = model_tgt(desc, tgt)
    for c in reversed(desc["classes"][:k + 1]):
        for a in c["attrs"]:
            if a[6] == "int":
                return NAMES[a[0]]
    return None


def describe_attrs(attrs, cmap, intern):
    from spec_classes.types import MISSING
    out = []
    for name, a in attrs.items():
        dk = 2 if a.default_factory is not MISSING else (1 if a.default is not MISSING else 0)
        out += [intern("n:" + str(name)), cmap.get(id(a.owner), -5), dk, int(bool(a.init)), int(bool(a.repr)),
                int(bool(a.compare)), intern("t:" + str(a.type)), int(bool(a.is_masked)), int(bool(a.do_not_copy)),
                intern("h:" + ",".join(sorted(getattr(m, "__name__", str(m)) for m in (a.helper_methods or ())))),
                intern("d:" + repr(a.default))]
    return out


def describe_meta(m, cmap, intern):
    return describe_attrs(m.attrs, cmap, intern) + [-1, intern("k:" + str(m.key)), int(bool(m.frozen)),
                                                     int(bool(m.do_not_copy)), cmap.get(id(m.owner), -5)]


def make_thunk(desc, classes, sub, use, cmap, intern):
    kind, tgt = use
    T = target(classes, sub, tgt)
    k = model_tgt(desc, tgt)
    mark = lambda d: S.CURRENT.mark(d) if S.CURRENT is not None else None  # noqa: E731

    def inst():
        mark(("new", k))
        o = T()
        return [intern("r:" + repr(o)), intern("m:" + repr(getattr(o, "_made_by", ())))]

    def helper():
        a = helper_attr(desc, tgt)
        mark(("new", k))
        o = T()
        r = [intern("r:" + repr(o)), intern("m:" + repr(getattr(o, "_made_by", ())))]
        if a is not None and not desc["classes"][k].get("frozen_chain"):
            o2 = getattr(o, "with_" + a)(5)
            r += [intern("r:" + repr(o2)), int(o2 is o)]
        return r

    def meta():
        mark(("lookup", k, False))
        m = T.__spec_class__
        return describe_meta(m, cmap, intern)

    def fields():
        mark(("lookup", k, True))
        f = T.__dataclass_fields__
        return describe_attrs(f, cmap, intern)

    return {"inst": inst, "helper": helper, "meta": meta, "fields": fields}[kind]


def new_kind(cls):
    e = cls.__dict__.get("__new__")
    if e is None:
        return "none"
    f = getattr(e, "__func__", e)
    if getattr(f, "__spec_classes_new_wrapper__", False):
        return "wrapper"
    if "spec_class.__call__" in getattr(f, "__qualname__", ""):
        return "none"  # the pass-through to object.__new__ installed instead of the wrapper
    return "user"


SKIP = {"__new__", "__dict__", "__weakref__", "__doc__", "__module__", "__qualname__", "__annotations__",
        "__spec_class__", "__dataclass_fields__", "__firstlineno__", "__static_attributes__"}


def describe_class(cls, cmap, intern):
    d = cls.__dict__
    m = d.get("__spec_class__")
    out = []
    scm = setup()["scm"]
    if isinstance(m, scm.SpecClassMetadata):
        out += [1] + describe_meta(m, cmap, intern)
        f = d.get("__dataclass_fields__")
        out += [-2, int(f is m.attrs)]
        names = list(m.attrs)
    else:
        out += [0]
        names = []
    out += [-3] + [intern("v:%s=%r" % (n, d.get(n, "<absent>"))) for n in names]
    # generated methods: names resolvable on the class (own or inherited).  In which class
    # dictionary a dissolved MethodDescriptor leaves its function depends on the order in which
    # instances of parent and subclass first touch the helper (eager classes too), not on bootstrapping.
    vis = set()
    for k in cls.__mro__:
        if k is not object:
            vis.update(k.__dict__)
    out += [-4, intern("M:" + ",".join(sorted(n for n in vis if n not in SKIP and n not in names)))]
    out += [-5, intern("A:" + ",".join(getattr(cls, "__annotations__", {}))), intern("N:" + new_kind(cls))]
    for meth in ("__init__", "update"):
        try:
            out.append(intern("S:" + meth + str(inspect.signature(getattr(cls, meth)))))
        except Exception as e:  # noqa: BLE001
            out.append(intern("S:" + meth + ":" + type(e).__name__))
    return out


def model_meta(cls, cmap):
    """eager metadata in the model's vocabulary"""
    from spec_classes.types import MISSING
    m = cls.__dict__["__spec_class__"]
    out = []
    for name, a in m.attrs.items():
        dk = 2 if a.default_factory is not MISSING else (1 if a.default is not MISSING else 0)
        out += [NAMES.index(name), cmap.get(id(a.owner), 99), dk, int(bool(a.init)), int(bool(a.repr)), int(bool(a.compare))]
    out += [NAMES.index(m.key) if m.key is not None else -1, int(bool(m.frozen))]
    return out


class Interner:
    def __init__(self):
        self.d = {}

    def __call__(self, s):
        return self.d.setdefault(s, len(self.d) + 10)


def post_use(classes, sub, intern):
    """what a later sequential user sees: instances of the leaf (and of the plain subclass).
    Runs in a helper thread with a time limit: after a broken run a traced lock can stay held
    by a thread that died at the recursion limit (the Python-level __exit__ of the traced
    lock needs a frame, the real RLock does not)."""
    import threading
    fresh_locks()
    out = []

    def work():
        for T in ([classes[-1]] + ([sub] if sub is not None else [])):
            try:
                o = T()
                out.extend([1, intern("r:" + repr(o)), intern("m:" + repr(getattr(o, "_made_by", ())))])
            except BaseException as e:  # noqa: BLE001
                out.extend([0, intern("E:" + type(e).__name__)])

    th = threading.Thread(target=work, daemon=True)
    th.start()
    th.join(10)
    if th.is_alive():
        return [0, intern("E:<later use blocks>")]
    return list(out)


def run_eager(desc, uses, intern):
    classes, sub, _ = build(desc, True)
    cmap = {id(c): i for i, c in enumerate(classes)}
    if sub is not None:
        cmap[id(sub)] = len(classes)
    outs = []
    for u in uses:
        try:
            outs.append([1] + make_thunk(desc, classes, sub, u, cmap, intern)())
        except BaseException as e:  # noqa: BLE001
            outs.append([0, intern("E:" + type(e).__name__)])
    post = post_use(classes, sub, intern)
    descs = [describe_class(c, cmap, intern) for c in classes] + [post]
    metas = [model_meta(c, cmap) for c in classes]
    return outs, descs, metas


def run_lazy(desc, uses, policy, intern, timeout=2.0):
    st = setup()
    fresh_locks()
    classes, sub, _ = build(desc, False)
    cmap = {id(c): i for i, c in enumerate(classes)}
    k = len(classes)
    if sub is not None:
        cmap[id(sub)] = k
    ph = {}
    for i, c in enumerate(classes):
        for n in ("__spec_class__", "__dataclass_fields__"):
            ph[id(c.__dict__.get(n))] = i
    scfile = st["scm"].__file__

    def probe(frame):
        code = frame.f_code
        if code.co_filename != scfile:
            return None
        fn = code.co_name
        loc = frame.f_locals
        if fn == "__get__":
            return ("get", ph.get(id(loc.get("self"))))
        if fn == "bootstrapper":
            return ("bs", cmap.get(id(loc.get("spec_cls"))))
        if fn == "bootstrap":
            return ("boot", cmap.get(id(loc.get("spec_cls"))), id(frame), cmap.get(id(loc.get("parent"))))
        if fn == "build_attr_spec":
            return ("bas", cmap.get(id(loc.get("spec_cls"))), loc.get("attr"))
        if fn == "__new__":
            return ("new", cmap.get(id(loc.get("spec_cls"))), cmap.get(id(loc.get("cls"))), id(frame))
        return None

    sch = S.Sched(st["files"], timeout=timeout, probe=probe, max_steps=40000)
    thunks = [make_thunk(desc, classes, sub, u, cmap, intern) for u in uses]
    r = sch.run(thunks, policy)
    outs = []
    for o in r["outcome"]:
        if o is None:
            outs.append([0, intern("E:<did not finish>")])
        elif o[0] == "ok":
            outs.append([1] + o[1])
        else:
            outs.append([0, intern("E:" + o[1])])
    post = post_use(classes, sub, intern)
    descs = [describe_class(c, cmap, intern) for c in classes] + [post]
    return r, outs, descs, k


# ------------------------------------------------------------------ protocol events
def extract(log, k, scfile):
    """protocol events (tid, Coq term of BootstrapModel.ev) in execution order"""
    n = len(log)
    nxt = [None] * n
    last = {}
    for i in range(n - 1, -1, -1):
        t = log[i][0]
        nxt[i] = last.get(t)
        last[t] = i

    def text(e):
        return linecache.getline(e[2][0], e[2][1]).strip()

    def following(i):
        j = nxt[i]
        while j is not None:
            if log[j][1] == "line":
                yield log[j]
            j = nxt[j]

    def next_line(i):
        for e in following(i):
            return e
        return None

    def is_get(e):
        return e is not None and e[2][0] == scfile and e[2][2] == "__get__"

    def leaf(c):
        return k - 1 if c == k else c

    def b(x):
        return "true" if x else "false"

    def wrapper_test(e):
        return (e[2][0] == scfile and e[2][2] == "__new__" and e[2][3] and e[2][3][1] is not None
                and text(e).startswith("if not isinstance(cls.__spec_class__"))

    def next_wrapper(i):
        for e in following(i):
            if wrapper_test(e):
                return e[2][3][1]
        return None

    ev = []
    st = {}
    for i, (tid, kind, data) in enumerate(log):
        s = st.setdefault(tid, {"boot": set(), "hasattr": False, "setattr": False, "wframes": set()})
        if kind == "acquired":
            ev.append((tid, f"EAcq {data[1]}"))
        elif kind == "release":
            ev.append((tid, f"ERel {data[1]}"))
        elif kind == "mark":
            if data[0] == "lookup":
                ev.append((tid, f"ETest {data[1]} {b(data[2])} {b(is_get(next_line(i)))}"))
            elif data[0] == "new":
                e = next_line(i)
                w = e[2][3][1] if (e is not None and wrapper_test(e)) else None
                ev.append((tid, f"EWNext {data[1] + 1} " + ("None" if w is None else f"(Some {w})")))
                if w is None:
                    ev.append((tid, "EObs"))
        elif kind == "line":
            f, l, fn, extra = data
            if f != scfile or extra is None:
                continue
            t = text(log[i])
            if fn == "__new__" and extra[1] is not None:
                w = extra[1]
                if t.startswith("if not isinstance(cls.__spec_class__"):
                    ev.append((tid, f"ETest {leaf(extra[2])} false {b(is_get(next_line(i)))}"))
                elif t.startswith("with _BOOTSTRAP_LOCK") or t.startswith("with thread_lock"):
                    if extra[3] not in s["wframes"]:
                        s["wframes"].add(extra[3])
                        ev.append((tid, "EWCheck true"))
                elif t.startswith('spec_cls.__dict__.get("__new__")') or t.startswith("if getattr(cls.__new__"):
                    did = False
                    for e in following(i):
                        te = text(e)
                        if te.startswith("if orig_new"):
                            did = True
                            break
                        if te.startswith("with ") or te.startswith("return spec_cls.__new__"):
                            break
                    if not did:  # nothing is written: the check is the whole step
                        ev.append((tid, f"EWRemove {w} false"))
                elif t.startswith("spec_cls.__new__ = ") or t.startswith("del spec_cls.__new__"):
                    # check and removal happen under the lock; the step is placed at the write
                    ev.append((tid, f"EWRemove {w} true"))
                elif t.startswith("return spec_cls.__new__(cls"):
                    p = next_wrapper(i)
                    ev.append((tid, f"EWNext {w} " + ("None" if p is None else f"(Some {p})")))
                    if p is None:
                        ev.append((tid, "EObs"))
            elif fn == "bootstrapper":
                if t.startswith('spec_cls.__dict__.get("__spec_class__")'):
                    hit = False
                    for e in following(i):
                        te = text(e)
                        if te.startswith("self.bootstrap(spec_cls)"):
                            hit = True
                            break
                        if te.startswith("with "):
                            break
                    ev.append((tid, f"ERecheck {extra[1]} {b(hit)}"))
            elif fn == "bootstrap":
                c = extra[1]
                if extra[2] not in s["boot"]:
                    s["boot"].add(extra[2])
                    ev.append((tid, f"EEnter {c}"))
                if t.startswith('parent, "__spec_class__"'):
                    s["hasattr"] = True
                elif t.startswith("hasattr(") and s["hasattr"]:
                    s["hasattr"] = False
                    if extra[3] is not None:
                        ev.append((tid, f"ETest {extra[3]} false {b(is_get(next_line(i)))}"))
                elif t.startswith("metadata = SpecClassMetadata.for_class(spec_cls)"):
                    ev.append((tid, f"EInherit {c}"))
                elif t.startswith("spec_cls.__spec_class__ = metadata"):
                    ev.append((tid, f"EBodyEnd {c}"))
                    ev.append((tid, f"EPublish {c}"))
                elif t.startswith("spec_cls.__dataclass_fields__ = metadata.attrs"):
                    ev.append((tid, f"EPublishF {c}"))
                elif t.startswith("self.register_methods(spec_cls, methods)"):
                    ev.append((tid, f"ERegister {c}"))
            elif fn == "build_attr_spec":
                c, attr = extra[1], extra[2]
                nm = NAMES.index(attr) if attr in NAMES else 99
                if t.startswith("attr_value = getattr(spec_cls, attr, MISSING)"):
                    decl = False
                    for e in following(i):
                        te = text(e)
                        if te.startswith("setattr("):
                            decl = True
                            break
                        if te.startswith("attr_spec = Attr.from_attr_value("):
                            break
                    ev.append((tid, f"ERead {c} {nm} {b(decl)}"))
                elif t.startswith("setattr("):
                    if s["setattr"]:
                        s["setattr"] = False
                        ev.append((tid, f"EConsume {c} {nm}"))
                    else:
                        s["setattr"] = True
            elif fn == "__get__":
                if t.startswith("return owner.__spec_class__") or t.startswith("return getattr(owner.__spec_class__"):
                    ev.append((tid, f"EReread {extra[1]}"))
    return ev


def anchored_lines(log, files):
    out = set()
    for e in log:
        if e[1] == "line":
            out.add((e[2][0], e[2][1]))
    return out
