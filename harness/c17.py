"""C17 — every generated method accepts exactly what its advertised signature says.

Correspondence of coq/Deco/Signature.v + Bind.v with spec_classes.utils.method_builder and the
method descriptors, and property oracle (coq/Deco/SigSpec.v through coq/Corr/SigCorr.v:spec_ok)
on the observed signatures, acceptance/rejection of calls and the keyword arguments recorded by
a spying implementation."""
import copy
import inspect
import json
import typing

from common import Check, cbool, clist, copt, coq_eval, cz

PRELUDE = """From Coq Require Import String List ZArith Bool.
From SC Require Import Base.Res Deco.Naming Deco.Bind Deco.Signature Deco.SigSpec Corr.Enc Corr.SigCorr.
Import ListNotations.
Open Scope string_scope.
Open Scope Z_scope.
Definition P n k d := mkparam n k d.
Definition A (kv : call) (r : list (name * Z)) (i : bool) := (kv, OAccept r i).
Definition R (kv : call) (c : Z) (s : bool) := (kv, OReject c s).
Definition C (p : list Z) (k : list (name * Z)) := mkcall p k.
"""

SELF = 100
UNADVERTISED = ["zzz", "other_attr", "kwargs", "attr_spec", "spec_cls", "implementation", "_private", "self"]


def cs(s):
    assert '"' not in s
    return '"' + s + '"'


# ------------------------------------------------------------------ class descriptions
# a description is a list of classes in dependency order:
#   {"name", "key": None | name, "overflow": None | name,
#    "attrs": [{"name", "ty", "form", "default"}]}
# ty: int | str | bool | float | opt (Optional[int]) | list | dict | set | nested:X | list_nested:X | dict_nested:X
#     | klist:X | kset:X
# form: none | value (default: an int, or for the other plain types any literal of the type -- a TRUTHY one, so that
#       a falsy value handed over and lost is told from the default) | noinit (Attr(default=int, init=False)) | factory
#       | property
# How a container attribute is SPELLED in the class body is a rendering choice of the harness ("spell" of an attribute,
# default "typing"); the description handed to the model -- and so the expected signature -- does not depend on it:
#   typing   typing.List[X] / typing.Dict[str, X] / typing.Set[X]
#   builtin  list[X] / dict[str, X] / set[X]            (PEP 585: types.GenericAlias, not typing._GenericAlias)
#   abc      collections.abc.MutableSequence[X] / MutableMapping[str, X] / MutableSet[X]   (types.GenericAlias too)
#   tabc     typing.MutableSequence[X] / typing.MutableMapping[str, X] / typing.MutableSet[X]
SPELLINGS = ("typing", "builtin", "abc", "tabc")
SPELLABLE = ("list", "dict", "set", "list_nested", "dict_nested")


def container_forms(spell):
    import collections.abc as cabc
    return {"typing": (typing.List, typing.Dict, typing.Set),
            "builtin": (list, dict, set),
            "abc": (cabc.MutableSequence, cabc.MutableMapping, cabc.MutableSet),
            "tabc": (typing.MutableSequence, typing.MutableMapping, typing.MutableSet)}[spell]


def build_classes(desc):
    from spec_classes import Attr, spec_class
    from spec_classes.types import KeyedList, KeyedSet
    env = {}
    for cd in desc:
        ann, ns = {}, {}
        for a in cd["attrs"]:
            ty = a["ty"]
            base, _, ref = ty.partition(":")
            L, D, S = container_forms(a.get("spell", "typing"))
            T = {"int": int, "str": str, "list": L[int], "dict": D[str, int],
                 "set": S[int], "any": typing.Any, "bool": bool, "float": float,
                 "opt": typing.Optional[int]}.get(base)
            if base == "nested":
                T = env[ref]
            elif base == "list_nested":
                T = L[env[ref]]
            elif base == "dict_nested":
                T = D[str, env[ref]]
            elif base in ("klist", "kset"):
                # the declared key type is the type of the element class's key attribute (enforced since /repo 3655f2b)
                rcd = next(c for c in desc if c["name"] == ref)
                kty = next((x["ty"] for x in all_attrs(rcd) if x["name"] == eff_key(rcd)), "str")
                T = (KeyedList if base == "klist" else KeyedSet)[env[ref], int if kty == "int" else str]
            ann[a["name"]] = T
            f = a.get("form", "none")
            if f == "value":
                ns[a["name"]] = py_default(a)
            elif f == "noinit":
                ns[a["name"]] = Attr(default=a["default"], init=False)
            elif f == "factory":
                ns[a["name"]] = Attr(default_factory=list)
            elif f == "property":
                ns[a["name"]] = property(lambda self: 1)
        for rd in cd.get("redefaults", []):
            ns[rd["name"]] = rd["default"]  # `name = value` without annotation: only the default of an inherited attribute changes
        ns["__annotations__"] = ann
        cls = type(cd["name"], (env[cd["base"]],) if cd.get("base") else (), ns)
        kw = {"bootstrap": True}
        if cd.get("key") or (cd.get("base") and "key" in cd):
            kw["key"] = cd["key"]  # a subclass may disable (None) or rename the key of its parent
        if cd.get("overflow"):
            kw["init_overflow_attr"] = cd["overflow"]
        if cd.get("frozen"):
            kw["frozen"] = True
        env[cd["name"]] = spec_class(**kw)(cls)
    return env


def py_default(a):
    """the Python object a description's default stands for (JSON has no sets: a set default is stored as a list)"""
    d = a["default"]
    return set(d) if a["ty"] == "set" and isinstance(d, list) else d


def prepare(desc):
    """resolve inheritance inside a description (idempotent): inherited attributes in the parent's
    order, effective key, inherited overflow attribute.  A subclass may (a) re-assign the default of an
    inherited attribute (`"redefaults": [{"name", "default"}]`, class body `name = value`): the attribute keeps
    its place, its owner and every option its owner DECLARED (init=False stays init=False), only the default
    changes; (b) re-annotate an inherited attribute (same name in its own "attrs"): a new declaration owned by
    the subclass that keeps the inherited place in the attribute order"""
    by_name = {}
    for cd in desc:
        if cd.get("base"):
            par = by_name[cd["base"]]
            inh = [dict(a) for a in all_attrs(par)]
            for rd in cd.get("redefaults", []):
                for a in inh:
                    if a["name"] == rd["name"]:
                        a["form"] = "noinit" if a.get("form", "none") == "noinit" else "value"
                        a["default"] = rd["default"]
            cd["_inherited"] = inh
            cd["_effkey"] = cd["key"] if "key" in cd else par.get("_effkey")
            cd["_effoverflow"] = cd.get("overflow") or par.get("_effoverflow")
        else:
            cd["_inherited"] = []
            cd["_effkey"] = cd.get("key")
            cd["_effoverflow"] = cd.get("overflow")
        own = {a["name"]: a for a in cd["attrs"]}
        inh_names = {a["name"] for a in cd["_inherited"]}
        cd["_all"] = [own.get(a["name"], a) for a in cd["_inherited"]] + [a for a in cd["attrs"] if a["name"] not in inh_names]
        by_name[cd["name"]] = cd
    return desc


def all_attrs(cd):
    if "_all" in cd:
        return cd["_all"]
    return cd.get("_inherited", []) + cd["attrs"]


def eff_key(cd):
    return cd["_effkey"] if "_effkey" in cd else cd.get("key")


def eff_overflow(cd):
    return cd["_effoverflow"] if "_effoverflow" in cd else cd.get("overflow")


def ncls_of(cd):
    """what with_spec_attrs_for reads of a class, reconstructed from the description alone:
    (name, init, default code) per attribute in __spec_class__.attrs order (inherited first),
    overflow attribute"""
    out, seen = [], set()
    for a in all_attrs(cd):
        if a["name"].startswith("_") and a["name"] != eff_key(cd):
            continue
        f = a.get("form", "none")
        d = default_code(a) if f in ("value", "noinit") else 0
        out.append((a["name"], f != "noinit", d))
        seen.add(a["name"])
    # private key attributes are appended after the managed ones (helpers=False)
    priv = [x for x in out if x[0].startswith("_")]
    out = [x for x in out if not x[0].startswith("_")]
    ov = eff_overflow(cd)
    if ov and ov not in seen:
        out.append((ov, True, 0))
    return out + priv, ov


def default_code(a):
    """the code enc_default gives the default of attribute a (ints stand for themselves)"""
    d = a["default"]
    if d is False:
        return 1
    if d is True:
        return 2
    return d if isinstance(d, int) else 999


def c_ncls(n):
    if n is None:
        return "None"
    attrs, ov = n
    return "(Some (mkncls %s %s))" % (clist(attrs, lambda a: f"(mknattr {cs(a[0])} {cbool(a[1])} {cz(a[2])})"), copt(ov, cs))


SEQ = {"list": "KSeq", "list_nested": "KSeq", "klist": "KSeq", "dict": "KMap", "dict_nested": "KMap",
       "set": "KSet", "kset": "KSet"}


def methods_of(desc, cd):
    """(method name pattern, mkind term, nested) for every method generated for class cd — from the description"""
    by_name = {c["name"]: c for c in desc}
    own = ncls_of(cd)
    out = []
    key = eff_key(cd)
    if key:
        ka = [a for a in all_attrs(cd) if a["name"] == key]
        has_default = bool(ka) and ka[0].get("form", "none") in ("value", "noinit", "factory", "property")
        # Attr.has_default: default or default_factory present; a masking property is a default object too
        out.append(("__init__", f"(MInit (Some ({cs(key)}, {cbool(has_default)})))", own))
    else:
        out.append(("__init__", "(MInit None)", own))
    out += [("update", "MTopUpdate", own), ("transform", "MTopTransform", own), ("reset", "MTopReset", own)]
    for a in cd["attrs"]:
        if a["name"].startswith("_"):
            continue
        base, _, ref = a["ty"].partition(":")
        nested = ncls_of(by_name[ref]) if base == "nested" else None
        spec = cbool(base == "nested")
        n = a["name"]
        out += [(f"with_{n}", "MWith", nested), (f"update_{n}", f"(MUpdate {spec})", nested),
                (f"transform_{n}", f"(MTransform {spec})", nested), (f"reset_{n}", "MReset", nested)]
        if base in SEQ:
            k = SEQ[base]
            inested = ncls_of(by_name[ref]) if ref else None
            ispec = cbool(bool(ref))
            out += [(("with", n), f"(MElemWith {k} {ispec})", inested), (("update", n), f"(MElemUpdate {k} {ispec})", inested),
                    (("transform", n), f"(MElemTransform {k} {ispec})", inested), (("without", n), f"(MElemWithout {k})", inested)]
    if cd.get("overflow") and not any(a["name"] == cd["overflow"] for a in cd["attrs"]):
        n = cd["overflow"]
        out += [(f"with_{n}", "MWith", None), (f"update_{n}", "(MUpdate false)", None),
                (f"transform_{n}", "(MTransform false)", None), (f"reset_{n}", "MReset", None)]
        out += [(("with", n), "(MElemWith KMap false)", None), (("update", n), "(MElemUpdate KMap false)", None),
                (("transform", n), "(MElemTransform KMap false)", None), (("without", n), "(MElemWithout KMap)", None)]
    return out


# ------------------------------------------------------------------ observation
def enc_default(d):
    from spec_classes.types import MISSING
    if d is inspect.Parameter.empty:
        return None
    if d is MISSING:
        return 0
    if d is False:
        return 1
    if d is True:
        return 2
    if isinstance(d, int):
        return d
    return 999


# explicit values a caller may pass that are easily confused with "not given"
TAG_CODES = {"missing": 0, "false": 1, "true": 2, "empty": -11, "unchanged": -12, "none": -13, "zero": -14}
SENTINEL_TAGS = ["missing", "empty", "unchanged", "none", "false", "zero"]


def tag_object(tag):
    from spec_classes.types import EMPTY, MISSING, UNCHANGED
    return {"missing": MISSING, "false": False, "true": True, "empty": EMPTY, "unchanged": UNCHANGED,
            "none": None, "zero": 0}[tag]


def enc_value(v, inst):
    from spec_classes.types import EMPTY, UNCHANGED
    if v is inst:
        return SELF
    if v is EMPTY:
        return TAG_CODES["empty"]
    if v is UNCHANGED:
        return TAG_CODES["unchanged"]
    if v is None:
        return TAG_CODES["none"]
    if isinstance(v, int) and not isinstance(v, bool) and v == 0:
        return TAG_CODES["zero"]
    d = enc_default(v)
    return 998 if d is None else d


KINDS = {inspect.Parameter.POSITIONAL_OR_KEYWORD: "PosOrKw", inspect.Parameter.KEYWORD_ONLY: "KwOnly",
         inspect.Parameter.VAR_KEYWORD: "VarKw"}


def sig_params(sig):
    return [(p.name, KINDS.get(p.kind, "Other"), enc_default(p.default)) for p in sig.parameters.values()]


def real_params(f):
    co = f.__code__
    names = co.co_varnames
    npos, nkw = co.co_argcount, co.co_kwonlyargcount
    dfl = f.__defaults__ or ()
    out = []
    for i, n in enumerate(names[:npos]):
        j = i - (npos - len(dfl))
        out.append((n, "PosOrKw", enc_default(dfl[j]) if j >= 0 else None))
    kwd = f.__kwdefaults__ or {}
    for n in names[npos:npos + nkw]:
        out.append((n, "KwOnly", enc_default(kwd[n]) if n in kwd else None))
    idx = npos + nkw
    if co.co_flags & 0x04:
        out.append((names[idx], "Other", None))
        idx += 1
    if co.co_flags & 0x08:
        out.append((names[idx], "VarKw", None))
    return out


def c_sig(ps):
    return clist(ps, lambda p: f"(P {cs(p[0])} {p[1]} {copt(p[2], cz)})")


def gen_calls(adv, extra_unadvertised, light=False):
    """calls as (positional values after the receiver, keyword pairs) from the advertised signature; `light`: of the
    pairs of advertised parameters only those of the first two parameters with every other one and of parameters at
    most two places apart (descriptions whose purpose is the effect calls on the real methods)"""
    ps = [p for p in adv if p[0] != "self"]
    P = [p[0] for p in ps if p[1] == "PosOrKw"]
    named = [p[0] for p in ps if p[1] != "VarKw"]
    required = [p[0] for p in ps if p[1] != "VarKw" and p[2] is None]
    calls = [([], [])]
    base = list(required)

    def add(pos, kws):
        calls.append((list(pos), list(kws)))
    add([], base)
    for a in named:
        add([], [a])
        add([], base + ([a] if a not in base else []))
        if a in P:
            add(P[:P.index(a) + 1], [])
            add(P[:P.index(a) + 1], [x for x in base if x not in P[:P.index(a) + 1]])
            add(P[:P.index(a) + 1], [a])  # multiple values
    for i, a in enumerate(named):
        for j, b in enumerate(named[i + 1:]):
            if light and i >= 2 and j >= 2:
                continue
            add([], sorted({a, b} | set(base), key=(base + named).index))
            if not base or (i + len(b)) % 3 == 0:
                add([], [a, b])
            if a in P and b not in P:
                add(P[:P.index(a) + 1], [b] + [x for x in base if x not in P[:P.index(a) + 1] and x != b])
    add(P + ["+1"], [])
    for u in UNADVERTISED + extra_unadvertised:
        if u in named:
            continue
        add([], base + [u])
        add([], [u])
        if named:
            add([], base + [x for x in [named[-1]] if x not in base] + [u])
    # the VALUE must not matter for acceptance: unadvertised names carrying sentinel values
    unadv = [u for u in UNADVERTISED[:1] + extra_unadvertised[:1] + ["bogus"] if u not in named][:2]
    for u in unadv:
        for t in SENTINEL_TAGS:
            add([], base + [(u, t)])
    if unadv and named:
        add([], base + [x for x in [named[-1]] if x not in base] + [(unadv[0], "missing")])
    # every advertised parameter given an explicit falsy value / sentinel (distinct from "not given")
    for a in named:
        rest = [x for x in base if x != a]
        for t in ("false", "zero", "none", "missing"):
            add([], rest + [(a, t)])
    # de-duplicate, drop repeated keywords
    seen, out = set(), []
    for pos, kws in calls:
        names_ = [k[0] if isinstance(k, tuple) else k for k in kws]
        if len(set(names_)) != len(names_):
            continue
        k = (tuple(pos), tuple(kws))
        if k not in seen:
            seen.add(k)
            out.append((pos, kws))
    return out


def state_of(obj):
    try:
        return repr(sorted((k, repr(v)) for k, v in object.__getattribute__(obj, "__dict__").items()))
    except BaseException as e:  # noqa
        return "?" + type(e).__name__


def observe_method(cls, inst, mname):
    """signatures, then every call against a spying implementation (+ the real method for
    rejected calls: state unchanged; for accepted calls with _if=False: the implementation binds)"""
    getattr(cls, mname)  # dissolve the descriptor
    f = cls.__dict__[mname]
    adv = sig_params(inspect.signature(f))
    real = real_params(f)
    impl = f.__globals__["implementation"]
    impl_ps = sig_params(inspect.signature(impl))
    return f, adv, real, impl_ps


def run_calls(f, inst, adv, calls):
    impl = f.__globals__["implementation"]
    has_if = any(p[0] == "_if" for p in adv)
    out = []
    for pos, kws in calls:
        vals = {}
        counter = [1000]

        def fresh():
            counter[0] += 1
            return counter[0]
        posv = [fresh() for _ in pos]
        kwv, actual = [], {}
        for k in kws:
            if isinstance(k, tuple):
                kwv.append((k[0], TAG_CODES[k[1]]))
                actual[k[0]] = tag_object(k[1])
            else:
                v = fresh()
                kwv.append((k, v))
                actual[k] = v
        rec = []

        def spy(**kw):
            rec.append(kw)
            return None
        f.__globals__["implementation"] = spy
        try:
            try:
                f(inst, *posv, **actual)
                outcome = ("A", [(k, enc_value(v, inst)) for k, v in rec[0].items()] if rec else None)
            except BaseException as e:
                if isinstance(e, (KeyboardInterrupt, SystemExit)):
                    raise
                outcome = ("R", -1 if isinstance(e, TypeError) else -8)
        finally:
            f.__globals__["implementation"] = impl
        if outcome[0] == "A":
            impl_ok = True
            if outcome[1] is None:
                outcome = ("R", -99)
            elif has_if:
                kw2 = dict(actual)
                kw2["_if"] = False
                before = state_of(inst)
                try:
                    r = f(inst, *posv, **kw2)
                    impl_ok = (r is inst) and state_of(inst) == before
                except BaseException as e:
                    if isinstance(e, (KeyboardInterrupt, SystemExit)):
                        raise
                    impl_ok = False
            if outcome[0] == "A":
                out.append((posv, kwv, "A", outcome[1], impl_ok))
                continue
        # rejected: the same call on the real method must leave the receiver alone
        before = state_of(inst)
        try:
            f(inst, *posv, **actual)
            same = False  # the real method accepted what the spied one refused
        except BaseException as e:
            if isinstance(e, (KeyboardInterrupt, SystemExit)):
                raise
            same = state_of(inst) == before
        out.append((posv, kwv, "R", outcome[1], same))
    return out


def c_call(posv, kwv):
    return f"(C {clist([SELF] + posv, cz)} {clist(kwv, lambda p: f'({cs(p[0])}, {cz(p[1])})')})"


def c_outcome(o):
    posv, kwv, tag, x, flag = o
    if tag == "A":
        return f"A {c_call(posv, kwv)} {clist(x, lambda p: f'({cs(p[0])}, {cz(p[1])})')} {cbool(flag)}"
    return f"R {c_call(posv, kwv)} {cz(x)} {cbool(flag)}"


def make_instance(cls, cd):
    k = eff_key(cd)
    for kw in ([{k: "k"}, {k: 7}] if k else [{}]):  # the key may be declared str or int
        try:
            return cls(**kw)
        except BaseException as e:
            if isinstance(e, (KeyboardInterrupt, SystemExit)):
                raise
    return object.__new__(cls)


# ------------------------------------------------------------------ effects of accepted calls on the real methods
def typed_value(target_cd, k, n):
    """a well-typed value for keyword k of a constructor of target_cd (None: leave this keyword out)"""
    for a in all_attrs(target_cd):
        if a["name"] == k:
            if a.get("form", "none") == "noinit" and eff_overflow(target_cd):
                return n  # not init-enabled: covered by the ** catch-all only, lands in the overflow dictionary
            if a.get("form", "none") in ("property", "noinit"):
                return None
            return n if a["ty"] == "int" else (f"s{n}" if a["ty"] == "str" else None)
    return n  # not an attribute: a keyword for the ** catch-all


def enc_obs(v):
    from spec_classes.types import MISSING
    if v is None or v is MISSING:
        return None
    if isinstance(v, bool):
        return -1
    if isinstance(v, int):
        return v
    if isinstance(v, str) and v[:1] == "s" and v[1:].isdigit():
        return int(v[1:])
    return -1


def keyword_sets(target_cd, adv_names, catch_all, must):
    """keyword subsets to try on the real method: every single keyword, pairs, and -- when a
    ** catch-all is advertised -- keywords it alone covers, alone and mixed with named ones;
    consecutive sets differ, so state kept between calls (caches) is exercised"""
    named = [k for k in adv_names if typed_value(target_cd, k, 1) is not None and k not in must]
    extra = (["zzz", "yyy"] + [a["name"] for a in all_attrs(target_cd) if a.get("form") == "noinit"][:2]) if catch_all else []
    sets = [[k] for k in named[:6]]
    sets += [[e] for e in extra]
    pool = named[:4] + extra
    sets += [[a, b] for i, a in enumerate(pool) for b in pool[i + 1:]][:8]
    if not sets or must:
        sets = [[]] + sets
    return [must + s_ for s_ in sets]


def effects_for(env, by_name, cd, cls, mname, pat, kind, adv):
    """[(ncls of the object the keywords are for, [(keyword, value, in __dict__, in overflow dict)])]"""
    virt = [p for p in adv if p[0] != "self"]
    target_cd, mode = None, None
    if mname == "__init__":
        target_cd, mode = cd, "init"
    elif mname == "update" and not isinstance(pat, tuple):
        target_cd, mode = cd, "top"
    else:
        attr = pat[1] if isinstance(pat, tuple) else mname.split("_", 1)[1] if "_" in mname else None
        a = next((x for x in cd["attrs"] if x["name"] == attr), None)
        if a is None:
            return []
        base, _, ref = a["ty"].partition(":")
        if not isinstance(pat, tuple) and base == "nested" and mname.startswith(("with_", "update_", "transform_")):
            target_cd, mode = by_name[ref], "attr"
        elif isinstance(pat, tuple) and pat[0] == "with" and base in ("list_nested", "dict_nested", "klist"):
            target_cd, mode = by_name[ref], base
    if target_cd is None:
        return []
    tn = ncls_of(target_cd)
    explicit = {"self", "_new_value", "_inplace", "_if", "_item", "_index", "_insert", "_key", "_value"}
    adv_kw = [p[0] for p in virt if p[0] not in explicit and p[1] != "VarKw"]
    if mode == "init" and eff_key(cd) and eff_key(cd) not in adv_kw:
        adv_kw = [eff_key(cd)] + adv_kw
    catch_all = any(p[1] == "VarKw" for p in virt)
    tkey = eff_key(target_cd)
    must = [tkey] if tkey and not any(x["name"] == tkey and x.get("form", "none") != "none" for x in all_attrs(target_cd)) else []
    out = []
    counter = [2000]
    is_transform = mname.startswith("transform_")
    attr_names = {a["name"] for a in all_attrs(target_cd)}
    sets = keyword_sets(target_cd, adv_kw, catch_all and not is_transform and mode != "top", [] if mode == "top" else must)
    plans = [(ks, False) for ks in sets]
    if mode in ("list_nested", "dict_nested", "klist") or (mode == "attr" and mname.startswith(("with_", "update_"))):
        # the value itself given as a dictionary of constructor arguments, keywords on top of it
        plans += [(ks, True) for ks in sets[:5]]
    if mode == "top":
        # update(<replacement instance>, attr=...): the keywords apply to the replacement
        plans += [(ks, True) for ks in sets[:5]]
    for seq, (ks, alt) in enumerate(plans):
        kw = {}
        for k in ks:
            counter[0] += 1
            kw[k] = typed_value(target_cd, k, counter[0])
        if is_transform:
            kw = {k: v for k, v in kw.items() if k in attr_names}
            if not kw:
                continue
        # nested attribute helpers: value not set yet (constructor path) / already set, copy / already set, in place
        path = 0 if mode != "attr" else (1 + seq % 2 if is_transform else seq % 3)
        if alt and mode != "top":
            path = 0
        if mode == "top":
            path = 1  # an existing object is updated: only named attributes are judged
        dict_value = {}
        if alt and mode != "top":
            spare = [x[0] for x in tn[0] if x[1] and x[0] not in kw and x[0] != tkey and x[0] != tn[1]
                     and not x[0].startswith("_") and typed_value(target_cd, x[0], 1) is not None][:1]
            for k in spare:
                counter[0] += 1
                dict_value[k] = typed_value(target_cd, k, counter[0])
        if path:
            # an existing nested value is updated, not constructed: only keywords naming init-enabled
            # attributes are judged (what a **overflow keyword means for an existing object is not documented)
            named_ok = {a["name"] for a in all_attrs(target_cd) if a.get("form", "none") != "noinit"}
            kw = {k: v for k, v in kw.items() if k in named_ok}
            if not kw:
                path = 0
                kw = {k: typed_value(target_cd, k, 3000 + i) for i, k in enumerate(ks)}
        try:
            if mode == "init":
                target = cls(**kw)
            elif mode == "top":
                recv = make_instance(cls, cd)
                call_kw = dict(kw)
                if not alt and seq % 2 and not cd.get("frozen"):
                    call_kw["_inplace"] = True
                target = recv.update(make_instance(cls, cd), **call_kw) if alt else recv.update(**call_kw)
                if alt and target is recv:
                    raise AssertionError("update(<replacement>) returned the receiver")
            else:
                recv = make_instance(cls, cd)
                if mode == "attr":
                    aname = mname.split("_", 1)[1]
                    call_kw = dict(kw)
                    if path:
                        tcls = env[target_cd["name"]]
                        k0 = typed_value(target_cd, tkey, 7) if tkey else None  # the key may be declared int
                        recv = getattr(recv, "with_" + aname)(tcls(**({tkey: "k0" if k0 is None else k0} if tkey else {})))
                        if path == 2 and not cd.get("frozen"):
                            call_kw["_inplace"] = True
                    if is_transform:
                        call_kw = {k: ((lambda old, v=v: v) if k in kw else v) for k, v in call_kw.items()}
                    target = getattr(getattr(recv, mname)(*([dict(dict_value)] if alt else []), **call_kw), aname)
                elif mode == "dict_nested":
                    coll = getattr(getattr(recv, mname)("key", *([dict(dict_value)] if alt else []), **kw), pat[1])
                    target = coll["key"]
                else:
                    coll = getattr(getattr(recv, mname)(*([dict(dict_value)] if alt else []), **kw), pat[1])
                    target = list(coll)[-1]
            d = object.__getattribute__(target, "__dict__")
            ov = d.get(tn[1]) if tn[1] else None
            obs = [(k, enc_obs(v), enc_obs(d.get(k)), enc_obs(ov.get(k)) if isinstance(ov, dict) else None)
                   for k, v in list(kw.items()) + list(dict_value.items())]
        except BaseException as e:
            if isinstance(e, (KeyboardInterrupt, SystemExit)):
                raise
            # the real method refused / broke on keywords its signature advertises
            obs = [(k, enc_obs(v), None, None) for k, v in kw.items()] or [("<call>", 0, None, None)]
        out.append((tn, obs))
    return out


# ------------------------------------------------------------------ pairs of advertised parameters on the real methods
DELTA = 100000


def shift(v):
    """what the attribute transformers used below make of a value"""
    if isinstance(v, int) and not isinstance(v, bool):
        return v + DELTA
    if isinstance(v, str) and v[:1] == "s" and v[1:].isdigit():
        return f"s{int(v[1:]) + DELTA}"
    return v


def judged_attrs(target_cd):
    """attributes whose value tells what happened to an object: init-enabled int/str attributes that are neither
    the key, the overflow attribute, private nor masked by a property"""
    return [a["name"] for a in all_attrs(target_cd)
            if a["ty"] in ("int", "str") and a.get("form", "none") in ("none", "value") and not a["name"].startswith("_")
            and a["name"] not in (eff_key(target_cd), eff_overflow(target_cd), "kwargs")]


def pair_effects(env, by_name, cd, cls, mname, pat, kind, adv):
    """The value-carrying positional parameter of a helper (`_transform`, `_new_value`, `_new_item`) handed over TOGETHER
    with nested-attribute keywords, on the real method, for: the top-level `transform`; `with_/update_/transform_<attr>`
    of a nested spec attribute; `update_/transform_<item>` of List/Dict/KeyedList/KeyedSet of spec elements (on an
    element that exists).  Documented order (mutate_value): the new value / the result of `_transform` first, then the
    keywords on top of it.  Every plan is run alone (positional only; keywords only) and as pair / triple.  Transformers
    are not constant (`old -> old + DELTA`), so the expected attribute value also says WHICH object they were applied to.
    Result: effect entries `(ncls, [(keyword, expected, in __dict__, None)], label)`; attributes not named by a keyword
    are listed with the value they must keep (that of the positional value's object, or the old one)."""
    adv_names = [p[0] for p in adv]
    target_cd, mode, op, attr = None, None, None, None
    if mname == "transform" and not isinstance(pat, tuple):
        target_cd, mode, op = cd, "top", "transform"
    elif isinstance(pat, tuple):
        attr = pat[1]
        a = next((x for x in cd["attrs"] if x["name"] == attr), None)
        if a is not None and pat[0] in ("with", "update", "transform"):
            base, _, ref = a["ty"].partition(":")
            if base in ("list_nested", "dict_nested", "klist", "kset"):
                target_cd, mode, op = by_name[ref], base, pat[0]
    elif "_" in mname and mname.split("_", 1)[0] in ("with", "update", "transform"):
        attr = mname.split("_", 1)[1]
        a = next((x for x in cd["attrs"] if x["name"] == attr), None)
        if a is not None and a["ty"].startswith("nested:"):
            target_cd, mode, op = by_name[a["ty"].partition(":")[2]], "attr", mname.split("_", 1)[0]
    if target_cd is None or cd.get("frozen") and mode != "top":
        return []
    tn = ncls_of(target_cd)
    tcls = env[target_cd["name"]]
    tkey = eff_key(target_cd)
    judged = [k for k in judged_attrs(target_cd) if k in adv_names]
    if not judged:
        return []
    if tkey and mode in ("klist", "kset") and next(x["ty"] for x in all_attrs(target_cd) if x["name"] == tkey) != "str":
        return []
    counter = [5000]

    def values():
        out = {}
        for k in judged:
            counter[0] += 1
            out[k] = typed_value(target_cd, k, counter[0])
        return out

    def build(vals, keyval):
        return tcls(**vals, **({tkey: keyval} if tkey else {}))

    def keyval(i):
        if not tkey:
            return None
        ty = next(x["ty"] for x in all_attrs(target_cd) if x["name"] == tkey)
        return f"s{900 + i}" if ty == "str" else 900 + i

    # plans: (positional value given?, keywords)
    plans = [(True, [])]
    for k in judged[:3]:
        plans += [(False, [k]), (True, [k])]
    for i, k1 in enumerate(judged[:3]):
        for k2 in judged[i + 1:3]:
            plans += [(True, [k1, k2]), (False, [k1, k2])]
    out = []
    for seq, (positional, ks) in enumerate(plans):
        if op == "with" and not positional:
            continue  # with_<attr>(**kw) / with_<item>(**kw) alone: constructor path, covered by effects_for
        init, given = values(), values()
        inplace = seq % 3 == 2 and not cd.get("frozen") and not target_cd.get("frozen")
        ctl = {"_inplace": True} if inplace else {}
        calls, expected = [], {}
        label = f"{mname}({'<positional>, ' if positional else ''}{', '.join(ks)}{', _inplace=True' if inplace else ''})"
        try:
            if op == "transform":
                def T(old, given=given):
                    calls.append("T")
                    return build(given, getattr(old, tkey) if tkey else None)
                kw = {k: (lambda old, k=k: (calls.append(k), shift(old))[1]) for k in ks}
                src = given if positional else init
                expected = {k: (shift(src[k]) if k in ks else src[k]) for k in judged}
                pos = [T] if positional else []
            else:
                kw = {}
                for k in ks:
                    counter[0] += 1
                    kw[k] = typed_value(target_cd, k, counter[0])
                src = given if positional else init
                expected = {k: (kw[k] if k in ks else src[k]) for k in judged}
                pos = None  # built below (needs the element's key)
            if mode == "top":
                recv = build(init, keyval(0))
                target = recv.transform(*pos, **kw, **ctl)
            elif mode == "attr":
                recv = getattr(make_instance(cls, cd), "with_" + attr)(build(init, keyval(0)))
                if pos is None:
                    pos = [build(given, keyval(1))] if positional else []
                target = getattr(getattr(recv, mname)(*pos, **kw, **ctl), attr)
            else:
                e0, e1 = build(values(), keyval(0)), build(init, keyval(1))
                coll = {"ka": e0, "kb": e1} if mode == "dict_nested" else [e0, e1]
                recv = getattr(make_instance(cls, cd), "with_" + attr)(coll)
                if pos is None:
                    pos = [build(given, keyval(2 if op == "with" else 1))] if positional else []
                if op == "with":
                    # a new element handed over as an instance, keywords on top of it
                    res = getattr(getattr(recv, mname)(*(["kc"] if mode == "dict_nested" else []), *pos, **kw, **ctl), attr)
                    if mode == "dict_nested":
                        target = res["kc"]
                    elif tkey:
                        target = next(x for x in res if getattr(x, tkey) == keyval(2))
                    else:
                        target = list(res)[-1]
                else:
                    if mode == "dict_nested":
                        sel = "kb"
                    elif mode == "kset" or (mode == "klist" and seq % 2 == 0):
                        sel = keyval(1)
                    else:
                        sel = 1
                        if mode == "klist" or seq % 2:
                            ctl["_by_index"] = True
                    res = getattr(getattr(recv, mname)(sel, *pos, **kw, **ctl), attr)
                    if mode == "dict_nested":
                        target = res["kb"]
                    elif mode == "kset":
                        target = next(x for x in res if getattr(x, tkey) == keyval(1))
                    else:
                        target = list(res)[1]
            d = object.__getattribute__(target, "__dict__")
            obs = [(k, enc_obs(v), enc_obs(d.get(k)), None) for k, v in expected.items()]
            if op == "transform" and sorted(calls) != sorted((["T"] if positional else []) + ks):
                # each supplied function is applied exactly once
                label += f" functions applied: {calls}"
                if all(o[1] == o[2] for o in obs):
                    obs.append(("_transform", 1, None, None))
        except BaseException as e:
            if isinstance(e, (KeyboardInterrupt, SystemExit)):
                raise
            obs = [(k, enc_obs(expected[k]) if k in expected else 0, None, None) for k in (ks or judged[:1])]
            label += f" raised {type(e).__name__}: {str(e)[:120]}"
        out.append((tn, obs, label))
    return out


# ------------------------------------------------------------------ falsy values of advertised keywords on the real methods
FALSY = {"int": [0], "bool": [False], "float": [0.0], "str": [""], "opt": [None, 0], "list": [[]], "dict": [{}],
         "set": [set()], "list_nested": [[]], "dict_nested": [{}]}


def enc_fobs(v):
    """observation code that keeps type AND value of the falsy values apart (0 / False / 0.0 are equal in Python);
    None = nothing there"""
    from spec_classes.types import MISSING
    if v is MISSING:
        return None
    if v is None:
        return -13
    if isinstance(v, bool):
        return -22 if v else -21
    if isinstance(v, int):
        return v
    if isinstance(v, float):
        return -23 if v == 0 else -24
    if isinstance(v, str):
        if v == "":
            return -25
        return int(v[1:]) if v[:1] == "s" and v[1:].isdigit() else -26
    for T, code in ((list, -27), (dict, -29), (set, -31)):
        if type(v) is T:
            return code if not v else code - 1
    return -1


def falsy_keywords(target_cd, names=None):
    """[(keyword, falsy conforming value)] for the init-enabled plain attributes of a class (not its key, its overflow
    attribute, private, masked or named `kwargs`); `opt` attributes get None and 0"""
    out = []
    for a in all_attrs(target_cd):
        n = a["name"]
        if n.startswith("_") or n in (eff_key(target_cd), eff_overflow(target_cd), "kwargs"):
            continue
        if a.get("form", "none") not in ("none", "value", "factory") or (names is not None and n not in names):
            continue
        out += [(n, f) for f in FALSY.get(a["ty"].partition(":")[0], [])]
    return out


def falsy_effects(env, by_name, cd, cls, mname, pat, kind, adv):
    """FALSY but conforming values (0, False, 0.0, "", None for Optional, [], {}, set()) for every advertised keyword, on
    the REAL methods, in every call form -- in particular the forms in which the nested value / element has to be
    CONSTRUCTED from the keywords (`with_<attr>(kw)`, `update_<attr>(kw)` on an unset attribute, `with_<item>(kw)` on
    an unset / a filled collection, `with_<item>(_index=i, kw)` replacing / inserting, `with_<item>(key, kw)`), the dict
    and instance forms, updates and attribute transforms of existing values, the constructor, the top-level
    update / transform, and the value parameter of the helpers of plain attributes and plain collections
    (`with_<attr>(0)`, `with_<item>("k", 0)`).  The attribute defaults of the descriptions are truthy or absent, so a
    value that is dropped on the way (`if value:` for `if value is not MISSING`) shows as default / nothing.  Same
    oracle as the other effect calls (`SigCorr.effect_ok` / `SigSpec.lands`), observation codes `enc_fobs`."""
    from spec_classes.types import MISSING
    adv_names = [p[0] for p in adv]
    catch_all = any(p[1] == "VarKw" for p in adv)
    target_cd, mode, op, attr, a = None, None, None, None, None
    if mname == "__init__":
        target_cd, mode, op = cd, "init", "init"
    elif mname in ("update", "transform") and not isinstance(pat, tuple):
        target_cd, mode, op = cd, "top", mname
    else:
        if isinstance(pat, tuple):
            attr, op = pat[1], pat[0]
        elif "_" in mname:
            op, attr = mname.split("_", 1)
        a = next((x for x in cd["attrs"] if x["name"] == attr), None)
        if a is None or op not in ("with", "update", "transform") or attr.startswith("_"):
            return []
        base, _, ref = a["ty"].partition(":")
        if isinstance(pat, tuple):
            if base in ("list_nested", "dict_nested", "klist", "kset"):
                target_cd, mode = by_name[ref], base
            elif base in ("list", "dict", "set"):
                target_cd, mode = cd, "elem_" + base
        elif base == "nested":
            target_cd, mode = by_name[ref], "attr"
        elif base in FALSY:
            target_cd, mode = cd, "scalar"
    if target_cd is None:
        return []
    tn = ncls_of(target_cd)
    tcls = env[target_cd["name"]]
    tkey = eff_key(target_cd)
    tkey_ty = next((x["ty"] for x in all_attrs(target_cd) if x["name"] == tkey), None) if tkey else None
    if tkey and tkey_ty not in ("str", "int"):
        return []
    if mode in ("klist", "kset") and tkey_ty != "str":
        return []
    out = []

    def keyval(i):
        return f"s{900 + i}" if tkey_ty == "str" else 900 + i

    def keykw(i):
        return {tkey: keyval(i)} if tkey else {}

    def observe(label, kw, target, expect=None):
        d = object.__getattribute__(target, "__dict__")
        ov = d.get(tn[1]) if tn[1] else None
        out.append((tn, [(k, enc_fobs(v), enc_fobs(d.get(k, MISSING)),
                          enc_fobs(ov.get(k, MISSING)) if isinstance(ov, dict) else None) for k, v in kw.items()], label))

    def attempt(label, kw, fn):
        """fn() -> the object the keywords are for"""
        try:
            observe(label, kw, fn())
        except BaseException as e:
            if isinstance(e, (KeyboardInterrupt, SystemExit)):
                raise
            out.append((tn, [(k, enc_fobs(v), None, None) for k, v in kw.items()] or [("<call>", 0, None, None)],
                        label + f" raised {type(e).__name__}: {str(e)[:120]}"))

    def show(kw):
        return ", ".join(f"{k}={v!r}" for k, v in kw.items())

    def funcs(kw):
        return {k: (lambda old, v=v: copy.copy(v)) for k, v in kw.items()}

    # ---- the value parameter of plain attribute / plain collection helpers
    if mode == "scalar":
        if a.get("form", "none") not in ("none", "value", "factory") or attr in (eff_key(cd), eff_overflow(cd), "kwargs"):
            return []
        for f in FALSY[a["ty"].partition(":")[0]]:
            kw = {attr: f}
            recv = make_instance(cls, cd)
            if op == "with":
                attempt(f"{mname}({f!r})", kw, lambda: getattr(recv, mname)(copy.copy(f)))
                attempt(f"{mname}(_new_value={f!r})", kw, lambda: getattr(recv, mname)(_new_value=copy.copy(f)))
            elif op == "update":
                attempt(f"{mname}({f!r})", kw, lambda: getattr(recv, mname)(copy.copy(f)))
                if not cd.get("frozen"):
                    attempt(f"{mname}(_new_value={f!r}, _inplace=True)", kw,
                            lambda: getattr(recv, mname)(_new_value=copy.copy(f), _inplace=True))
            elif a.get("form", "none") == "value":
                attempt(f"{mname}(lambda old: {f!r})", kw, lambda: getattr(recv, mname)(lambda old: copy.copy(f)))
                attempt(f"{mname}(_transform=lambda old: {f!r})", kw,
                        lambda: getattr(recv, mname)(_transform=lambda old: copy.copy(f)))
        return out
    if mode.startswith("elem_"):
        if a.get("form", "none") not in ("none", "value", "factory") or attr in (eff_overflow(cd), "kwargs"):
            return []
        recv0 = make_instance(cls, cd)
        m = lambda r: getattr(r, mname)

        def elem(label, fn, pick):
            # the attribute's name stands for the element: (attribute, value given, element found at the place, -)
            try:
                got = pick(getattr(fn(), attr))
                out.append((tn, [(attr, enc_fobs(0), enc_fobs(got), None)], label))
            except BaseException as e:
                if isinstance(e, (KeyboardInterrupt, SystemExit)):
                    raise
                out.append((tn, [(attr, enc_fobs(0), None, None)], label + f" raised {type(e).__name__}: {str(e)[:120]}"))
        if mode == "elem_list":
            full = getattr(recv0, "with_" + attr)([5, 6])
            if op == "with":
                elem(f"{mname}(0) on an unset attribute", lambda: m(recv0)(0), lambda c: c[-1])
                elem(f"{mname}(0)", lambda: m(full)(0), lambda c: c[-1] if len(c) == 3 else MISSING)
                elem(f"{mname}(_item=0, _index=0)", lambda: m(full)(_item=0, _index=0), lambda c: c[0])
                elem(f"{mname}(0, _index=0, _insert=True)", lambda: m(full)(0, _index=0, _insert=True), lambda c: c[0])
            elif op == "update":
                elem(f"{mname}(1, 0, _by_index=True)", lambda: m(full)(1, 0, _by_index=True), lambda c: c[1])
                elem(f"{mname}(5, _new_item=0)", lambda: m(full)(5, _new_item=0), lambda c: c[0])
            else:
                elem(f"{mname}(1, lambda old: 0, _by_index=True)", lambda: m(full)(1, lambda old: 0, _by_index=True), lambda c: c[1])
        elif mode == "elem_dict":
            full = getattr(recv0, "with_" + attr)({"ka": 5, "kb": 6})
            if op == "with":
                elem(f"{mname}('k', 0) on an unset attribute", lambda: m(recv0)("k", 0), lambda c: c["k"])
                elem(f"{mname}('kc', 0)", lambda: m(full)("kc", 0), lambda c: c["kc"])
                elem(f"{mname}('ka', 0)", lambda: m(full)("ka", 0), lambda c: c["ka"])
                elem(f"{mname}(_key='kc', _value=0)", lambda: m(full)(_key="kc", _value=0), lambda c: c["kc"])
                elem(f"{mname}('', 0): falsy key", lambda: m(full)("", 0), lambda c: c[""])
            elif op == "update":
                elem(f"{mname}('kb', 0)", lambda: m(full)("kb", 0), lambda c: c["kb"])
            else:
                elem(f"{mname}('kb', lambda old: 0)", lambda: m(full)("kb", lambda old: 0), lambda c: c["kb"])
        else:
            full = getattr(recv0, "with_" + attr)({5, 6})
            has0 = lambda c: 0 if any(x == 0 and type(x) is int for x in c) else MISSING
            if op == "with":
                elem(f"{mname}(0) on an unset attribute", lambda: m(recv0)(0), has0)
                elem(f"{mname}(0)", lambda: m(full)(0), lambda c: has0(c) if len(c) == 3 else MISSING)
            elif op == "update":
                elem(f"{mname}(5, 0)", lambda: m(full)(5, 0), lambda c: has0(c) if 5 not in c else MISSING)
            else:
                elem(f"{mname}(5, lambda old: 0)", lambda: m(full)(5, lambda old: 0), lambda c: has0(c) if 5 not in c else MISSING)
        return out

    # ---- keywords naming attributes of the target class
    fk = [(k, f) for k, f in falsy_keywords(target_cd) if k in adv_names or catch_all]
    if not fk:
        return []
    truthy = [(k, typed_value(target_cd, k, 7000 + i)) for i, k in enumerate(judged_attrs(target_cd)) if k in adv_names]
    sets = [{k: f} for k, f in fk[:12]]
    for i, (k, f) in enumerate(fk[:3]):
        other = next(((k2, v2) for k2, v2 in truthy if k2 != k), None)
        if other:
            sets.append({k: f, other[0]: other[1]} if i % 2 else {other[0]: other[1], k: f})  # either order
        nxt = next(((k2, f2) for k2, f2 in fk[i + 1:] if k2 != k), None)
        if nxt:
            sets.append({k: f, nxt[0]: nxt[1]})
    # keywords only the ** catch-all covers (constructing forms only: the value lands in the overflow dictionary)
    over = []
    if catch_all and tn[1]:
        hidden = [x["name"] for x in all_attrs(target_cd) if x.get("form") == "noinit"][:1]
        over = [{"zzz": 0}, {"yyy": False, "zzz": ""}] + [{h: 0} for h in hidden] + ([dict(sets[0], zzz=None)] if sets else [])
    fresh = lambda kw: {k: copy.copy(v) for k, v in kw.items()}
    frozen_holder = bool(cd.get("frozen"))

    if mode == "init":
        for kw in sets + over:
            attempt(f"{cd['name']}({show(kw)})", kw, lambda: cls(**keykw(0), **fresh(kw)))
        return out
    if mode == "top":
        for i, kw in enumerate(sets):
            recv = make_instance(cls, cd)
            if op == "update":
                attempt(f"update({show(kw)})", kw, lambda: recv.update(**fresh(kw)))
                if i % 2 == 0 and not frozen_holder:
                    attempt(f"update({show(kw)}, _inplace=True)", kw, lambda: recv.update(**fresh(kw), _inplace=True))
                if i % 2 == 1:
                    attempt(f"update(<replacement>, {show(kw)})", kw, lambda: recv.update(make_instance(cls, cd), **fresh(kw)))
            else:
                attempt(f"transform({show(kw)} as functions)", kw, lambda: recv.transform(**funcs(kw)))
                if i % 2 == 0:
                    attempt(f"transform(lambda o: o, {show(kw)} as functions)", kw, lambda: recv.transform(lambda o: o, **funcs(kw)))
        return out

    def holder():
        return make_instance(cls, cd)

    if mode == "attr":
        def filled():
            return getattr(holder(), "with_" + attr)(tcls(**keykw(0)))
        G = lambda r: getattr(r, attr)
        for i, kw in enumerate(sets + over):
            named = i < len(sets)
            if op in ("with", "update"):
                # the nested value has to be constructed
                attempt(f"{mname}({show(kw)}) on an unset attribute", {**keykw(1), **kw},
                        lambda: G(getattr(holder(), mname)(**keykw(1), **fresh(kw))))
                if op == "with" and i % 2 == 0:
                    attempt(f"{mname}({show(kw)}) on a set attribute", {**keykw(1), **kw},
                            lambda: G(getattr(filled(), mname)(**keykw(1), **fresh(kw))))
                if i % 3 == 0:
                    attempt(f"{mname}({{}}, {show(kw)}): dict form", {**keykw(1), **kw},
                            lambda: G(getattr(holder(), mname)({}, **keykw(1), **fresh(kw))))
                if named and i % 3 == 1:
                    attempt(f"{mname}(<instance>, {show(kw)})", kw,
                            lambda: G(getattr(holder(), mname)(tcls(**keykw(2)), **fresh(kw))))
                if named and op == "update":
                    inpl = i % 2 == 1 and not frozen_holder
                    attempt(f"{mname}({show(kw)}{', _inplace=True' if inpl else ''}) on a set attribute", kw,
                            lambda: G(getattr(filled(), mname)(**fresh(kw), **({"_inplace": True} if inpl else {}))))
            elif named:
                inpl = i % 2 == 1 and not frozen_holder
                attempt(f"{mname}({show(kw)} as functions{', _inplace=True' if inpl else ''})", kw,
                        lambda: G(getattr(filled(), mname)(**funcs(kw), **({"_inplace": True} if inpl else {}))))
                if i % 3 == 0:
                    attempt(f"{mname}(lambda o: o, {show(kw)} as functions)", kw,
                            lambda: G(getattr(filled(), mname)(lambda o: o, **funcs(kw))))
        return out

    # ---- elements of List / Dict / KeyedList / KeyedSet of spec instances
    is_map = mode == "dict_nested"

    def filled():
        e0, e1 = tcls(**keykw(0)), tcls(**keykw(1))
        return getattr(holder(), "with_" + attr)({"ka": e0, "kb": e1} if is_map else [e0, e1])

    def coll(r):
        return getattr(r, attr)

    def by_key(c, i):
        return next(x for x in c if getattr(x, tkey) == keyval(i))

    keyed_coll = mode in ("klist", "kset")
    for i, kw in enumerate(sets + over):
        named = i < len(sets)
        if op == "with":
            full = {**keykw(5), **kw}
            pick_new = (lambda c: c["kc"]) if is_map else (lambda c: by_key(c, 5)) if keyed_coll else (lambda c: list(c)[-1])
            K = ["kc"] if is_map else []
            attempt(f"{mname}({show(kw)}) on an unset attribute", full,
                    lambda: pick_new(coll(getattr(holder(), mname)(*K, **keykw(5), **fresh(kw)))))
            attempt(f"{mname}({show(kw)}) on a filled collection", full,
                    lambda: pick_new(coll(getattr(filled(), mname)(*K, **keykw(5), **fresh(kw)))))
            if i % 3 == 0:
                attempt(f"{mname}({{}}, {show(kw)}): dict form", full,
                        lambda: pick_new(coll(getattr(filled(), mname)(*K, {}, **keykw(5), **fresh(kw)))))
            if named and i % 3 == 1:
                attempt(f"{mname}(<instance>, {show(kw)})", kw,
                        lambda: pick_new(coll(getattr(filled(), mname)(*K, tcls(**keykw(5)), **fresh(kw)))))
            if is_map and i % 2 == 0:
                attempt(f"{mname}('ka', {show(kw)}): key present", full,
                        lambda: coll(getattr(filled(), mname)("ka", **keykw(5), **fresh(kw)))["ka"])
            if mode in ("list_nested", "klist") and "_index" in adv_names:
                pick0 = (lambda c: by_key(c, 5)) if keyed_coll else (lambda c: list(c)[0])
                attempt(f"{mname}(_index=0, {show(kw)}): replacement built from the keywords", full,
                        lambda: pick0(coll(getattr(filled(), mname)(_index=0, **keykw(5), **fresh(kw)))))
                if i % 2 == 0 and "_insert" in adv_names:
                    attempt(f"{mname}(_index=0, _insert=True, {show(kw)})", full,
                            lambda: pick0(coll(getattr(filled(), mname)(_index=0, _insert=True, **keykw(5), **fresh(kw)))))
        elif named:
            if is_map:
                sel, ctl, pick = "kb", {}, (lambda c: c["kb"])
            elif keyed_coll and (mode == "kset" or i % 2 == 0):
                sel, ctl, pick = keyval(1), {}, (lambda c: by_key(c, 1))
            else:
                sel, ctl, pick = 1, {"_by_index": True}, (lambda c: list(c)[1])
            if op == "update":
                attempt(f"{mname}({sel!r}, {show(kw)})", kw, lambda: pick(coll(getattr(filled(), mname)(sel, **fresh(kw), **ctl))))
                if i % 3 == 1:
                    attempt(f"{mname}({sel!r}, <instance>, {show(kw)})", kw,
                            lambda: pick(coll(getattr(filled(), mname)(sel, tcls(**keykw(1)), **fresh(kw), **ctl))))
            else:
                attempt(f"{mname}({sel!r}, {show(kw)} as functions)", kw,
                        lambda: pick(coll(getattr(filled(), mname)(sel, **funcs(kw), **ctl))))
    return out


def c_effect(e):
    tn, obs = e[0], e[1]
    n = c_ncls(tn)[len("(Some "):-1]
    return "(%s, %s)" % (n, clist(obs, lambda o: f"({cs(o[0])}, {cz(o[1])}, {copt(o[2], cz)}, {copt(o[3], cz)})"))


def cases_for(desc, only=None):
    """one case per generated method of every class of the description"""
    prepare(desc)
    env = build_classes(desc)
    by_name = {c["name"]: c for c in desc}
    out = []
    all_attr_names = sorted({a["name"] for c in desc for a in c["attrs"]})
    focus = bool(desc and desc[0].get("focus")) and not only
    respelled = {c["name"]: {a["name"] for a in c["attrs"] if a.get("spell", "typing") != "typing"} for c in desc}
    abstract = {c["name"]: {a["name"] for a in c["attrs"] if a.get("spell") in ("abc", "tabc")} for c in desc}
    for cd in desc:
        cls = env[cd["name"]]
        inst = make_instance(cls, cd)
        meta = cls.__spec_class__
        for pat, kind, nested in methods_of(desc, cd):
            if isinstance(pat, tuple):
                mname = f"{pat[0]}_{meta.attrs[pat[1]].item_name}"
            else:
                mname = pat
            if only and (cd["name"], mname) != tuple(only):
                continue
            if focus:
                # a re-spelled copy of a fixed hierarchy: only the methods of the re-spelled container attributes
                an = pat[1] if isinstance(pat, tuple) else (pat.split("_", 1)[1] if "_" in pat.strip("_") else None)
                if an not in respelled.get(cd["name"], ()):
                    continue
            f, adv, real, impl_ps = observe_method(cls, inst, mname)
            extra = [n for n in all_attr_names if n not in [p[0] for p in adv]][:4]
            if nested:
                extra += [a[0] for a in nested[0] if not a[1]] + ([nested[1]] if nested[1] else [])
            calls = gen_calls(adv, extra, light=bool(desc and desc[0].get("light")))
            obs = run_calls(f, inst, adv, calls)
            an_ = pat[1] if isinstance(pat, tuple) else (pat.split("_", 1)[1] if "_" in pat.strip("_") else None)
            if an_ in abstract.get(cd["name"], ()):
                # an attribute annotated with an ABSTRACT container type cannot be built by the library when it is unset
                # (`MutableMapping()` raises TypeError -- not a matter of C17): signature and acceptance (spy) only
                effects = []
            else:
                effects = effects_for(env, by_name, cd, cls, mname, pat, kind, adv)
                effects += pair_effects(env, by_name, cd, cls, mname, pat, kind, adv)
                effects += falsy_effects(env, by_name, cd, cls, mname, pat, kind, adv)
            out.append({"cls": cd["name"], "method": mname, "kind": kind, "nested": nested, "adv": adv,
                        "real": real, "impl": impl_ps, "obs": obs, "effects": effects})
    return out


def c_case(c, obs=None):
    return (f"mkmcase {c['kind']} {c_ncls(c['nested'])} {c_sig(c['adv'])} {c_sig(c['real'])} {c_sig(c['impl'])} "
            f"{clist(c['obs'] if obs is None else obs, c_outcome)} {clist(c.get('effects', []), c_effect)}")


# ------------------------------------------------------------------ control parameters of sequence element helpers
TRI = [None, False, True]
HELPER_TERM = {"with": "HWithItem", "update": "HUpdateItem", "transform": "HTransformItem", "without": "HWithoutItem"}
_CTL_CLASSES = {}


def ctl_classes():
    if not _CTL_CLASSES:
        from spec_classes import spec_class
        for nm, T in (("int", typing.List[int]), ("str", typing.List[str])):
            cls = type("Box" + nm, (), {"__annotations__": {"vals": T}})
            _CTL_CLASSES[nm] = spec_class(bootstrap=True)(cls)
    return _CTL_CLASSES


def cval_obj(v):
    return v[1] if v[0] == "i" else f"s{v[1]}"


def cval_enc(o):
    if isinstance(o, int) and not isinstance(o, bool):
        return ("i", o)
    if isinstance(o, str) and o[:1] == "s" and o[1:].lstrip("-").isdigit():
        return ("s", int(o[1:]))
    return ("i", -999)


def c_cval(v):
    return f"({'CI' if v[0] == 'i' else 'CS'} {cz(v[1])})"


def ctl_generate():
    """(helper, elem type, value, by_index, inplace, if, insert, index) — every advertised control
    parameter not given / explicitly False / explicitly True, on List[int] (an int is an element and a
    position) and List[str] (it is only a position)"""
    out = []
    vals = {"int": [("i", 0), ("i", 1), ("i", 2), ("i", 5), ("i", -1), ("s", 0)],
            "str": [("s", 0), ("s", 7), ("i", 0), ("i", 1), ("i", 5), ("i", -1)]}
    for et in ("int", "str"):
        for h in ("without", "update", "transform"):
            for v in vals[et]:
                for bi in TRI:
                    for ip in TRI:
                        for cond in TRI:
                            out.append({"h": h, "et": et, "v": v, "by_index": bi, "inplace": ip, "if": cond,
                                        "insert": None, "index": "omitted"})
        for idx in ("omitted", "none", 0, 1, 5, -1, -5):
            for ins in TRI:
                for ip in TRI:
                    for cond in TRI:
                        out.append({"h": "with", "et": et, "v": ("i", 55) if et == "int" else ("s", 55), "by_index": None,
                                    "inplace": ip, "if": cond, "insert": ins, "index": idx})
    return out


def ctl_run(case):
    cls = ctl_classes()[case["et"]]
    init = [2, 0, 1] if case["et"] == "int" else ["s2", "s0", "s1"]
    recv = cls(vals=list(init))
    kw = {}
    for name, key in (("_by_index", "by_index"), ("_inplace", "inplace"), ("_if", "if"), ("_insert", "insert")):
        if case[key] is not None:
            kw[name] = case[key]
    if case["index"] != "omitted":
        kw["_index"] = None if case["index"] == "none" else case["index"]
    v = cval_obj(tuple(case["v"]))
    new = 77 if case["et"] == "int" else "s77"
    h = case["h"]
    try:
        if h == "without":
            r = recv.without_val(v, **kw)
        elif h == "update":
            r = recv.update_val(v, new, **kw)
        elif h == "transform":
            r = recv.transform_val(v, (lambda x: x + 1000) if case["et"] == "int" else (lambda x: "s" + str(int(x[1:]) + 1000)), **kw)
        else:
            r = recv.with_val(v, **kw)
        oc, res, same = 0, list(r.vals), r is recv
    except BaseException as e:
        if isinstance(e, (KeyboardInterrupt, SystemExit)):
            raise
        oc = -1 if isinstance(e, TypeError) else -2 if isinstance(e, ValueError) else -3 if isinstance(e, IndexError) else -8
        res, same = [], False
    return {"outcome": oc, "result": [cval_enc(x) for x in res], "recv": [cval_enc(x) for x in recv.vals], "same": same,
            "error": None if oc == 0 else oc}


def c_ccase(case, o):
    tri = lambda b: copt(b, cbool)
    init = [("i", 2), ("i", 0), ("i", 1)] if case["et"] == "int" else [("s", 2), ("s", 0), ("s", 1)]
    idx = {"omitted": "IOmitted", "none": "INone"}.get(case["index"], None) or f"(IInt {cz(case['index'])})"
    new = ("i", 77) if case["et"] == "int" else ("s", 77)
    args = (f"(mkcargs {cbool(case['et'] == 'int')} {clist(init, c_cval)} {c_cval(tuple(case['v']))} {c_cval(new)} "
            f"{tri(case['by_index'])} {tri(case['inplace'])} {tri(case['if'])} {tri(case['insert'])} {idx})")
    return (f"mkccase {HELPER_TERM[case['h']]} {args} {cz(o['outcome'])} {clist(o['result'], c_cval)} "
            f"{clist(o['recv'], c_cval)} {cbool(o['same'])}")


def ctl_evaluate(cases, tag="ctl"):
    obs = [ctl_run(c) for c in cases]
    bad, logs = coq_eval("C17", PRELUDE + "From SC Require Import Deco.SeqCtl.\n", "check_ctl",
                         [c_ccase(c, o) for c, o in zip(cases, obs)], shard=120, tag=tag, case_type="ccase")
    return bad, logs, obs


# ------------------------------------------------------------------ generation
FIXED = [
    [{"name": "N", "attrs": [{"name": "p", "ty": "int", "form": "value", "default": 11},
                              {"name": "q", "ty": "int", "form": "value", "default": 12},
                              {"name": "r", "ty": "int", "form": "noinit", "default": 13},
                              {"name": "_h", "ty": "int", "form": "value", "default": 14}]},
     {"name": "K", "key": "k", "attrs": [{"name": "k", "ty": "str"}, {"name": "v", "ty": "int", "form": "value", "default": 15}]},
     {"name": "O", "overflow": "extra", "attrs": [{"name": "a", "ty": "int", "form": "value", "default": 16},
                                                     {"name": "hid", "ty": "int", "form": "noinit", "default": 40}]},
     {"name": "F", "frozen": True, "attrs": [{"name": "fa", "ty": "int", "form": "value", "default": 41},
                                              {"name": "fb", "ty": "int", "form": "value", "default": 42}]},
     {"name": "C", "attrs": [{"name": "x", "ty": "int", "form": "value", "default": 17},
                              {"name": "n", "ty": "nested:N"}, {"name": "o", "ty": "nested:O"}, {"name": "fr", "ty": "nested:F"},
                              {"name": "ns", "ty": "list_nested:N", "form": "factory"},
                              {"name": "d", "ty": "dict_nested:N"}, {"name": "s", "ty": "set"},
                              {"name": "ks", "ty": "klist:K"}, {"name": "kt", "ty": "kset:K"},
                              {"name": "os", "ty": "list_nested:O"}, {"name": "m", "ty": "dict"},
                              {"name": "masked", "ty": "int", "form": "property"}]},
     {"name": "D", "key": "x", "overflow": "rest",
      "attrs": [{"name": "x", "ty": "int", "form": "value", "default": 18}, {"name": "c", "ty": "nested:C"},
                {"name": "kk", "ty": "nested:K"}]}],
]
# a keyed spec class with spec subclasses that keep, disable or rename the key, and classes holding them
FIXED.append([
    {"name": "Base", "key": "name", "attrs": [{"name": "name", "ty": "str"}, {"name": "size", "ty": "int", "form": "value", "default": 31}]},
    {"name": "Unkeyed", "base": "Base", "key": None, "attrs": [{"name": "weight", "ty": "int", "form": "value", "default": 32}]},
    {"name": "Rekeyed", "base": "Base", "key": "label", "attrs": [{"name": "label", "ty": "str"}]},
    {"name": "Plain", "base": "Base", "attrs": [{"name": "weight", "ty": "int", "form": "value", "default": 33}]},
    {"name": "Holder", "attrs": [{"name": "item", "ty": "nested:Unkeyed"}, {"name": "other", "ty": "nested:Rekeyed"},
                                  {"name": "plain", "ty": "nested:Plain"}, {"name": "many", "ty": "list_nested:Unkeyed"},
                                  {"name": "byname", "ty": "dict_nested:Rekeyed"}, {"name": "keyed", "ty": "klist:Plain"}]},
])
# spec subclasses that re-assign the default of an inherited attribute (`token = 7`: the declaration of the owner, in
# particular init=False, stays in force) or re-annotate it (a new declaration: init-enabled again), chains of them,
# the same under an overflow attribute, and a class holding them (nested, list and dict elements)
def _iv(name, default, form="value", ty="int"):
    a = {"name": name, "ty": ty, "form": form}
    if default is not None:
        a["default"] = default
    return a


FIXED.append([
    {"name": "RBase", "attrs": [_iv("a", 51), _iv("token", 52, "noinit"), _iv("req", None, "none"), _iv("s", None, "none", "str")]},
    {"name": "RPlain", "base": "RBase", "attrs": [_iv("b", 53)]},
    {"name": "RChild", "base": "RBase", "attrs": [_iv("b", 57)],
     "redefaults": [{"name": "token", "default": 54}, {"name": "a", "default": 55}, {"name": "req", "default": 56}]},
    {"name": "RAnn", "base": "RBase", "attrs": [_iv("token", 58), _iv("c", 59, "noinit")]},
    {"name": "RGrand", "base": "RChild", "attrs": [_iv("g", 61)], "redefaults": [{"name": "token", "default": 60}]},
    {"name": "RGrand2", "base": "RAnn", "attrs": [_iv("g", 66)],
     "redefaults": [{"name": "token", "default": 67}, {"name": "c", "default": 68}]},
    {"name": "ROv", "overflow": "extra", "attrs": [_iv("a", 62), _iv("hid", 63, "noinit")]},
    {"name": "ROvChild", "base": "ROv", "attrs": [_iv("b", 65)], "redefaults": [{"name": "hid", "default": 64}]},
    {"name": "RHolder", "attrs": [{"name": "child", "ty": "nested:RChild"}, {"name": "ann", "ty": "nested:RAnn"},
                                   {"name": "grand", "ty": "nested:RGrand"}, {"name": "grand2", "ty": "nested:RGrand2"},
                                   {"name": "ovc", "ty": "nested:ROvChild"}, {"name": "kids", "ty": "list_nested:RChild"},
                                   {"name": "bykey", "ty": "dict_nested:RGrand"}]},
])
# plain attributes of every type with a TRUTHY default (and some without any), so that a FALSY value handed over by
# keyword and lost behind the wrapper (0, False, 0.0, "", None, [], {}, set()) is told from the default; keyed, overflow,
# frozen and re-defaulting variants, and a holder with nested / list / dict / KeyedList / KeyedSet elements of them
FIXED.append([
    {"name": "FChild", "light": True, "attrs": [_iv("x", 71), _iv("flag", True, ty="bool"), _iv("label", "dflt", ty="str"),
                                 _iv("tags", [1], ty="list"), _iv("opt", 3, ty="opt"), _iv("ratio", 1.5, ty="float"),
                                 _iv("m", {"a": 1}, ty="dict"), _iv("st", [1], ty="set"), _iv("bare", None, "none", "str"),
                                 _iv("blist", None, "none", "list"), _iv("bopt", None, "none", "opt")]},
    {"name": "FKeyed", "key": "name", "attrs": [_iv("name", None, "none", "str"), _iv("cnt", 72), _iv("on", True, ty="bool"),
                                                _iv("note", 4, ty="opt"), _iv("txt", "t", ty="str")]},
    {"name": "FOv", "overflow": "extra", "attrs": [_iv("a", 73), _iv("fl", True, ty="bool"), _iv("hid", 74, "noinit")]},
    {"name": "FFrozen", "frozen": True, "attrs": [_iv("fa", 75), _iv("fo", 5, ty="opt"), _iv("fs", "f", ty="str")]},
    {"name": "FSub", "base": "FChild", "attrs": [_iv("y", 77), _iv("w", 2.5, ty="float")], "redefaults": [{"name": "x", "default": 76}]},
    {"name": "FHolder", "attrs": [{"name": "child", "ty": "nested:FChild"}, {"name": "kid", "ty": "nested:FKeyed"},
                                  {"name": "ov", "ty": "nested:FOv"}, {"name": "fr", "ty": "nested:FFrozen"},
                                  {"name": "sub", "ty": "nested:FSub"},
                                  {"name": "items", "ty": "list_nested:FChild"}, {"name": "named", "ty": "dict_nested:FChild"},
                                  {"name": "kl", "ty": "klist:FKeyed"}, {"name": "kt", "ty": "kset:FKeyed"},
                                  {"name": "ovs", "ty": "list_nested:FOv"}, {"name": "byk", "ty": "dict_nested:FKeyed"},
                                  {"name": "frs", "ty": "list_nested:FFrozen"},
                                  _iv("n", 78), _iv("b", True, ty="bool"), _iv("o", 6, ty="opt"), _iv("s", "hs", ty="str"),
                                  _iv("f", 3.5, ty="float"), _iv("nums", [4], ty="list"), _iv("tab", {"k": 4}, ty="dict"),
                                  _iv("uni", [4], ty="set")]},
])
NAMES = ["a", "b", "p", "q", "x", "y", "items", "values", "name", "size", "kwargs", "flags", "opts", "node", "key_", "v"]


def random_desc(rng, nclasses):
    desc = []
    dflt = [20]
    for i in range(nclasses):
        cname = f"K{i}"
        names = rng.sample(NAMES, rng.randint(1, 5))
        attrs = []
        for nm in names:
            choices = ["int", "int", "str", "list", "dict", "set", "bool", "float", "opt"]
            if desc:
                ref = rng.choice(desc)["name"]
                choices += [f"nested:{ref}", f"list_nested:{ref}", f"dict_nested:{ref}"]
                keyed = [c["name"] for c in desc if c.get("key") and not c["key"].startswith("_")]
                if keyed:
                    choices += [f"klist:{rng.choice(keyed)}", f"kset:{rng.choice(keyed)}"]
            ty = rng.choice(choices)
            form = "none"
            if ty == "int":
                form = rng.choice(["none", "value", "value", "noinit", "property"])
            elif ty == "list":
                form = rng.choice(["none", "factory", "value"])
            elif ty in ("str", "dict", "set", "bool", "float", "opt"):
                form = rng.choice(["none", "value", "value"])
            a = {"name": nm, "ty": ty, "form": form}
            if ty.partition(":")[0] in SPELLABLE:
                sp = rng.choice(["typing", "builtin", "builtin", "abc", "tabc"])
                if sp != "typing":
                    a["spell"] = sp
            if form in ("value", "noinit"):
                dflt[0] += 1
                n_ = dflt[0]
                # truthy literal defaults: a falsy value handed over and lost must be told from the default
                a["default"] = {"str": f"d{n_}", "list": [n_], "dict": {"a": n_}, "set": [n_], "bool": True,
                                "float": n_ + 0.5}.get(ty, n_)
            attrs.append(a)
        if rng.random() < 0.3:
            dflt[0] += 1
            attrs.append({"name": "_hid", "ty": "int", "form": "value", "default": dflt[0]})
        cd = {"name": cname, "attrs": attrs}
        parents = [c for c in desc if c.get("key") and not c.get("base") and not c.get("overflow")
                   and not c["key"].startswith("_")]
        if parents and rng.random() < 0.35:
            # a spec subclass that keeps, disables or renames its parent's key
            par = rng.choice(parents)
            taken = {a["name"] for a in par["attrs"]}
            cd["attrs"] = attrs = [a for a in attrs if a["name"] not in taken] or [{"name": "extra_attr", "ty": "int", "form": "value", "default": 19}]
            cd["base"] = par["name"]
            mode = rng.choice(["inherit", "none", "own"])
            own = [a["name"] for a in attrs if a["ty"] in ("str", "int") and a.get("form", "none") in ("none", "value")
                   and not a["name"].startswith("_") and a["name"] != "kwargs"]
            if mode == "none" or (mode == "own" and not own):
                cd["key"] = None
            elif mode == "own":
                cd["key"] = rng.choice(own)
            desc.append(cd)
            continue
        rparents = [c for c in desc if not c.get("frozen") and not any(a["name"].startswith("_") for a in c["attrs"])
                    and any(a["ty"] == "int" and a.get("form", "none") in ("none", "value", "noinit") for a in c["attrs"])]
        if rparents and rng.random() < 0.3:
            # a spec subclass that re-assigns defaults of inherited int attributes (init=False ones preferred) and may
            # re-annotate one; key / overflow attribute as inherited
            par = rng.choice(rparents)
            view = []
            c_ = par
            while c_ is not None:
                view = c_["attrs"] + view
                c_ = next((x for x in desc if x["name"] == c_.get("base")), None)
            taken = {a["name"] for a in view}
            ints = [a for a in view if a["ty"] == "int" and a.get("form", "none") in ("none", "value", "noinit")
                    and not a["name"].startswith("_")]
            ints.sort(key=lambda a: a.get("form") != "noinit")
            red, rest = ints[:rng.randint(1, 2)], ints[2:]
            cd["base"] = par["name"]
            cd["redefaults"] = []
            for a in red:
                dflt[0] += 1
                cd["redefaults"].append({"name": a["name"], "default": dflt[0]})
            attrs = [a for a in attrs if a["name"] not in taken and a["name"] != "_hid"]
            pkey = next((x.get("key") for x in desc if x["name"] == par["name"]), None)
            if rest and rng.random() < 0.5 and rest[0]["name"] != pkey and not par.get("base"):
                dflt[0] += 1
                attrs.append({"name": rest[0]["name"], "ty": "int", "form": rng.choice(["value", "noinit"]), "default": dflt[0]})
            cd["attrs"] = attrs or [{"name": "extra_attr", "ty": "int", "form": "value", "default": 19}]
            desc.append(cd)
            continue
        r = rng.random()
        strs = [a["name"] for a in attrs if a["ty"] in ("str", "int") and a.get("form", "none") in ("none", "value")
                and not a["name"].startswith("_")]
        strs = [x for x in strs if x != "kwargs"]  # key="kwargs": __init__ cannot be built (see docs/C17.md)
        if r < 0.35 and strs:
            cd["key"] = rng.choice(strs)
        if rng.random() < 0.2:
            cd["frozen"] = True
        if rng.random() < 0.3:
            cd["overflow"] = rng.choice(["extra", "rest"] + [a["name"] for a in attrs if a["ty"] == "dict"][:1])
        desc.append(cd)
    return desc


def respell(desc, choose):
    """copy of a description whose container attributes are spelled choose(attribute) (see SPELLINGS); marked "focus":
    only the methods of the re-spelled attributes become cases"""
    d = copy.deepcopy(desc)
    for cd in d:
        for a in cd["attrs"]:
            if a["ty"].partition(":")[0] in SPELLABLE:
                sp = choose(a)
                if sp != "typing":
                    a["spell"] = sp
    d[0]["focus"] = True
    return d


def generate(rng, tier):
    quick = tier == "quick"
    descs = [copy.deepcopy(d) for d in FIXED]
    # every container attribute of the fixed hierarchies once more in the PEP 585 spelling (list[X], dict[str, X],
    # set[X]) and once in a spelling drawn per attribute (collections.abc / typing ABCs / built-in)
    for d in FIXED:
        descs.append(respell(d, lambda a: "builtin"))
    for d in FIXED:
        descs.append(respell(d, lambda a: rng.choice(["abc", "tabc", "abc", "builtin"])))
    for _ in range(3 if quick else 40):
        descs.append(random_desc(rng, rng.randint(2, 4)))
    return descs


# ------------------------------------------------------------------ check
def evaluate(cases, fn="check_case", tag="c", shard=6):
    terms = [c_case(c) for c in cases]
    return coq_eval("C17", PRELUDE, fn, terms, shard=shard, tag=tag, case_type="mcase")


def locate(case, code):
    """index of the offending call (or a structural reason) and a one-call version of the case"""
    fn = "spec_fail_where" if code == 2 else "model_fail_where"
    bad, _ = evaluate([case], fn=fn, tag="w")
    where = bad[0][1] if bad else 0
    off = 3 if code == 2 else 5
    if where >= off and where - off < len(case["obs"]):
        return where, case["obs"][where - off]
    j = where - off - len(case["obs"])
    if code == 2 and 0 <= j < len(case.get("effects", [])):
        return where, ("E", j, case["effects"][j])
    return where, None


WHERE_SPEC = {1: "advertised signature does not start with the compiled parameters", 2: "nested keywords differ from the init-enabled attributes of the nested class"}
WHERE_MODEL = {1: "model cannot build the method", 2: "advertised signature differs", 3: "compiled signature differs", 4: "compatibility check differs"}


def main(tier, replay=None):
    chk = Check("C17", tier)

    def call_sig(c, call, code, where):
        detail = {}
        if call is not None and call[0] == "E":
            tn, obs_ = call[2][0], call[2][1]
            lost = [k for k, v, da, do in obs_ if v not in (da, do)]
            detail = {"kind": "effect_lost", "keyword": ",".join(lost) or ",".join(k for k, *_ in obs_), "npos": 0}
        elif call is not None:
            posv, kwv, tag, x, flag = call
            adv_names = [p[0] for p in c["adv"]]
            unadv = [k for k, _ in kwv if k not in adv_names]
            if tag == "A" and not flag:
                kind = "impl_rejects"
            elif tag == "A":
                kind = "accepted"
            else:
                kind = "rejected" + ("" if flag else "_state_changed")
            detail = {"kind": kind, "keyword": ",".join(unadv), "npos": len(posv)}
        return {"code": code, "mkind": c["kind"].strip("()").split()[0], **detail,
                "where": (WHERE_SPEC if code == 2 else WHERE_MODEL).get(where, "call")}

    if replay:
        r = json.load(open(replay))
        if "ctl" in r:
            bad, logs, obs = ctl_evaluate([r["ctl"]], tag="rc")
            print("replay:", "still failing code=%s" % bad[0][1] if bad else "passes now", logs)
            print("observed now:", obs[0])
            return 1 if bad else 0
        cases = cases_for(r["desc"], only=(r["cls"], r["method"]))
        # calls explained by an open known finding are not what a replay is about
        cases = [dict(c, obs=[o for o in c["obs"] if chk.match_known(call_sig(c, o, 2, 0)) is None]) for c in cases]
        bad, logs = evaluate(cases, tag="r")
        print("replay:", "still failing code=%s" % bad[0][1] if bad else "passes now", logs)
        for c in cases:
            print("advertised now:", c["adv"])
            if bad:
                print("where:", locate(c, bad[0][1]))
        return 1 if bad else 0
    chk.proofs()
    descs = generate(chk.rng, tier)
    cases, owner = [], []
    for di, d in enumerate(descs):
        cs_ = cases_for(d)
        cases += cs_
        owner += [di] * len(cs_)
    bad, logs = evaluate(cases)
    reported = set()
    known_calls = 0

    # first pass: take out, in every failing method, the calls a known finding explains, and
    # re-check all those methods in one batch; only what still fails is triaged one by one
    todo = []
    reduced, ridx = [], []
    for i, code in bad:
        c = cases[i]
        if code != 2:
            todo.append((i, code, c))
            continue
        keep = [o for o in c["obs"] if chk.match_known(call_sig(c, o, 2, 0)) is None]
        if len(keep) == len(c["obs"]):
            todo.append((i, code, c))
            continue
        first = next(o for o in c["obs"] if o not in keep)
        known_calls += len(c["obs"]) - len(keep)
        chk.violation("known", {"desc": descs[owner[i]], "cls": c["cls"], "method": c["method"], "call": first},
                      sig=call_sig(c, first, 2, 0))
        reduced.append(dict(c, obs=keep))
        ridx.append(i)
    if reduced:
        bad2, logs2 = evaluate(reduced, tag="k")
        logs += logs2
        todo += [(ridx[j], code2, reduced[j]) for j, code2 in bad2]
    if len(todo) > 40:
        chk.violation(f"{len(todo) - 40} further failing methods were not triaged one by one",
                      {"kind": "untriaged", "methods": [(cases[i]["cls"], cases[i]["method"]) for i, _, _ in todo[40:]][:50]},
                      no_input=True)
    for i, code, c in sorted(todo, key=lambda b: -b[1])[:40]:
        c = dict(c)
        for _round in range(12):
            where, call = locate(c, code)
            sig = call_sig(c, call, code, where)
            is_known = code == 2 and call is not None and chk.match_known(sig) is not None
            key = json.dumps(sig, sort_keys=True)
            if key not in reported or is_known:
                reported.add(key)
                what = (f"{c['cls']}.{c['method']}{'(' + ', '.join(f'{p[0]}' for p in c['adv']) + ')'}: "
                        + ("violates its advertised signature" if code == 2 else "differs from the model")
                        + (f" [an advertised keyword accepted by the real method did not reach the attribute / overflow "
                           f"dictionary with the value given: (keyword, given, in __dict__, in overflow dict) = {call[2][1]}"
                           f"{' call: ' + call[2][2] if len(call[2]) > 2 else ''}]"
                           if call is not None and call[0] == "E" else
                           f" [{sig['where']}] call={None if call is None else (call[0], call[1], call[2], call[3], call[4])}"))
                chk.violation(what, {"desc": descs[owner[i]], "cls": c["cls"], "method": c["method"], "code": code,
                                     "advertised": c["adv"], "compiled": c["real"], "call": call,
                                     "replay": "bin/check C17 --replay <this file>"},
                              sig=sig, no_input=(code != 2))
            if not is_known:
                break
            # a known finding explains this call: drop it and look at the rest of the method's calls
            known_calls += 1
            c = dict(c, obs=[o for o in c["obs"] if o is not call])
            again, _ = evaluate([c], tag="k")
            if not again:
                break
            code = again[0][1]
    # control parameters of the sequence element helpers: observed outcome of the real methods
    ctl = ctl_generate()
    cbad, clogs, cobs = ctl_evaluate(ctl)
    logs += clogs
    creported = set()
    for i, code in cbad:
        cc, o = ctl[i], cobs[i]
        explicit = sorted(k for k in ("by_index", "inplace", "if", "insert") if cc[k] is not None) + \
            ([] if cc["index"] == "omitted" else ["index"])
        sig = {"code": 2, "kind": "control_parameter", "helper": cc["h"], "elem": cc["et"],
               "explicit": ",".join(explicit), "outcome": o["outcome"]}
        key = json.dumps({k: sig[k] for k in ("helper", "explicit", "outcome")}, sort_keys=True)
        if key in creported:
            continue
        creported.add(key)
        if len(creported) > 8:
            break
        chk.violation(f"Box{cc['et']}.{cc['h']}_val: an advertised control parameter did not reach the behaviour with the value "
                      f"given: args={ {k: v for k, v in cc.items() if v is not None and k not in ('h', 'et')} } "
                      f"observed outcome={o['outcome']} result={o['result']} receiver={o['recv']} same_object={o['same']}",
                      {"ctl": cc, "observed": o, "code": 2, "replay": "bin/check C17 --replay <this file>"}, sig=sig)
    for lg in logs:
        chk.violation("correspondence evaluation failed: " + lg[-500:], {"kind": "coq-eval", "log": lg}, no_input=True)
    kinds, acc, nparams = {}, {"accepted": 0, "rejected": 0}, {}
    ncalls = 0
    distinct = set()
    for c in cases:
        k = c["kind"].strip("()").split()[0]
        kinds[k] = kinds.get(k, 0) + 1
        nparams[len(c["adv"])] = nparams.get(len(c["adv"]), 0) + 1
        for o in c["obs"]:
            ncalls += 1
            acc["accepted" if o[2] == "A" else "rejected"] += 1
        distinct.add(json.dumps([c["kind"], c["nested"], c["adv"]], sort_keys=True))
    extra = {
        "correspondence": {"classes": sum(len(d) for d in descs), "methods": len(cases), "calls": ncalls,
                           "disagreements": len(bad), "calls_attributed_to_known_findings": known_calls,
                           "method_kind_histogram": kinds, "call_outcomes": acc,
                           "advertised_parameter_count_histogram": nparams,
                           "control_parameter_cases": len(ctl), "control_parameter_failures": len(cbad),
                           "real_method_effect_calls": sum(len(c.get("effects", [])) for c in cases),
                           "with_nested_keywords": sum(1 for c in cases if c["nested"]),
                           "with_overflow_catch_all": sum(1 for c in cases if any(p[1] == "VarKw" for p in c["adv"]))},
        "evaluations": ncalls, "distinct_nontrivial": len(distinct),
        "rule": "one case per generated method (constructor, 3 top-level, 4 scalar, 4 element helpers per attribute) of every class "
                "of a description; calls per method: empty, required only, every single advertised parameter (keyword, positional, "
                "both), every pair, one positional too many, unadvertised names (other classes' attributes, init=False attributes, "
                "the overflow attribute, private names, kwargs/attr_spec/spec_cls/self); evaluations = calls compared; "
                "distinct = distinct (method kind, nested class, advertised signature)",
        "samples": [{k: v for k, v in cases[j].items() if k != "obs"} | {"calls": len(cases[j]["obs"]), "first_calls": cases[j]["obs"][:3]}
                    for j in (0, len(cases) // 2, len(cases) - 1)],
        "exhaustive": False,
    }
    return chk.finish(
        trusted_base=["Coq 8.16.1 kernel and vm_compute", "no axioms (Print Assumptions: closed under the global context)",
                      "hand-written models coq/Deco/Signature.v (MethodBuilder, parameter tables) and coq/Deco/Bind.v (CPython call binding), "
                      "tied to /repo and to CPython by this run's correspondence",
                      "harness/c17.py: spying implementation patched into the compiled wrapper's globals; compiled parameters read from the code object"],
        assumptions=["calls never repeat a keyword (Python syntax / dict keys)",
                     "defaults shown for nested-attribute keywords are documentation: such a keyword reaches the implementation only when supplied",
                     "state unchanged on rejection = the implementation is not invoked (model) / receiver __dict__ unchanged (implementation)"],
        extra=extra)
