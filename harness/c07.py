"""C07 — frozen instances are immutable yet evolvable by copy."""
import copy
import json

import inst_check
import inst_common as ic
import inst_gen as ig

ASSUMPTIONS = [
    "after EVERY operation (any receiver) each frozen instance held by the program keeps its own dictionary (scalar fields equal, reference fields still references)",
    "in-place calls on frozen instances must change nothing (oracle) and raise FrozenInstanceError where the model says so (correspondence); argument-validation errors may pre-empt FrozenInstanceError and no-op calls (_if=False, UNCHANGED) do not raise",
    "twin relation checked on the implementation for histories of copy-on-write calls: the same history on the class table with the frozen flags cleared yields the same object graphs",
]
GENS = [
    (5, dict(bad_rate=0.2, inplace_rate=0.5, fail_rate=0.1, flavour="frozen")),
    (2, dict(bad_rate=0.2, inplace_rate=0.0, fail_rate=0.1, flavour="frozen")),
    # a frozen holder of non-frozen nested values: in-place nested updates must not reach the nested objects
    (4, dict(bad_rate=0.05, inplace_rate=0.85, fail_rate=0.0, flavour="frozen_parent", prefer_nested=True,
             weights={"construct": 1, "scalar": 6, "item": 5, "top": 3})),
    # frozen instances handed to a holder's helpers together with nested keywords: the holder's
    # copy carries the change, the caller's frozen instance keeps its dictionary
    (3, dict(bad_rate=0.05, inplace_rate=0.0, fail_rate=0.05, flavour="frozen", prefer_nested=True,
             weights={"construct": 1, "scalar": 5, "item": 6, "top": 1})),
]


def twin_of(case):
    t = copy.deepcopy(case["table"])
    for c in t:
        c["frozen"] = False
    return dict(case, table=t)


def twins(chk, cases, bad, extra):
    n = 120 if chk.tier == "quick" else 1500
    compared = differing = 0
    for _ in range(n):
        case = ig.gen_case(chk.rng, 6, bad_rate=0.15, inplace_rate=0.0, fail_rate=0.1, flavour="frozen",
                           weights={"construct": 2, "scalar": 5, "item": 5, "top": 2, "deepcopy": 1})
        if not any(c.get("frozen") for c in case["table"]):
            continue
        r1, e1 = ic.run_case(case)
        r2, e2 = ic.run_case(twin_of(case))
        compared += 1
        if r1 is None or r2 is None or json.dumps(r1, default=str) != json.dumps(r2, default=str):
            differing += 1
            if differing <= 3:
                chk.violation("copy-on-write history behaves differently on a frozen class and on its non-frozen twin",
                              {"table": case["table"], "ops": case["ops"], "nd": case["nd"],
                               "frozen_run": r1, "twin_run": r2, "errors": [e1, e2]},
                              sig={"kind": "twin"})
    extra["twin_relation"] = {"histories_compared": compared, "differing": differing}


def _post(chk, cases, bad, extra):
    twins(chk, cases, bad, extra)
    import wide_explore
    wide_explore.explore_frozen(chk, extra)
    import c07_chain
    c07_chain.probe(chk, extra)


def main(tier, replay=None):
    if replay:
        if json.load(open(replay)).get("kind") == "frozen-chain":
            import c07_chain
            return c07_chain.replay(replay)
        return inst_check.replay("C07", replay, 64)
    return inst_check.run("C07", tier, 64, GENS, 350, 6000, ASSUMPTIONS, post=_post,
                          aimed=lambda rng, t: ig.element_cases(rng, 250 if t == "quick" else 4000, flavour="frozen",
                                                                handover=0.6))
