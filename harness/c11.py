"""C11 — derived values are never stale after a dependency changes.

Correspondence of coq/Inval/Model.v with spec_classes (mutate_attr / invalidate_attrs /
__setattr__ / __delattr__ / invalidation_map_for / spec_property / every helper entry point)
and property oracle: coq/Corr/InvalCorr.v:step_oracle (built from coq/Inval/Spec.v only) on
the implementation's observations, plus an independent probe oracle written in Python
(value read on a clone after every operation vs getter recomputed on the current state)."""
import copy
import json
import os

from common import Check, ERR_CODES, cbool, clist, copt, coq_eval, cz, czlist, outcome_class

PRELUDE = """From Coq Require Import List ZArith Bool.
From SC Require Import Base.Res Corr.Enc Inval.Desc Inval.Model Inval.Spec Corr.InvalCorr.
Import ListNotations.
Open Scope Z_scope.
Set Printing Width 1000000.
"""

UNKNOWN = 999
KINDS = "mlupt"  # managed int, managed List[int], unmanaged plain, spec_property, typed spec_property (annotated)


# ------------------------------------------------------------------ names / values
def ekind(n):
    """kind in force for type(obj): a managed int masked by a spec_property in a subclass
    (assigned over the inherited name, no annotation) behaves like an annotated property"""
    return "t" if n.get("mask") else n["kind"]


def pdecl(n):
    """the property declaration in force (flags, invalidated_by)"""
    return n["mask"] if n.get("mask") else n


def pyname(node):
    return f"l{node['id']}s" if node["kind"] == "l" else f"n{node['id']}"


def py_val(v):
    """description value -> python value: int | ['s', k] | ['l', [...]]"""
    if isinstance(v, int):
        return v
    if v[0] == "s":
        return f"s{v[1]}"
    return list(v[1])


def enc_val(o):
    from spec_classes.types.missing import MISSING
    if o is MISSING:
        return "VMiss"
    if type(o) is int:
        return f"(VI {cz(o)})"
    if type(o) is str and o[:1] == "s" and o[1:].isdigit():
        return f"(VS {o[1:]})"
    if type(o) is list and all(type(x) is int for x in o):
        return f"(VL {czlist(o)})"
    return "(VS 999)"


def c_val(v):
    return enc_val(py_val(v))


def num(o):
    from spec_classes.types.missing import MISSING
    if o is None or o is MISSING:
        return 7
    if type(o) is int:
        return o
    if type(o) is str:
        return 1000 + int(o[1:])
    if type(o) is list:
        return sum(o) + 100 * len(o)
    return 7


# ------------------------------------------------------------------ the class under test
class Built:
    """classes generated from a description; keeps the getter call counters"""

    def __init__(self, desc):
        from typing import List
        from spec_classes import Attr, spec_class, spec_property
        self.desc = desc
        self.nodes = {n["id"]: n for n in desc["nodes"]}
        self.names = {n["id"]: pyname(n) for n in desc["nodes"]}
        self.ids = {v: k for k, v in self.names.items()}
        self.calls = {n["id"]: 0 for n in desc["nodes"] if ekind(n) in "pt"}
        built = self

        def make_getter(pid):
            bias, terms = desc["getters"].get(str(pid), desc["getters"].get(pid, (0, [])))
            names = self.names

            def fget(obj):
                built.calls[pid] += 1
                d = object.__getattribute__(obj, "__dict__")
                return bias + sum(coef * num(d.get(names[m])) for m, coef in terms)
            fget.__name__ = names[pid]
            return fget

        self.getter_fns = {}

        def inv_arg(inv):
            return [("*" if x == "*" else self.names[x]) for x in inv]

        def make_prop(pid, over, cache, inv):
            fn = self.getter_fns.setdefault(pid, make_getter(pid))
            kw = dict(overridable=bool(over), cache=bool(cache))
            if inv:
                kw["invalidated_by"] = inv_arg(inv)
            return spec_property(fn, **kw)

        def namespace(level, spec):
            ns, ann = {}, {}
            for n in desc["nodes"]:
                k, nm = n["kind"], self.names[n["id"]]
                if k in "ml" and n["level"] == level:
                    ann[nm] = int if k == "m" else List[int]
                    kw = {}
                    if n.get("default") is not None:
                        if n.get("factory"):
                            kw["default_factory"] = (lambda v: lambda: copy.deepcopy(v))(py_val(n["default"]))
                        else:
                            kw["default"] = py_val(n["default"])
                    if n["inv"]:
                        kw["invalidated_by"] = inv_arg(n["inv"])
                    if set(kw) == {"default"} and n.get("bare"):
                        ns[nm] = kw["default"]           # `a: int = 3`
                    elif kw:
                        ns[nm] = Attr(**kw)
                elif k in "pt" and n["level"] == level:
                    if k == "t":
                        ann[nm] = int
                    ns[nm] = make_prop(n["id"], n["over"], n["cache"], n["inv"])
                if n.get("mask") and n["mask"]["level"] == level:
                    m = n["mask"]                              # no annotation: the attribute stays inherited
                    ns[nm] = make_prop(n["id"], m["over"], m["cache"], m["inv"])
                if k in "ml" and n.get("override") and n["override"]["level"] == level:
                    ns[nm] = py_val(n["override"]["value"])   # subclass re-defaults the attribute: `n0 = 7`
                if k == "p" and n.get("redecl") and n["redecl"]["level"] == level:
                    r = n["redecl"]
                    ns[nm] = make_prop(n["id"], r["over"], r["cache"], r["inv"])
            if spec:
                ns["__annotations__"] = ann
            return ns

        post = [self.names[p] for p in desc["post"]]
        ns0 = namespace(0, True)
        if post:
            def __post_init__(obj):
                for nm in post:
                    getattr(obj, nm)
            ns0["__post_init__"] = __post_init__
        base = type("Base", (), ns0)
        base = spec_class(frozen=True)(base) if desc["frozen"] else spec_class(base)
        cls = base
        self.levels = [0]
        if desc["specsub"]:
            cls = spec_class(type("Sub", (cls,), namespace(1, True)))
            self.levels.insert(0, 1)
        if desc["plainsub"]:
            cls = type("Plain", (cls,), namespace(2, False))
            self.levels.insert(0, 2)
        self.cls = cls
        self.attr_order = list(cls.__spec_class__.attrs)

    # --- observation
    def enc_dict(self, obj):
        d = object.__getattribute__(obj, "__dict__")
        return sorted((self.ids.get(k, UNKNOWN), enc_val(v)) for k, v in d.items())

    def snap_calls(self):
        return sorted(self.calls.items())

    def construct(self):
        kw = {self.names[i]: py_val(v) for i, v in self.desc["kwargs"]}
        return self.cls(**kw)

    def fresh(self, pid, obj):
        """the getter recomputed on the current state, without touching anything"""
        saved = dict(self.calls)
        try:
            return self.getter_fns[pid](obj)
        finally:
            self.calls.update(saved)

    def probe(self, obj):
        """what a read of every property returns now — read on a deep copy, so that the
        object under test and the call counters are left alone"""
        saved = dict(self.calls)
        out = {}
        try:
            clone = copy.deepcopy(obj)
            for pid in self.calls:
                try:
                    out[pid] = ("v", getattr(clone, self.names[pid]))
                except BaseException as e:  # noqa: BLE001
                    out[pid] = ("e", type(e).__name__)
        finally:
            self.calls.update(saved)
        return out

    # --- operations
    def apply(self, obj, op):
        """returns (result object or None, read value or None)"""
        k = op[0]
        nm = self.names.get(op[1]) if len(op) > 1 and isinstance(op[1], int) else None
        if k == "Read":
            return None, getattr(obj, nm)
        if k == "SetAttr":
            setattr(obj, nm, py_val(op[2]))
            return None, None
        if k == "DelAttr":
            delattr(obj, nm)
            return None, None
        if k == "With":
            return getattr(obj, f"with_{nm}")(py_val(op[2]), _inplace=bool(op[3])), None
        if k == "Update":
            return getattr(obj, f"update_{nm}")(py_val(op[2]), _inplace=bool(op[3])), None
        if k == "Transform":
            return getattr(obj, f"transform_{nm}")(py_fn(op[2]), _inplace=bool(op[3])), None
        if k == "Reset":
            return getattr(obj, f"reset_{nm}")(_inplace=bool(op[2])), None
        if k == "Elem":
            item = nm[:-1]
            e, ip = op[2], bool(op[3])
            if e[0] == "EWith":
                return getattr(obj, f"with_{item}")(e[1], _inplace=ip), None
            if e[0] == "EUpdate":
                return getattr(obj, f"update_{item}")(e[1], e[2], _by_index=True, _inplace=ip), None
            if e[0] == "ETransform":
                return getattr(obj, f"transform_{item}")(e[1], (lambda kk: lambda v: v + kk)(e[2]), _by_index=True, _inplace=ip), None
            return getattr(obj, f"without_{item}")(e[1], _inplace=ip), None
        if k == "TopUpdate":
            return obj.update(_inplace=bool(op[2]), **{self.names[a]: py_val(v) for a, v in op[1]}), None
        if k == "TopTransform":
            return obj.transform(_inplace=bool(op[2]), **{self.names[a]: py_fn(f) for a, f in op[1]}), None
        if k == "TopReset":
            return obj.reset(_inplace=bool(op[1])), None
        raise ValueError(op)


def py_fn(f):
    from spec_classes.types.missing import MISSING
    kind, k = f
    if kind == "FAdd":
        return lambda x: k if (x is MISSING or not isinstance(x, int)) else x + k
    if kind == "FApp":
        return lambda x: [k] if (x is MISSING or not isinstance(x, list)) else x + [k]
    return lambda x: f"s{k}"


IN_PLACE_ALWAYS = ("Read", "SetAttr", "DelAttr")


def op_inplace(op):
    if op[0] in IN_PLACE_ALWAYS:
        return True
    return bool(op[-1])


def op_attrs(op):
    k = op[0]
    if k == "Read" or k == "TopReset":
        return []
    if k in ("TopUpdate", "TopTransform"):
        return [a for a, _ in op[1]]
    return [op[1]]


# ------------------------------------------------------------------ independent closure (python)
def effective_inv(desc):
    """declaration in force per dependant (most derived redeclaration wins)"""
    eff = {}
    for n in desc["nodes"]:
        if n["kind"] == "u":
            continue
        inv = n["inv"]
        if n["kind"] == "p" and n.get("redecl"):
            inv = n["redecl"]["inv"]
        if n.get("mask"):
            inv = n["mask"]["inv"]       # the property's own
        eff[n["id"]] = inv
    return eff


def py_closure(desc, a):
    eff = effective_inv(desc)
    seen, todo = {a}, [a]
    while todo:
        x = todo.pop()
        for y, inv in eff.items():
            if y not in seen and (x in inv or "*" in inv):
                seen.add(y)
                todo.append(y)
    return seen


# ------------------------------------------------------------------ running a case on the implementation
def run_case(desc):
    """returns dict(init=(err, dict, calls), obs=[...], py_oracle=[messages], attr_order_ok)"""
    b = Built(desc)
    out = {"py": [], "built": b}
    try:
        obj = b.construct()
        out["init"] = (0, b.enc_dict(obj), b.snap_calls())
    except BaseException as e:  # noqa: BLE001
        if isinstance(e, (KeyboardInterrupt, SystemExit, AssertionError)):
            raise
        out["init"] = (ERR_CODES[outcome_class(e)], [], b.snap_calls())
        out["obs"] = []
        return out
    props = {pid: b.nodes[pid] for pid in b.calls}
    obs = []
    for step, (op, follow) in enumerate(desc["hist"]):
        before = b.probe(obj)
        calls_before = dict(b.calls)
        err, val, res = 0, None, None
        try:
            res, val = b.apply(obj, op)
        except BaseException as e:  # noqa: BLE001
            if isinstance(e, (KeyboardInterrupt, SystemExit, AssertionError)):
                raise
            err = ERR_CODES[outcome_class(e)]
            res = None
        copy_mode = not op_inplace(op)
        res_enc = b.enc_dict(res) if (copy_mode and err == 0 and res is not None) else None
        obs.append((err, None if val is None else enc_val(val), b.enc_dict(obj), res_enc, b.snap_calls()))
        target = res if (copy_mode and err == 0 and res is not None) else obj
        # ---- independent probe oracle (python): value read after the operation
        if op[0] != "Read":
            if b.calls != calls_before:
                out["py"].append((step, "a mutation ran a getter"))
            after_t = b.probe(target)
            if err == 0:
                attrs = op_attrs(op) if op[0] != "TopReset" else [b.ids[a] for a in b.attr_order]
                clo = set()
                for a in attrs:
                    clo |= py_closure(desc, a)
                for pid in props:
                    if pid in attrs:
                        continue
                    if pid in clo and op[0] != "TopReset":
                        want = ("v", b.fresh(pid, target))
                        if after_t[pid] != want:
                            out["py"].append((step, f"stale: {b.names[pid]} reads {after_t[pid]} after the change, getter on the current state gives {want}"))
                    elif pid not in clo and after_t[pid] != before[pid]:
                        out["py"].append((step, f"unrelated {b.names[pid]} changed from {before[pid]} to {after_t[pid]}"))
                if copy_mode and b.probe(obj) != before:
                    out["py"].append((step, "copy-on-write changed what the original reads"))
            elif len(op_attrs(op)) <= 1 or copy_mode:
                if b.probe(obj) != before:
                    out["py"].append((step, "a failed mutation changed what is read"))
        else:
            pid = op[1]
            if err == 0 and val != before[pid][1]:
                out["py"].append((step, f"read returned {val!r}, a clone read {before[pid]!r}"))
        if follow and target is not obj:
            obj = target
    out["obs"] = obs
    out["attr_order"] = [b.ids.get(a, UNKNOWN) for a in b.attr_order]
    return out


# ------------------------------------------------------------------ Coq encoding
def c_dep(x):
    return "DStar" if x == "*" else f"DName {x}"


def c_flags(over, cache):
    return f"(mkpf {cbool(over)} {cbool(cache)})"


def resolved_default(n):
    """Attr.lookup_default_value(type(obj)): the most derived class attribute wins, else default / factory"""
    if n.get("mask"):
        return None
    if n.get("override"):
        return n["override"]["value"]
    return n.get("default")


def c_cdesc(desc, attr_order):
    nodes = {n["id"]: n for n in desc["nodes"]}
    attrs = []
    for i in attr_order:
        n = nodes[i]
        if n.get("mask"):
            # masked in a subclass: a spec subclass rebuilds the Attr (invalidated_by = the property's own),
            # a plain subclass leaves the metadata as declared by the owner
            m = n["mask"]
            inv = m["inv"] if m["level"] == 1 else n["inv"]
            attrs.append(f"({i}, mka None (Some {c_flags(m['over'], m['cache'])}) {clist(inv, c_dep)})")
        elif n["kind"] in "ml":
            rd = resolved_default(n)
            dflt = "None" if rd is None else f"(Some {c_val(rd)})"
            attrs.append(f"({i}, mka {dflt} None {clist(n['inv'], c_dep)})")
        else:  # typed property: masked managed attribute, invalidated_by copied from the property
            attrs.append(f"({i}, mka None (Some {c_flags(n['over'], n['cache'])}) {clist(n['inv'], c_dep)})")
    levels = []
    order = ([2] if desc["plainsub"] else []) + ([1] if desc["specsub"] else []) + [0]
    for lv in order:
        mem = []
        for n in desc["nodes"]:
            if n["kind"] in "pt" and n["level"] == lv:
                mem.append(f"({n['id']}, mkm (Some {c_flags(n['over'], n['cache'])}) {clist(n['inv'], c_dep)})")
            if n["kind"] == "p" and n.get("redecl") and n["redecl"]["level"] == lv:
                r = n["redecl"]
                mem.append(f"({n['id']}, mkm (Some {c_flags(r['over'], r['cache'])}) {clist(r['inv'], c_dep)})")
            if n.get("mask") and n["mask"]["level"] == lv:
                r = n["mask"]
                mem.append(f"({n['id']}, mkm (Some {c_flags(r['over'], r['cache'])}) {clist(r['inv'], c_dep)})")
        levels.append(f"mkl {cbool(lv == 2)} {clist(mem)}")
    return f"(mkc {clist(attrs)} {clist(levels)} {cbool(desc['frozen'])})"


def c_fn(f):
    return f"({f[0]} {cz(f[1])})"


def c_eop(e):
    if e[0] in ("EWith", "EWithout"):
        return f"({e[0]} {cz(e[1])})"
    return f"({e[0]} {e[1]}%nat {cz(e[2])})"


def c_op(op):
    k = op[0]
    if k == "Read":
        return f"Read {op[1]}"
    if k == "SetAttr":
        return f"SetAttr {op[1]} {c_val(op[2])}"
    if k == "DelAttr":
        return f"DelAttr {op[1]}"
    if k in ("With", "Update"):
        return f"{k} {op[1]} {c_val(op[2])} {cbool(op[3])}"
    if k == "Transform":
        return f"Transform {op[1]} {c_fn(op[2])} {cbool(op[3])}"
    if k == "Reset":
        return f"Reset {op[1]} {cbool(op[2])}"
    if k == "Elem":
        return f"Elem {op[1]} {c_eop(op[2])} {cbool(op[3])}"
    if k == "TopUpdate":
        return f"TopUpdate {clist(op[1], lambda kv: f'({kv[0]}, {c_val(kv[1])})')} {cbool(op[2])}"
    if k == "TopTransform":
        return f"TopTransform {clist(op[1], lambda kv: f'({kv[0]}, {c_fn(kv[1])})')} {cbool(op[2])}"
    return f"TopReset {cbool(op[1])}"


def c_dict(d):
    return clist(d, lambda kv: f"({kv[0]}, {kv[1]})")


def c_calls(c):
    return clist(c, lambda kv: f"({kv[0]}, {kv[1]})")


def c_obs(o):
    err, val, recv, res, calls = o
    return (f"mkobs {cz(err)} {copt(val)} {c_dict(recv)} "
            f"{'None' if res is None else '(Some ' + c_dict(res) + ')'} {c_calls(calls)}")


def c_case(desc, run):
    types = [(n["id"], 0 if n["kind"] in "mt" else 1) for n in desc["nodes"] if n["kind"] in "mlt"]
    getters = []
    for pid, (bias, terms) in sorted((int(k), v) for k, v in desc["getters"].items()):
        tl = clist(terms, lambda t: f"({t[0]}, {cz(t[1])})")
        getters.append(f"({pid}, ({cz(bias)}, {tl}))")
    ierr, idict, icalls = run["init"]
    return ("mkcase " + c_cdesc(desc, run.get("attr_order", attr_order_of(desc))) + " "
            + clist(types, lambda t: f"({t[0]}, {t[1]})") + " " + clist(getters) + " "
            + clist(desc["kwargs"], lambda kv: f"({kv[0]}, {c_val(kv[1])})") + " "
            + czlist(desc["post"]) + " "
            + clist(desc["hist"], lambda h: f"({c_op(h[0])}, {cbool(h[1])})") + " "
            + cz(ierr) + " " + c_dict(idict) + " " + c_calls(icalls) + " "
            + clist(run["obs"], c_obs))


def attr_order_of(desc):
    """metadata.attrs order predicted from the class text: base annotations, then the spec subclass"""
    out = []
    for lv in (0, 1):
        out += [n["id"] for n in desc["nodes"] if n["kind"] in "mlt" and n["level"] == lv]
    return out


# ------------------------------------------------------------------ generation
VALS_INT = [0, 1, 2, 3, 5, 8]
VALS_LIST = [[], [1], [1, 2], [2, 2, 3]]


def gen_desc(rng, tier, max_nodes, max_len):
    n_nodes = rng.randint(2, max_nodes)
    specsub = rng.random() < 0.35
    plainsub = rng.random() < 0.35
    frozen = rng.random() < 0.12
    nodes = []
    # at least one base (non-property) name and one dependant
    kinds = []
    for i in range(n_nodes):
        r = rng.random()
        kinds.append("m" if r < 0.28 else "l" if r < 0.42 else "u" if r < 0.52 else "p" if r < 0.86 else "t")
    if not any(k in "mlu" for k in kinds):
        kinds[0] = "m"
    if not any(k in "pt" for k in kinds):
        kinds[-1] = "p"
    for i, k in enumerate(kinds):
        n = {"id": i, "kind": k, "inv": []}
        if k in "ml":
            n["level"] = 1 if (specsub and rng.random() < 0.3) else 0
            if rng.random() < 0.55:
                n["default"] = rng.choice(VALS_INT) if k == "m" else ["l", rng.choice(VALS_LIST)]
                n["bare"] = rng.random() < 0.3
                n["factory"] = (not n["bare"]) and rng.random() < 0.25
            lv = [x for x in ([1] if specsub else []) + ([2] if plainsub else []) if x > n["level"]]
            if lv and rng.random() < 0.12:
                n["override"] = {"level": rng.choice(lv), "value": rng.choice(VALS_INT) if k == "m" else ["l", rng.choice(VALS_LIST)]}
        elif k == "t":
            n["level"] = 1 if (specsub and rng.random() < 0.3) else 0
        elif k == "p":
            lv = [0] + ([1] if specsub else []) + ([2, 2] if plainsub else [])
            n["level"] = rng.choice(lv)
        if k in "pt":
            r = rng.random()
            n["cache"], n["over"] = (1, 1) if r < 0.45 else (1, 0) if r < 0.8 else (0, 1) if r < 0.95 else (0, 0)
        nodes.append(n)
    # edges: invalidated_by on managed attributes and properties
    ids = list(range(n_nodes))
    for n in nodes:
        if n["kind"] == "u":
            continue
        p_dep = 0.85 if n["kind"] in "pt" else 0.4
        if rng.random() < p_dep:
            if rng.random() < 0.18:
                n["inv"] = ["*"]
            else:
                cand = [j for j in ids if j != n["id"]] if rng.random() < 0.9 else ids
                # prefer forward (acyclic) edges, sometimes anything (cycles, self loops)
                if rng.random() < 0.8:
                    cand = [j for j in cand if j < n["id"]] or cand
                inv = rng.sample(cand, min(len(cand), rng.choice([1, 1, 1, 2])))
                if rng.random() < 0.05:
                    inv.append("*")
                n["inv"] = inv
    for n in nodes:
        # a subclass assigns a spec_property over an INHERITED managed attribute (no annotation)
        if n["kind"] == "m" and n["level"] == 0 and not n.get("override") and (specsub or plainsub) and rng.random() < 0.2:
            r = rng.random()
            cache, over = (1, 1) if r < 0.45 else (1, 0) if r < 0.85 else (0, 1)
            others = [j for j in ids if j != n["id"]]
            inv = [] if rng.random() < 0.3 else (["*"] if rng.random() < 0.1 else rng.sample(others, min(len(others), rng.choice([1, 1, 2]))))
            n["mask"] = {"level": rng.choice(([1] if specsub else []) + ([2] if plainsub else [])), "over": over, "cache": cache, "inv": inv}
    for n in nodes:
        if n["kind"] == "p" and rng.random() < 0.12:
            lv = [x for x in ([1] if specsub else []) + ([2] if plainsub else []) if x > n["level"]]
            if lv:
                n["redecl"] = {"level": rng.choice(lv), "over": n["over"], "cache": n["cache"],
                               "inv": rng.sample(ids, min(len(ids), rng.choice([0, 1, 1, 2])))}
    desc = {"frozen": frozen, "specsub": specsub, "plainsub": plainsub, "nodes": nodes}
    # getters: bias + weighted sum over the base names a property (transitively) depends on
    eff = effective_inv(desc)
    base = [n["id"] for n in nodes if ekind(n) in "mlu"]
    getters = {}
    for n in nodes:
        if ekind(n) not in "pt":
            continue
        anc, todo = set(), [n["id"]]
        star = False
        while todo:
            y = todo.pop()
            for x in eff.get(y, []):
                if x == "*":
                    star = True
                elif x not in anc:
                    anc.add(x)
                    todo.append(x)
        reads = base if star else [x for x in base if x in anc]
        getters[str(n["id"])] = (rng.choice([0, 10, 20]) + n["id"], [(x, rng.choice([1, 2, 3])) for x in reads])
    desc["getters"] = getters
    # constructor arguments and __post_init__ reads
    kwargs = []
    for n in nodes:
        if ekind(n) in "ml" and (resolved_default(n) is None and rng.random() < 0.8 or rng.random() < 0.3):
            kwargs.append((n["id"], rng.choice(VALS_INT) if n["kind"] == "m" else ["l", rng.choice(VALS_LIST)]))
        elif ekind(n) == "t" and pdecl(n)["over"] and rng.random() < 0.15:
            kwargs.append((n["id"], rng.choice(VALS_INT)))
    desc["kwargs"] = kwargs
    props = [n["id"] for n in nodes if ekind(n) in "pt"]
    desc["post"] = [p for p in props if rng.random() < 0.35]
    ln = max_len if rng.random() < 0.6 else rng.randint(1, max_len)
    desc["hist"] = [gen_op(rng, desc) for _ in range(ln)]
    return desc


def gen_value(rng, node, bad=0.08):
    if node["kind"] == "l":
        return ["l", rng.choice(VALS_LIST)]
    if rng.random() < bad:
        return ["s", rng.choice([1, 2])]
    return rng.choice(VALS_INT)


def gen_op(rng, desc):
    nodes = desc["nodes"]
    by = lambda ks: [n for n in nodes if ekind(n) in ks]  # noqa: E731
    ip = rng.random() < 0.5
    follow = rng.random() < 0.6
    r = rng.random()
    props, managed, helpers, lists = by("pt"), by("ml"), by("mlt"), by("l")
    if r < 0.24 and props:
        return (("Read", rng.choice(props)["id"]), False)
    if r < 0.40:
        n = rng.choice(nodes)
        return (("SetAttr", n["id"], gen_value(rng, n)), False)
    if r < 0.50:
        return (("DelAttr", rng.choice(nodes)["id"]), False)
    if r < 0.60 and helpers:
        n = rng.choice(helpers)
        return (("With", n["id"], gen_value(rng, n), ip), follow)
    if r < 0.65 and managed:
        n = rng.choice(managed)
        return (("Update", n["id"], gen_value(rng, n), ip), follow)
    if r < 0.73 and managed:
        n = rng.choice(managed)
        f = ("FApp", rng.choice([4, 6])) if n["kind"] == "l" else (("FAdd", rng.choice([1, 2])) if rng.random() < 0.9 else ("FStr", 1))
        return (("Transform", n["id"], f, ip), follow)
    if r < 0.80 and helpers:
        return (("Reset", rng.choice(helpers)["id"], ip), follow)
    if r < 0.88 and lists:
        n = rng.choice(lists)
        e = rng.choice([("EWith", rng.choice([1, 4])), ("EUpdate", rng.randrange(3), rng.choice([0, 9])),
                        ("ETransform", rng.randrange(3), rng.choice([1, 5])), ("EWithout", rng.choice([1, 2, 4]))])
        return (("Elem", n["id"], e, ip), follow)
    if r < 0.93 and helpers:
        ks = rng.sample(helpers, min(len(helpers), rng.choice([1, 2, 2, 3])))
        return (("TopUpdate", [(n["id"], gen_value(rng, n, 0.05)) for n in ks], ip), follow)
    if r < 0.97 and managed:
        ks = rng.sample(managed, min(len(managed), rng.choice([1, 2])))
        return (("TopTransform", [(n["id"], ("FApp", 4) if n["kind"] == "l" else (("FAdd", 1) if rng.random() < 0.9 else ("FStr", 2))) for n in ks], ip), follow)
    if r < 0.99:
        return (("TopReset", ip), follow)
    n = rng.choice(nodes)
    return (("SetAttr", n["id"], gen_value(rng, n)), False)


def corpus_cases():
    """hand-written regression cases: the witnesses of the defects found while building the check"""
    out = []
    d = os.path.join(os.path.dirname(os.path.dirname(os.path.abspath(__file__))), "corpus", "C11")
    if os.path.isdir(d):
        for f in sorted(os.listdir(d)):
            if f.endswith(".json"):
                out.append(normalise(json.load(open(os.path.join(d, f)))["case"]))
    return out


def normalise(desc):
    """JSON round trip: tuples"""
    desc = json.loads(json.dumps(desc))
    desc["kwargs"] = [(a, v) for a, v in desc["kwargs"]]
    desc["getters"] = {str(k): (v[0], [tuple(t) for t in v[1]]) for k, v in desc["getters"].items()}
    hist = []
    for op, follow in desc["hist"]:
        op = list(op)
        if op[0] in ("TopUpdate", "TopTransform"):
            op[1] = [(a, tuple(v) if op[0] == "TopTransform" else v) for a, v in op[1]]
        if op[0] == "Transform":
            op[2] = tuple(op[2])
        if op[0] == "Elem":
            op[2] = tuple(op[2])
        hist.append((tuple(op), bool(follow)))
    desc["hist"] = hist
    return desc


# ------------------------------------------------------------------ check
def evaluate(descs, tag):
    terms, runs = [], []
    for d in descs:
        r = run_case(d)
        runs.append(r)
        terms.append(c_case(d, r))
    bad, logs = coq_eval("C11", PRELUDE, "check_case", terms, shard=250, tag=tag, case_type="ccase")
    codes = {i: c for i, c in bad}
    return codes, logs, runs


def shrink(desc, code):
    cur = desc
    for _ in range(12):
        cands = []
        h = cur["hist"]
        for j in range(len(h)):
            cands.append(dict(cur, hist=h[:j] + h[j + 1:]))
        if cur["post"]:
            cands.append(dict(cur, post=[]))
        if cur["kwargs"]:
            for j in range(len(cur["kwargs"])):
                cands.append(dict(cur, kwargs=cur["kwargs"][:j] + cur["kwargs"][j + 1:]))
        cands = [c for c in cands if c["hist"]]
        if not cands:
            break
        codes, _, runs = evaluate(cands, "s")
        hit = [i for i in range(len(cands)) if codes.get(i) == code or (code == 2 and runs[i]["py"] and codes.get(i) == 2)]
        if not hit:
            break
        cur = cands[hit[0]]
    return cur


def signature(desc, code):
    last = desc["hist"][-1][0]
    kinds = sorted({n["kind"] for n in desc["nodes"]})
    return {"code": code, "op": last[0], "inplace": op_inplace(last), "frozen": desc["frozen"],
            "plainsub": desc["plainsub"], "wildcard": any("*" in n["inv"] for n in desc["nodes"]), "kinds": "".join(kinds)}


def describe(desc, code, run):
    b = run["built"]
    return {"kind": "case", "case": desc, "code": code,
            "meaning": {1: "model and implementation differ; the specification accepts the implementation's run",
                        2: "the implementation's run violates the specification (stale or wrongly discarded value)",
                        3: "oracle closure computation not closed"}.get(code, "?"),
            "python_names": {str(k): v for k, v in b.names.items()},
            "observed": [list(o[:2]) + [o[2], o[3], o[4]] for o in run["obs"]],
            "init": run["init"], "python_probe_oracle": run["py"],
            "replay": "bin/check C11 --replay <this file>"}


def main(tier, replay=None):
    chk = Check("C11", tier)
    if replay:
        r = json.load(open(replay))
        if r.get("kind") != "case":
            print("replay: not a concrete case:", r.get("what", "")[:300])
            return 1
        desc = normalise(r["case"])
        codes, logs, runs = evaluate([desc], "r")
        code = codes.get(0, 0)
        print("replay:", f"still failing code={code}" if code else "passes now", logs, "python probe oracle:", runs[0]["py"])
        for o in runs[0]["obs"]:
            print("  observed:", o)
        return 1 if (code or runs[0]["py"]) else 0
    chk.proofs(extra_targets=["Corr/InvalCorr.vo"])
    quick = tier == "quick"
    n_cases = 7000 if quick else 60000
    descs, gen_kind = [], []
    for d in corpus_cases():
        descs.append(d)
        gen_kind.append("corpus")
    for i in range(n_cases):
        if quick:
            mx_nodes, mx_len = (3, 6) if i % 5 else (4, 6)
        else:
            mx_nodes, mx_len = (4, 12) if i % 6 else (5, 12)
        descs.append(gen_desc(chk.rng, tier, mx_nodes, mx_len))
        gen_kind.append("random")
    codes, logs, runs = evaluate(descs, "c")
    reported = set()
    py_only = 0
    order_bad = 0
    cand = sorted(codes.items(), key=lambda ic: (-ic[1] if ic[1] != 3 else 0, len(descs[ic[0]]["hist"])))
    for i, code in cand[:40]:
        small = shrink(descs[i], code)
        sig = signature(small, code)
        skey = json.dumps(sig, sort_keys=True)
        if skey in reported:
            continue
        reported.add(skey)
        run = run_case(small)
        what = (("stale or wrongly discarded derived value" if code == 2 else
                 "implementation differs from the model" if code == 1 else "oracle closure not closed")
                + f": frozen={small['frozen']} specsub={small['specsub']} plainsub={small['plainsub']} "
                + "nodes=" + json.dumps([{k: v for k, v in n.items()} for n in small["nodes"]]) + f" hist={small['hist']}"
                + (f" python-probe: {run['py'][:2]}" if run["py"] else ""))
        chk.violation(what, describe(small, code, run), sig=sig, no_input=(code != 2))
    for i, r in enumerate(runs):
        if r["py"] and codes.get(i) != 2:
            py_only += 1
            if py_only <= 3:
                chk.violation(f"python probe oracle flags a run the Coq oracle accepts: {r['py'][:2]}",
                              describe(descs[i], 2, r), sig={"code": "py-only"}, no_input=False)
        if r.get("attr_order") is not None and r["attr_order"] != attr_order_of(descs[i]):
            order_bad += 1
    if order_bad:
        chk.violation(f"metadata.attrs order differs from the order predicted from the class text in {order_bad} cases",
                      {"kind": "harness"}, no_input=True)
    for lg in logs:
        chk.violation("correspondence evaluation failed: " + lg[-500:], {"kind": "coq-eval", "log": lg}, no_input=True)
    # ---------------- statistics
    op_hist, err_hist, len_hist, node_hist, kind_hist, ip_hist = {}, {}, {}, {}, {}, {}
    feat = {"frozen": 0, "specsub": 0, "plainsub": 0, "wildcard": 0, "cycle_or_self": 0, "chain>=2": 0, "redecl": 0,
            "post_init_reads": 0, "plainsub_dependant": 0, "specsub_dependant": 0}
    n_ops = 0
    inv_errs = {v: k for k, v in ERR_CODES.items()}
    for d, r in zip(descs, runs):
        len_hist[len(d["hist"])] = len_hist.get(len(d["hist"]), 0) + 1
        node_hist[len(d["nodes"])] = node_hist.get(len(d["nodes"]), 0) + 1
        for n in d["nodes"]:
            kind_hist[n["kind"]] = kind_hist.get(n["kind"], 0) + 1
        for k in ("frozen", "specsub", "plainsub"):
            feat[k] += bool(d[k])
        feat["wildcard"] += any("*" in n["inv"] for n in d["nodes"])
        feat["redecl"] += any(n.get("redecl") for n in d["nodes"])
        feat["inherited_attr_masked_in_spec_subclass"] = feat.get("inherited_attr_masked_in_spec_subclass", 0) + any((n.get("mask") or {}).get("level") == 1 for n in d["nodes"])
        feat["inherited_attr_masked_in_plain_subclass"] = feat.get("inherited_attr_masked_in_plain_subclass", 0) + any((n.get("mask") or {}).get("level") == 2 for n in d["nodes"])
        feat["default_factory"] = feat.get("default_factory", 0) + any(n.get("factory") for n in d["nodes"])
        feat["subclass_redefault"] = feat.get("subclass_redefault", 0) + any(n.get("override") for n in d["nodes"])
        feat["post_init_reads"] += bool(d["post"])
        feat["plainsub_dependant"] += any(n["kind"] == "p" and (n["level"] == 2 or (n.get("redecl") or {}).get("level") == 2) and n["inv"] for n in d["nodes"])
        feat["specsub_dependant"] += any(n.get("level") == 1 and n["inv"] for n in d["nodes"])
        eff = effective_inv(d)
        feat["cycle_or_self"] += any(x != "*" and x in py_closure(d, y) for y, inv in eff.items() for x in inv)
        feat["chain>=2"] += any(any(z != "*" and eff.get(z) for z in inv) for inv in eff.values())
        for (op, _), o in zip(d["hist"], r["obs"]):
            n_ops += 1
            op_hist[op[0]] = op_hist.get(op[0], 0) + 1
            ek = "ok" if o[0] == 0 else inv_errs.get(o[0], str(o[0]))
            err_hist[ek] = err_hist.get(ek, 0) + 1
            if op[0] not in IN_PLACE_ALWAYS:
                key = "in_place" if op_inplace(op) else "copy"
                ip_hist[key] = ip_hist.get(key, 0) + 1
    distinct = len({json.dumps(d, sort_keys=True, default=str) for d in descs})
    extra = {
        "evaluations": len(descs), "distinct_nontrivial": distinct,
        "rule": "case = (class description: <= 3/4 (quick) or <= 4/5 (thorough) names of kinds managed int / managed List[int] / unmanaged / "
                "spec_property / annotated spec_property, invalidated_by edges incl. '*', chains, cycles, redeclaration, levels base / spec subclass / plain subclass, frozen; "
                "constructor kwargs; properties read in __post_init__; history of <= 6 / <= 12 operations over every entry point, in place and copy-on-write, "
                "continuing on the copy or on the original); distinct = distinct case descriptions; every case has >= 1 operation; "
                "outcome, read value, receiver __dict__, result __dict__ and getter call counters are compared after EVERY operation",
        "samples": [{"case": descs[0]}, {"case": descs[len(descs) // 2]}, {"case": descs[-1]}],
        "correspondence": {"cases": len(descs), "operations": n_ops, "disagreements": len(codes),
                           "codes": {str(c): sum(1 for v in codes.values() if v == c) for c in (1, 2, 3)},
                           "python_probe_oracle_flags": sum(1 for r in runs if r["py"]),
                           "by_generator": {k: gen_kind.count(k) for k in set(gen_kind)},
                           "op_histogram": op_hist, "outcome_histogram": err_hist, "history_length_histogram": len_hist,
                           "node_count_histogram": node_hist, "node_kind_histogram": kind_hist,
                           "helper_mode_histogram": ip_hist, "feature_counts": feat},
        "exhaustive": False,
    }
    return chk.finish(
        trusted_base=["Coq 8.16.1 kernel and vm_compute", "no axioms (Print Assumptions: closed under the global context)",
                      "hand-written model coq/Inval/Model.v tied to /repo by this run's correspondence",
                      "harness/c11.py class factory, observation encoder and getter pool; concrete pools of coq/Corr/InvalCorr.v"],
        assumptions=["values written are not the sentinels MISSING/EMPTY/UNCHANGED (mutate_attr treats a sentinel as 'no assignment')",
                     "attribute defaults are well-typed, non-sentinel values (wf_class)",
                     "getters are functions of the instance __dict__ that have no side effects; no custom setter/deleter on a spec_property "
                     "(a custom deleter replaces the default delete action and thereby the invalidation hook: user-chosen, see docs/C11.md)",
                     "a keyword of a top-level update/transform/reset is one mutation; a failing keyword of an in-place call does not undo the earlier ones (C04 known finding)"],
        extra=extra)
