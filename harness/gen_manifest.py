"""Regenerates MANIFEST.json from the table below (run after adding a check)."""
import json, os
V = os.path.dirname(os.path.dirname(os.path.abspath(__file__)))
FIXES = []  # filled from KNOWN_FINDINGS.json
CHECKS = {
 "C13": dict(
   technique="Coq proof (refinement of the KeyedList model to a plain-list spec, invariant, atomicity; unbounded operation sequences, abstract items) + differential correspondence model vs implementation evaluated by vm_compute",
   text="Theorems C13_refines_plain_list / C13_failed_operation_changes_nothing / C13_key_access_is_linear_scan / C13_keys_unique are proved in Coq for every operation sequence over abstract items and key functions (closed under the global context). The hand-written model (coq/KL/Model.v) is tied to spec_classes/types/keyed.py on every run by executing model, specification and implementation on the same generated cases (four item universes, typed and untyped, exhaustive depth-1 small scope, sampled depth-2, random sequences) and comparing output, _list and _dict after every operation.",
   note="Trusted: Coq kernel + vm_compute; the hand-written model and Python list/dict/mixin semantics (validated by correspondence only); harness encoders. int arguments to [] are list indices; keys()/items() compared as sets. Universes include falsy items and a falsy key (empty string) reaching the default key extraction; results of + / reflected + / slices are identity-checked (a new container), empty operands included.",
   design="4 C13"),
}
CHECKS["C01"] = dict(
   technique="Coq proof (frame theorem over a heap model of the instance machinery: every copy-on-write call writes only cells allocated during the call; Hoare-style judgement, mutual induction on fuel) + differential correspondence model vs implementation on canonical object graphs evaluated by vm_compute",
   text="Theorems C01_cow_call_writes_no_existing_cell / C01_deepcopy_writes_no_existing_cell / C01_core_respects_watermark are proved in Coq for every class table without do_not_copy=True classes (frozen included), every heap, receiver, helper, argument vector (valid or not), every outcome (return or exception) and every callback failure point: a call without _inplace=True writes no heap cell that existed before it. The model (coq/Inst/Model.v, ~1000 lines following mutation.py / core.py / scalar.py / toplevel.py / collections/*.py branch by branch) is tied to /repo on every run: generated class tables and operation histories are executed by model and implementation, and the canonical object graph (content and sharing) of all live roots is compared after every operation; the C01 oracle (pre-existing graph unchanged after a copy-on-write call) is evaluated in Coq on the implementation's own observations.",
   note="Trusted: Coq kernel + vm_compute; hand-written model and Python container/deepcopy/attribute semantics (validated by correspondence only); harness graph canonicaliser; callback purity contract. Crash points: user-callback failures (any invocation in the theorem; 1st..3rd in the correspondence) and every error the model can raise are covered by the theorem; exceptions injected at executed lines of library code are explored on the implementation only (oracle: pre-existing graph unchanged), not proved. KeyedList/KeyedSet-typed attributes, masked attributes, float/Literal/Tuple annotations, two spec parents and do_not_copy=True classes are outside the model; they are explored on the implementation only (keyed attributes with and without item preparers, classes derived from a do_not_copy=True class, and a class zoo on which every generated helper, found by introspection, is called with an assorted argument pool incl. values whose deep copy fails), with the oracle 'receiver, arguments and keyword values are the same object graph with equal contents afterwards' evaluated in Python. Plain subclasses overriding defaults, Union and Optional[spec] attributes are inside model and correspondence. Implementation-level explorations added in rounds five to seven (oracle: structural snapshot of receiver, arguments and keyword values unchanged): by-value addressing with an instance (byvalue_probe, also through the model), validated/bounded types with raising validators (c04_validated), an existing instance handed over with several keywords (c04_replacement), preparers resolving a name to an object already held (c04_existing).",
   design="4 C01")
CHECKS["C04"] = dict(
   technique="Coq proof (frame theorem: every constructor call, copy-on-write call and deepcopy, and every in-place operation on a frozen instance, writes no pre-existing heap cell whatever the outcome; the full statement is refuted for multi-keyword in-place update/transform and recorded as a known finding) + differential correspondence with failure injection, evaluated by vm_compute",
   text="C04_atomic_partial_cow_and_constructors, C04_atomic_partial_frozen_inplace and C04_constructor_result_is_fresh are proved for every class table (no do_not_copy=True classes), heap, argument vector, callback failure point and error. The full statement (every operation, including _inplace=True on non-frozen receivers) is false of the code: C04_multi_keyword_inplace_update_refuted exhibits update(_inplace=True, a=ok, b=bad) committing a before failing on b (open finding). C04_atomic_partial_assignment and C04_atomic_partial_inplace_attribute_and_element_helpers prove the same for obj.a = v and for every attribute-level and element-level helper called with _inplace=True (with_/update_/transform_/reset_<attr>, with_/update_/transform_/without_<item> on list/dict/set attributes) on any instance when nothing is invalidated by the attribute; C04_atomic_partial_inplace_update_single_keyword / _transform_single_keyword do so for the top-level update(a=v, _inplace=True) / transform(a=f, _inplace=True) with exactly one keyword. The remaining in-place cases (attributes with dependants, top-level update/transform with several keywords, reset) are decided by the correspondence (model = implementation on canonical object graphs after every operation, ~60% of generated operations failing: ill-typed values at every position, missing index/key/element, unknown keywords, callbacks raising at their 1st..3rd invocation) and the C04 oracle evaluated in Coq on the implementation's own observations (pre-existing graph unchanged after an exception).",
   note="Trusted: Coq kernel + vm_compute; hand-written model (validated by correspondence); harness canonicaliser; callback purity. Partial: in-place operations are covered by theorems only when the written attribute has no dependants (and for top-level update/transform with one keyword); with dependants, several keywords or reset(_inplace=True) the statement is false of the code (KNOWN_FINDINGS.json: four open findings, each with a signature). Outside the model, explored on the implementation only with the oracle 'after an exception receiver and arguments are the same object graph with equal contents' evaluated in Python: KeyedList/KeyedSet attributes (duplicate keys, ill-typed items, key-valued and None positions, item preparers failing at the n-th item), and a class zoo (float/Literal/Union/Tuple attributes, cached spec_property, two levels of plain subclassing, two spec parents, classes derived from a do_not_copy=True class, aborted deep copies) on which every generated helper, assignment and deletion is called with an assorted argument pool. Implementation-level explorations added in rounds five to seven (oracle: after an exception the structural snapshot of receiver, arguments, keyword values and registry objects is unchanged; recorded findings excepted by signature): c04_validated (validated/bounded types, validators failing at their n-th invocation), c04_replacement (replacement instance + several keywords, the rejected one later), c04_existing (preparers returning already-held objects; empty containers with a failure after the element was added, also through the model: empty_container_cases).",
   design="4 C04")
CHECKS["C07"] = dict(
   technique="Coq proof (every in-place operation on a frozen instance writes no pre-existing cell and deletion raises FrozenInstanceError; copy-on-write calls on frozen instances write no pre-existing cell) + differential correspondence incl. frozen/non-frozen twin runs of the implementation",
   text="C07_inplace_operation_on_frozen_instance_writes_nothing (assignment, deletion, every helper with _inplace=True: no pre-existing heap cell is written, for every class table, heap, arguments and outcome), C07_delete_on_frozen_instance_raises_FrozenInstanceError, C07_write_reaching_the_frozen_guard_raises and C07_cow_call_on_frozen_instance_writes_nothing are proved in Coq over the instance model. C07_inplace_operation_on_another_receiver_leaves_frozen_instance_untouched / C07_element_helper_on_another_receiver_... (instances of the C08 confinement theorems) prove that no in-place operation on ANOTHER receiver - e.g. a nested update through a parent - writes a frozen instance. For the 'evolvable by copy' half, C07_cow_with_scalar_partial / C07_twin_with_scalar_partial prove, for with_<a>(scalar) on flat instances of ANY class, frozen or not: the result is a fresh instance, its abstraction is the specification's, it is frozen again (the _thawed window set and removed the flag on the copy), and a table and its twin with the frozen flags cleared give abstractly equal results. The model is tied to /repo on every run (canonical object graphs after every operation on generated frozen class tables); the C07 oracle (a frozen instance never changes; copy-on-write calls leave it untouched) is evaluated in Coq on the implementation's observations; the twin relation (same copy-on-write history on the class with the frozen flag cleared gives the same object graphs) is checked implementation against implementation.",
   note="Trusted: Coq kernel + vm_compute; hand-written model; harness. Partial: the twin simulation is proved for with_<a>(scalar) on flat instances only; for every other helper and for nested receivers it is validated by twin runs of the implementation, not proved. Interpretation: argument-validation errors may pre-empt FrozenInstanceError; no-op calls (_if=False, UNCHANGED) do not raise; update(_new_value, _inplace=True) replaces the receiver by another object and is outside the theorem. Implementation-level probes: frozen / non-frozen twin exploration over a class zoo (an in-place call that changes the twin must raise FrozenInstanceError on the frozen instance and change nothing; copy-on-write calls have the twin's outcome) and c07_chain (inheritance of the frozen flag along chains of three and four spec / plain classes with frozen= stated, withdrawn or unsaid at every level; assignments to names that are not managed attributes on frozen instances).",
   design="4 C07")
NOT_YET = {}
def load_fragments():
    import glob
    for f in sorted(glob.glob(os.path.join(V, "docs", "C*.manifest.py"))):
        pid = os.path.basename(f).split(".")[0]
        ns = {}
        exec(open(f).read(), ns)
        if "CHECK" in ns and os.path.exists(os.path.join(V, "harness", pid.lower() + ".py")):
            CHECKS.setdefault(pid, ns["CHECK"])
        for k, v in ns.get("CHECKS", {}).items():
            if os.path.exists(os.path.join(V, "harness", k.lower() + ".py")):
                CHECKS.setdefault(k, v)


def main():
    load_fragments()
    props = [json.loads(l) for l in open(os.path.join(V, "properties.jsonl"))]
    checks = []
    na = []
    for p in props:
        pid = p["id"]
        if pid in CHECKS:
            c = CHECKS[pid]
            checks.append({
                "property_id": pid,
                "quick_cmd": f"bin/check {pid} quick",
                "thorough_cmd": f"bin/check {pid} thorough",
                "evidence_file": f"/verif/evidence/{pid}.json",
                "replay_cmd_template": f"bin/check {pid} --replay {{path}}",
                "engine": "coq-proof+correspondence",
                "level_claimed": {"category": "proof", "text": c["text"], "design_ref": c["design"]},
                "level_note": c["note"],
                "technique": c["technique"],
            })
        else:
            na.append({"property_id": pid, "reason": NOT_YET.get(pid, "not claimed yet: model and theorems for this property are still under construction (see DESIGN.md section 6); no check is registered until they exist")})
    m = {
        "version": 1,
        "setup_cmd": "cd /verif && bin/coqmk && cd coq && (timeout 3300 make -k -j16 COQC='timeout 1500 coqc' > /verif/coq/setup.log 2>&1; tail -3 /verif/coq/setup.log; true)",
        "hooks": {"guard": "SPEC_CLASSES_VERIF", "enable": "no source hooks: the harness observes the library from outside (private fields, tracing); bin/check exports SPEC_CLASSES_VERIF=1 for uniformity",
                  "baseline_off_cmd": "cd /repo && /venv/bin/python -m pytest -ra -q -p no:cacheprovider --timeout=900 --continue-on-collection-errors",
                  "source_commits": [], "add_only": True},
        "engines": [{"name": "coq-proof+correspondence", "path": "/verif/coq, /verif/harness", "serves_properties": sorted(CHECKS),
                     "kind_free_text": "Coq 8.16.1 development (model, specification, theorems) + Python harness that runs model (vm_compute) and implementation on the same generated inputs"}],
        "checks": checks,
        "not_applicable": na,
        "notes": "See DESIGN.md. KNOWN_FINDINGS.json lists repaired defects (fix: commits in /repo) and open findings.",
    }
    json.dump(m, open(os.path.join(V, "MANIFEST.json"), "w"), indent=1)
if __name__ == "__main__":
    main()
