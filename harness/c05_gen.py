"""Generators of the C05 check: histories of scalar / top-level helper calls,
assignments and deletions with conforming values and pure transforms, every
call form, every flag combination, and the paired relations (copy-run vs
in-place-run on a clone; obj.a = v vs obj.with_a(v, _inplace=True))."""
import inst_common as ic
import inst_gen as ig
from inst_gen import EMPTY, INT, MISSING, NONE, STR, UNCHANGED, S, V

FLAGS = [(False, True), (True, True), (False, False), (True, False)]   # (_inplace, _if)


class Hist5(ig.Hist):
    groups = None    # [start, end) op-index ranges of paired relation runs (kept intact by the shrinker)

    def begin_group(self):
        if self.groups is None:
            self.groups = []
        return len(self.ops)

    def end_group(self, start):
        self.groups.append([start, len(self.ops)])

    def flags(self, inplace=None):
        r = self.rng.random()
        inp, if_ = FLAGS[0] if r < 0.45 else FLAGS[1] if r < 0.85 else FLAGS[2] if r < 0.93 else FLAGS[3]
        if inplace is not None:
            inp = inplace
        return {"inplace": inp, "if_": if_}

    def pure_fn(self, t):
        rng = self.rng
        if t in (INT, ("opt", INT)):
            return rng.choice([("addint", 1), ("addint", -2), ("id",), ("const", V(7)), ("const", V(0))])
        if t == STR:
            return rng.choice([("id",), ("const", S(8)), ("const", S(0))])
        if t == ("list", INT):
            return rng.choice([("appended", V(4)), ("newlist", [V(1), V(2)]), ("newlist", []), ("id",)])
        if t == ("dict", STR, INT):
            return rng.choice([("dictof", 7, V(1)), ("id",)])
        return ("id",)

    def nested_kw(self, sentinel_rate=0.15):
        kw = self.k1_kw(False)
        if self.rng.random() < sentinel_rate:
            kw = [p for p in kw if p[0] != 3] + [(3, self.rng.choice([MISSING, UNCHANGED]))]
        seen, out = set(), []
        for a, v in kw:          # a Python call cannot repeat a keyword
            if a not in seen:
                seen.add(a)
                out.append((a, v))
        return out

    # ---- one scalar-helper call in a documented call form
    def scalar_call(self, x, cid, a, kind, inplace=None):
        rng = self.rng
        t, aid = a["ty"], a["aid"]
        h = self.flags(inplace)
        if kind == "with":
            r = rng.random()
            if r < 0.08:
                h["pos"] = [rng.choice([MISSING, UNCHANGED, EMPTY])]
            elif r < 0.14:
                h["pos"] = []
            else:
                h["pos"] = [self.value_for(a, False)]
            if t == ("spec", 1) and rng.random() < 0.45:
                if rng.random() < 0.5:
                    h["pos"] = []
                h["kw"] = self.nested_kw()
        elif kind == "update":
            if t == ("spec", 1):
                h["pos"] = [] if rng.random() < 0.65 else [rng.choice([self.value_for(a, False), UNCHANGED])]
                h["kw"] = self.nested_kw() if rng.random() < 0.85 else None
            else:
                h["pos"] = [self.value_for(a, False) if rng.random() < 0.88 else rng.choice([UNCHANGED, MISSING])]
        elif kind == "transform":
            if t == ("spec", 1) and rng.random() < 0.6:
                h["kwfn"] = [(1, self.pure_fn(INT))]
                if rng.random() < 0.3:
                    h["fn"] = ("id",)
            else:
                h["fn"] = self.pure_fn(t)
        return ("helper", x, (kind, aid), h)

    def top_call(self, x, cid, kind, inplace=None):
        rng = self.rng
        h = self.flags(inplace)
        attrs = self.attrs_of(cid)
        if kind == "update_top":
            kw = []
            for a in rng.sample(attrs, rng.choice([0, 1, 1, 2, 3])):
                v = self.value_for(a, False)
                if rng.random() < 0.12:
                    v = rng.choice([MISSING, UNCHANGED])
                kw.append((a["aid"], v))
            h["kw"] = kw
            if rng.random() < 0.06:
                h["pos"] = [rng.choice([MISSING, UNCHANGED])]
        elif kind == "transform_top":
            kwfn = []
            for a in rng.sample(attrs, rng.choice([0, 1, 1, 2])):
                if a["ty"][0] == "set" or (a["ty"][-1] == ("spec", 1) and a["ty"][0] != "spec"):
                    continue
                kwfn.append((a["aid"], self.pure_fn(a["ty"])))
            if not kwfn or rng.random() < 0.2:
                h["fn"] = ("id",)
            h["kwfn"] = kwfn
        return ("helper", x, (kind, None), h)

    def random_call(self, x, cid, inplace=None):
        rng = self.rng
        r = rng.random()
        if r < 0.62:
            attrs = self.attrs_of(cid)
            nested = [a for a in attrs if a["ty"] == ("spec", 1)]
            a = rng.choice(nested) if nested and rng.random() < 0.25 else rng.choice(attrs)
            kind = rng.choice(["with", "with", "update", "transform", "reset"])
            return self.scalar_call(x, cid, a, kind, inplace)
        dep = [a for a in self.attrs_of(cid) if a.get("inv_by")]
        if dep and rng.random() < 0.25:
            return self.dependant_transform(x, cid, dep[0], inplace)
        return self.top_call(x, cid, rng.choice(["update_top", "transform_top", "reset_top"]), inplace)

    def dependant_transform(self, x, cid, dep, inplace=None):
        """transform(x=f, dependant=g) with `dependant` invalidated_by x and holding a non-default
        value: g must see the dependant AFTER the invalidation caused by storing f(x)"""
        rng = self.rng
        self.add(("setattr", x, dep["aid"], V(rng.choice([1, 2]))), ("none",))
        h = self.flags(inplace)
        h["if_"] = True
        h["kwfn"] = [(1, rng.choice([("addint", 1), ("const", V(7))])), (dep["aid"], rng.choice([("id",), ("id",), ("const", V(0))]))]
        if rng.random() < 0.3:
            h["fn"] = ("id",)
        return ("helper", x, ("transform_top", None), h)

    # ---- relations
    def rel_copy_vs_inplace(self, x, cid, op=None):
        """y = x.h(args); c = deepcopy(x); c.h(args, _inplace=True); y and c agree on every attribute"""
        if op is None:
            op = self.random_call(x, cid, inplace=False)
        op[3]["if_"] = True
        g = self.begin_group()
        mark = len(self.ops)
        y = self.add(op, ("inst", cid))
        # arguments must be built afresh for the second run: re-issue the allocations made for the first
        c = self.add(("deepcopy", x), ("inst", cid))
        op2 = self.clone_call(op, mark, c)
        op2[3]["inplace"] = True
        r = self.add(op2, ("inst", cid))     # the receiver itself when the call succeeds
        for a in self.attrs_of(cid):
            self.add(("same", y, r, a["aid"]), None)
        self.end_group(g)

    def clone_call(self, op, mark, recv):
        """the same call with freshly allocated copies of the argument objects created since `mark`"""
        created = {}    # old root -> new root

        def fresh(v):
            if isinstance(v, tuple) and len(v) == 2 and v[0] == "root":
                if v[1] in created:
                    return ("root", created[v[1]])
                src = self.op_creating(v[1])
                if src is None or self.root_index_of_op(src) is None:
                    return v
                o = self.ops[src][0]
                if o[0] == "alloc":
                    new = ("alloc", (o[1][0], [(fresh(p[0]), fresh(p[1])) for p in o[1][1]] if o[1][0] == "dict"
                                     else [fresh(e) for e in o[1][1]]))
                elif o[0] == "construct":
                    new = ("construct", o[1], fresh(o[2]) if o[2] is not None else None, [(k, fresh(w)) for k, w in o[3]])
                else:
                    return v
                r = self.add(new, self.kinds[v[1]])
                created[v[1]] = r
                return ("root", r)
            return v
        h = dict(op[3])
        if "pos" in h:
            h["pos"] = [fresh(v) for v in h["pos"]]
        if h.get("kw") is not None:
            h["kw"] = [(k, fresh(v)) for k, v in h["kw"]]
        return ("helper", recv, op[2], h)

    def op_creating(self, root):
        n = self.nd
        for i, (op, _) in enumerate(self.ops):
            if op[0] == "same":
                continue
            if n == root:
                return i
            n += 1
        return None

    def root_index_of_op(self, i):
        return 0 if self.ops[i][0][0] != "same" else None

    def rel_setattr_vs_with(self, x, cid):
        """c1 = deepcopy(x); c2 = deepcopy(x); c1.a = v; c2.with_a(v, _inplace=True); c1 and c2 agree"""
        a = self.rng.choice(self.attrs_of(cid))
        g = self.begin_group()
        c1 = self.add(("deepcopy", x), ("inst", cid))
        c2 = self.add(("deepcopy", x), ("inst", cid))
        mark = len(self.ops)
        v = self.value_for(a, False) if self.rng.random() < 0.9 else self.rng.choice([UNCHANGED, MISSING])
        self.add(("setattr", c1, a["aid"], v), ("none",))
        op = ("helper", c2, ("with", a["aid"]), {"inplace": True, "if_": True, "pos": [v]})
        op2 = self.clone_call(op, mark, c2)
        r = self.add(op2, ("inst", cid))     # c2 itself when the call succeeds
        for b in self.attrs_of(cid):
            self.add(("same", c1, r, b["aid"]), None)
        self.end_group(g)


def gen_history(rng, table, nd, n_ops, rel_rate=0.2):
    h = Hist5(rng, table, nd)
    cid0 = rng.choice([2, 2, 3, 1])
    h.construct(cid0)
    for _ in range(n_ops):
        insts = h.roots_of(lambda k: k is not None and k[0] == "inst")
        r = rng.random()
        if r < 0.08 or not insts:
            h.construct(rng.choice([1, 2, 2, 3]))
            continue
        x = rng.choice(insts[-4:])
        cid = h.kinds[x][1]
        if r < 0.08 + rel_rate / 2:
            h.rel_copy_vs_inplace(x, cid)
        elif r < 0.08 + rel_rate:
            h.rel_setattr_vs_with(x, cid)
        elif r < 0.08 + rel_rate + 0.10:
            a = rng.choice(h.attrs_of(cid))
            v = h.value_for(a, False) if rng.random() < 0.9 else rng.choice([UNCHANGED, MISSING])
            h.add(("setattr", x, a["aid"], v), ("none",))
        elif r < 0.08 + rel_rate + 0.16:
            a = rng.choice(h.attrs_of(cid))
            h.add(("delattr", x, a["aid"]), ("none",))
        else:
            h.add(h.random_call(x, cid), ("inst", cid))
    return h.ops, (h.groups or [])


def sanitize(case):
    """drop operations whose receiver is the (None) result of an operation that raised"""
    for _ in range(12):
        r, err = ic.run_case(case)
        if r is None:
            return case
        failed_roots, n = set(), case["nd"]
        for (op, _), (out, _) in zip(case["ops"], r[1]):
            if op[0] == "same":
                continue
            if out != [0] or op[0] in ("setattr", "delattr"):
                failed_roots.add(n)
            n += 1
        bad = None
        for j, (op, _) in enumerate(case["ops"]):
            if op[0] in ("helper", "setattr", "delattr", "deepcopy") and op[1] in failed_roots:
                bad = j
                break
            if op[0] == "same" and (op[1] in failed_roots or op[2] in failed_roots):
                bad = j
                break
        if bad is None:
            return case
        c2 = drop_op(case, bad)
        if c2 is None:
            return truncate(case, bad)
        case = c2
    return case


def drop_op(case, j):
    """inst_common.drop_op, keeping the relation-group ranges in step"""
    c2 = ic.drop_op(case, j)
    if c2 is None:
        return None
    groups = []
    for a, b in case.get("groups", []):
        if j < a:
            groups.append([a - 1, b - 1])
        elif j < b:
            if b - 1 > a:
                groups.append([a, b - 1])
        else:
            groups.append([a, b])
    c2["groups"] = groups
    return c2


def truncate(case, n):
    return dict(case, ops=case["ops"][:n], groups=[[a, min(b, n)] for a, b in case.get("groups", []) if a < n])


def droppable(case, j):
    """an operation inside a relation group is part of a paired run: only the
    equality oracles themselves may be dropped one at a time"""
    op = case["ops"][j][0]
    if op[0] == "same":
        return True
    for a, b in case.get("groups", []):
        if a <= j < b and any(case["ops"][i][0][0] == "same" for i in range(a, min(b, len(case["ops"])))):
            return False
    return True


def gen_case(rng, n_ops=6, rel_rate=0.2, flavour=None):
    table = ig.gen_table(rng, flavour)
    _, heap0 = ic.resolve_table(table)
    ops, groups = gen_history(rng, table, len(heap0), n_ops, rel_rate)
    return sanitize({"table": table, "ops": ops, "nd": len(heap0), "groups": groups})


# ------------------------------------------------------------------ plain subclasses
def plain_table(rng):
    """K1 leaf; K2 spec class; K4 = plain subclass of K2 overriding defaults by class
    attributes (scalar and mutable); K5 = plain subclass of K4 (second level)"""
    decl = lambda: rng.choice(["plain", "Attr"])
    k1 = {"id": 1, "eager": True, "frozen": False, "key": None, "attrs": [
        {"aid": 1, "ty": INT, "default": V(0), "decl": "plain"}]}
    lst = rng.choice([(("list", [V(1), V(2)]), None), (None, ("list", [V(3)]))])
    k2 = {"id": 2, "eager": rng.random() < 0.5, "frozen": False, "attrs": [
        {"aid": 1, "ty": INT, "default": V(1), "decl": decl(), "prepare": rng.choice([None, None, ("addint", 1)])},
        {"aid": 2, "ty": STR, "default": rng.choice([None, S(7)]), "decl": decl()},
        {"aid": 50, "ty": ("list", INT), "default": lst[0], "factory": lst[1], "decl": "Attr"},
        {"aid": 3, "ty": ("opt", INT), "default": rng.choice([None, NONE]), "decl": "Attr", "inv_by": rng.choice([[], [1]])},
    ]}
    mid = [{"aid": 1, "inherited": True, "override": V(7)}]
    if rng.random() < 0.7:
        mid.append({"aid": 50, "inherited": True, "override": ("list", [V(9), V(0)])})
    if rng.random() < 0.4:
        mid.append({"aid": 2, "inherited": True, "override": S(8)})
    if rng.random() < 0.5:       # the default of the attribute invalidated_by attribute 1 (C05-G2)
        mid.append({"aid": 3, "inherited": True, "override": V(6)})
    k4 = {"id": 4, "base": 2, "kind": "plain", "attrs": mid}
    leaf = []
    if rng.random() < 0.25:
        leaf.append({"aid": 3, "inherited": True, "override": rng.choice([V(5), NONE])})
    if rng.random() < 0.5:
        leaf.append({"aid": 2, "inherited": True, "override": S(0)})
    if rng.random() < 0.3:
        leaf.append({"aid": 1, "inherited": True, "override": V(5)})
    k5 = {"id": 5, "base": 4, "kind": "plain", "attrs": leaf}
    return [k1, k2, k4, k5]


def plain_case(rng, n_ops=6):
    """instances of the plain subclasses (and of the spec class itself): change attributes,
    then reset_<a> (copy / in place) / del / reset() / with_ / update"""
    table = plain_table(rng)
    _, heap0 = ic.resolve_table(table)
    nd = len(heap0)
    ops, n = [], nd
    attrs = table[1]["attrs"]

    def val(a):
        t = a["ty"]
        if t == INT:
            return V(rng.choice([0, 2, 3]))
        if t == STR:
            return S(rng.choice([0, 7, 9]))
        if t == ("opt", INT):
            return rng.choice([NONE, V(4)])
        return None
    cid = rng.choice([4, 5, 5, 4, 2])
    kw = []
    for a in attrs:
        if rng.random() < 0.4:
            if a["ty"][0] == "list":
                ops.append((("alloc", ("list", [V(rng.choice([0, 1, 2])) for _ in range(rng.choice([0, 1, 2]))])), None))
                kw.append((a["aid"], ("root", n)))
                n += 1
            else:
                kw.append((a["aid"], val(a)))
    ops.append((("construct", cid, None, kw), None))
    x = n
    n += 1
    for _ in range(n_ops):
        r = rng.random()
        a = rng.choice(attrs)
        inplace = rng.random() < 0.5
        if r < 0.30:
            h = {"inplace": inplace, "if_": rng.random() > 0.05}
            ops.append((("helper", x, ("reset", a["aid"]), h), None))
            if not inplace:
                x_new = n
            n += 1
            if not inplace and rng.random() < 0.5:
                x = x_new
        elif r < 0.42:
            ops.append((("delattr", x, a["aid"]), None))
            n += 1
        elif r < 0.57:
            ops.append((("helper", x, ("reset_top", None), {"inplace": inplace, "if_": True}), None))
            if not inplace and rng.random() < 0.5:
                x = n
            n += 1
        elif a["ty"][0] == "list":
            ops.append((("alloc", ("list", [V(rng.choice([0, 1, 2]))])), None))
            n += 1
            ops.append((("helper", x, ("with", a["aid"]), {"inplace": inplace, "if_": True, "pos": [("root", n - 1)]}), None))
            if not inplace:
                x = n
            n += 1
        elif r < 0.8:
            ops.append((("helper", x, ("with", a["aid"]), {"inplace": inplace, "if_": True, "pos": [val(a)]}), None))
            if not inplace:
                x = n
            n += 1
        else:
            ops.append((("setattr", x, a["aid"], val(a)), None))
            n += 1
    return sanitize({"table": table, "ops": ops, "nd": nd, "groups": []})


# ------------------------------------------------------------------ invalidation chains
# Tables whose `invalidated_by` declarations form CHAINS (a -> b -> c, longer ones, diamonds,
# cycles, '*' in the middle) and histories that reach the states in which a chain matters:
# an attribute in the middle of the chain has no default and holds nothing (never assigned,
# or reset just before) while the attributes further along hold non-default values; then the
# head (or any other attribute) is changed by every scalar / top-level helper, assignment and
# deletion, copy-on-write and in place.  The documented state afterwards has EVERY attribute
# that depends on the changed one, directly or through the chain, back at its default --
# whether or not the attributes in between held anything.  (`inst_gen.gen_table` has one
# dependant of attribute 1 and nothing depending on that dependant.)
HEAD, MID, END, TAIL, MID2, BY, COLL, SUB = 1, 3, 5, 6, 7, 2, 50, 8


def chain_table(rng):
    decl = lambda: rng.choice(["plain", "Attr", "field"])
    frozen = rng.random() < 0.1
    k1 = {"id": 1, "eager": True, "frozen": False, "key": None, "attrs": [
        {"aid": 1, "ty": INT, "default": V(0), "decl": "plain"}]}
    shape = rng.choice(["chain", "chain", "chain3", "chain3", "diamond", "cycle", "star", "fork"])
    inv = {HEAD: [], MID: [HEAD], END: [MID], TAIL: [], MID2: None, BY: [], COLL: None}
    if shape == "chain3":
        inv[TAIL] = [END]
    elif shape == "diamond":
        inv[MID2] = [HEAD]
        inv[END] = [MID, MID2] if rng.random() < 0.5 else [MID2]
        inv[TAIL] = rng.choice([[], [MID]])
    elif shape == "cycle":
        inv[HEAD] = rng.choice([[END], [TAIL]])
        inv[TAIL] = [END]
    elif shape == "star":
        inv[MID] = [99]
        inv[TAIL] = rng.choice([[], [END]])
    elif shape == "fork":
        inv[TAIL] = [MID]
        inv[MID] = rng.choice([[HEAD], [HEAD, BY]])
    if rng.random() < 0.35:
        inv[COLL] = [rng.choice([MID, END])]
    mid_default = None if rng.random() < 0.85 else NONE
    attrs = [
        {"aid": HEAD, "ty": INT, "default": rng.choice([None, V(3), V(3)]), "decl": decl(),
         "prepare": rng.choice([None, None, None, ("id",), ("addint", 1)]), "inv_by": inv[HEAD]},
        {"aid": BY, "ty": STR, "default": rng.choice([None, S(7), S(7)]), "decl": decl(), "inv_by": inv[BY]},
        {"aid": MID, "ty": ("opt", INT), "default": mid_default, "decl": "Attr", "inv_by": inv[MID]},
        {"aid": END, "ty": INT, "default": rng.choice([None, V(4), V(4), V(0)]), "decl": "Attr",
         "prepare": rng.choice([None, None, None, ("addint", 1)]), "inv_by": inv[END]},
        {"aid": TAIL, "ty": STR, "default": rng.choice([None, S(7), S(0)]), "decl": "Attr" if inv[TAIL] else decl(),
         "inv_by": inv[TAIL]},
    ]
    if inv[MID2] is not None:
        attrs.append({"aid": MID2, "ty": ("opt", INT), "default": None, "decl": "Attr", "inv_by": inv[MID2]})
    if inv[COLL] is not None:
        d, f = rng.choice([(("list", [V(1), V(2)]), None), (None, ("list", [])), (None, ("list", [V(3)])), (None, None)])
        attrs.append({"aid": COLL, "ty": ("list", INT), "default": d, "factory": f, "decl": "Attr", "inv_by": inv[COLL]})
    if rng.random() < 0.5:       # the declaration order is the order in which the model resets
        head, rest = attrs[:1], attrs[1:]
        rng.shuffle(rest)
        attrs = head + rest if rng.random() < 0.5 else rest + head
    k2 = {"id": 2, "eager": rng.random() < 0.5, "frozen": frozen, "attrs": attrs, "post_copy": None}
    sub = []
    if rng.random() < 0.4:       # the spec subclass re-defaults the end of the chain
        sub.append({"aid": END, "inherited": True, "override": V(9)})
    if rng.random() < 0.5:       # ... and declares a further dependant of an inherited attribute
        sub.append({"aid": SUB, "ty": INT, "default": rng.choice([None, V(1), V(1)]), "decl": "Attr",
                    "inv_by": [rng.choice([END, MID, TAIL])]})
    k3 = {"id": 3, "base": 2, "eager": rng.random() < 0.5, "frozen": frozen, "frozen_inherited": True, "attrs": sub}
    # PLAIN (undecorated) subclasses, one (K4, of K2 or of the spec subclass K3) and two (K5, of K4)
    # levels deep, whose class attributes override only the DEFAULT of attributes that are
    # invalidated_by others: the dependant, the middle / end / tail of the chain, the List
    # dependant, the subclass's further dependant.  They share the spec class's metadata, so the
    # overridden attribute is still reset -- to the overriding default -- when what it depends
    # on changes (C05-G2: it dropped out of the plain subclass's invalidation map).
    k4_base = rng.choice([2, 2, 3])
    cands = [a for a in attrs if a.get("inv_by")] + ([a for a in sub if a.get("inv_by")] if k4_base == 3 else [])

    def override_of(a, salt):
        t = a["ty"]
        if t == INT:
            return V(8 + salt)
        if t == STR:
            return S(8 + salt)
        if t == ("opt", INT):
            return rng.choice([V(6 + salt), V(6 + salt), NONE])
        return ("list", [V(9), V(salt)])
    picked = [a for a in cands if rng.random() < 0.5] or [rng.choice(cands)]
    ov4 = [{"aid": a["aid"], "inherited": True, "override": override_of(a, 0)} for a in picked]
    if rng.random() < 0.25:      # ... and sometimes the default of the head as well
        ov4.append({"aid": HEAD, "inherited": True, "override": V(5)})
    rng.shuffle(ov4)
    k4 = {"id": 4, "base": k4_base, "kind": "plain", "frozen": frozen, "frozen_inherited": True, "attrs": ov4}
    # second level: inherits K4's overrides, overrides some again / some others
    ov5 = [{"aid": a["aid"], "inherited": True, "override": override_of(a, 1)} for a in cands if rng.random() < 0.25]
    k5 = {"id": 5, "base": 4, "kind": "plain", "frozen": frozen, "frozen_inherited": True, "attrs": ov5}
    return [k1, k2, k3, k4, k5]


class HistChain(Hist5):
    def attrs_of(self, cid):
        """managed attributes of any class of the table: those declared along the chain of bases
        (plain subclasses declare none)"""
        by_id = {c["id"]: c for c in self.table}
        chain, k = [], by_id[cid]
        while k is not None:
            chain.append(k)
            k = by_id.get(k.get("base"))
        out = []
        for k in reversed(chain):
            out += [a for a in k["attrs"] if not a.get("inherited")]
        return out


def overridden_along(table, cid):
    """attributes whose default is overridden by a class attribute of `cid` or of one of its bases"""
    by_id = {c["id"]: c for c in table}
    out, k = set(), by_id[cid]
    while k is not None:
        out |= {a["aid"] for a in k["attrs"] if "override" in a}
        k = by_id.get(k.get("base"))
    return out


def _topo(attrs):
    """attributes ordered so that an attribute comes after the attributes it is invalidated by
    (cycles: broken at the attribute met again)"""
    by = {a["aid"]: a for a in attrs}
    out, seen = [], set()

    def visit(a, path):
        if a["aid"] in seen or a["aid"] in path:
            return
        for x in a.get("inv_by") or []:
            for b in (attrs if x == 99 else [by[x]] if x in by else []):
                if b is not a:
                    visit(b, path | {a["aid"]})
        if a["aid"] not in seen:
            seen.add(a["aid"])
            out.append(a)
    for a in attrs:
        visit(a, frozenset())
    return out


def chain_case(rng, rounds=2):
    table = chain_table(rng)
    _, heap0 = ic.resolve_table(table)
    h = HistChain(rng, table, len(heap0))
    frozen = table[1]["frozen"]
    cid = rng.choice([2, 3, 4, 4, 5, 5])
    attrs = h.attrs_of(cid)
    by = {a["aid"]: a for a in attrs}
    no_default = lambda a: a.get("default") is None and a.get("factory") is None and "override" not in a
    sub_over = overridden_along(table, cid)
    empties = [a for a in attrs if a.get("inv_by") and no_default(a) and a["aid"] not in sub_over
               and a["ty"] == ("opt", INT)]          # the attributes left empty in the middle of a chain
    empty_ids = {a["aid"] for a in empties}
    assigned_mid = rng.random() < 0.3                # ... assigned at first and reset before the change
    kw = []
    for a in attrs:
        if a["aid"] in empty_ids:
            if assigned_mid:
                kw.append((a["aid"], V(rng.choice([1, 2]))))
        elif not a.get("inv_by") and rng.random() < (0.8 if no_default(a) else 0.4):
            kw.append((a["aid"], h.value_for(a, False)))
    rng.shuffle(kw)
    x = h.add(("construct", cid, None, kw), ("inst", cid))

    def flags(inplace=None):
        f = {"inplace": (rng.random() < 0.5) if inplace is None else inplace, "if_": True}
        if frozen:
            f["inplace"] = False
        return f

    def step(op, f):
        """issue a helper call; a copy-on-write call moves on to its result (mostly)"""
        nonlocal x
        r = h.add(op, ("inst", cid))
        if not f["inplace"] and rng.random() < 0.8:
            x = r

    def assign(a):
        """a non-default value for attribute a, by one of the writing forms"""
        v = h.value_for(a, False)
        if a["ty"] == INT:
            v = V(rng.choice([11, 12, 13]))
        elif a["ty"] == STR:
            v = S(rng.choice([8, 9]))
        elif a["ty"] == ("opt", INT):
            v = V(rng.choice([11, 12]))
        r = rng.random()
        f = flags()
        if r < 0.25 and not frozen:
            h.add(("setattr", x, a["aid"], v), ("none",))
        elif r < 0.75:
            step(("helper", x, ("with", a["aid"]), dict(f, pos=[v])), f)
        else:
            step(("helper", x, ("update_top", None), dict(f, kw=[(a["aid"], v)])), f)

    def empty_out(a):
        f = flags()
        if rng.random() < 0.3 and not frozen:
            h.add(("delattr", x, a["aid"]), ("none",))
        else:
            step(("helper", x, ("reset", a["aid"]), f), f)

    def change(a):
        """change attribute a by one of the forms of the property: with_/update_/transform_/reset_<a>,
        update/transform with the attribute among the keywords, reset(), obj.a = v, del obj.a"""
        form = rng.choice(["with", "update", "transform", "reset", "update_top", "transform_top", "reset_top",
                           "setattr", "delattr", "pair", "pair"])
        if frozen and form in ("setattr", "delattr"):
            form = "with"
        if a["ty"][0] == "list" and form in ("update",):
            form = "with"
        f = flags()
        if form in ("with", "update", "transform", "reset"):
            op = h.scalar_call(x, cid, a, form, f["inplace"])
            op[3]["if_"] = True if rng.random() < 0.9 else op[3]["if_"]
            step(op, op[3])
        elif form == "update_top":
            others = [b for b in attrs if b["aid"] != a["aid"] and not b.get("inv_by") and b["aid"] not in empty_ids]
            kws = [(a["aid"], h.value_for(a, False))]
            for b in rng.sample(others, min(len(others), rng.choice([0, 0, 1]))):
                kws.append((b["aid"], h.value_for(b, False)))
            rng.shuffle(kws)
            step(("helper", x, ("update_top", None), dict(f, kw=kws)), f)
        elif form == "transform_top":
            kwfn = [(a["aid"], h.pure_fn(a["ty"]))]
            if rng.random() < 0.3:      # ... and a transform of a dependant, which sees the value after the reset
                deps = [b for b in attrs if b.get("inv_by") and b["aid"] != a["aid"] and b["ty"] == INT]
                if deps:
                    kwfn.append((rng.choice(deps)["aid"], rng.choice([("id",), ("addint", 1)])))
            step(("helper", x, ("transform_top", None), dict(f, kwfn=kwfn)), f)
        elif form == "reset_top":
            step(("helper", x, ("reset_top", None), f), f)
        elif form == "setattr":
            h.add(("setattr", x, a["aid"], h.value_for(a, False)), ("none",))
        elif form == "delattr":
            h.add(("delattr", x, a["aid"]), ("none",))
        else:                           # copy-on-write run vs in-place run on a clone
            kind = rng.choice(["with", "update", "transform", "reset", "update_top"])
            if a["ty"][0] == "list" and kind == "update":
                kind = "with"
            if frozen:
                return change(a)
            if kind == "update_top":
                op = ("helper", x, ("update_top", None), {"inplace": False, "if_": True, "kw": [(a["aid"], h.value_for(a, False))]})
            else:
                op = h.scalar_call(x, cid, a, kind, False)
            h.rel_copy_vs_inplace(x, cid, op=op)

    order = _topo(attrs)
    for rnd in range(rounds):
        if (assigned_mid and rnd == 0) or (rnd > 0 and rng.random() < 0.3):
            # fill the middle and empty it again: what depends on it is assigned afterwards
            for a in empties:
                if rnd > 0:
                    assign(a)
                empty_out(a)
        for a in order:                 # upstream first: a later assignment resets what depends on it
            if a.get("inv_by") and a["aid"] not in empty_ids and rng.random() < 0.85:
                assign(a)
        if empties and not frozen and rng.random() < 0.35:
            # a REJECTED call in between: reset_<a>(_inplace=True) / del obj.a on an attribute without
            # default that holds nothing is an AttributeError -- and, like every call that raises,
            # leaves the receiver (here: the non-default values of what depends on a) as it was
            # (C05-G1 reset the dependants before raising; judged by Corr/SpecCorr.judge)
            a = rng.choice(empties)
            if rng.random() < 0.5:
                h.add(("delattr", x, a["aid"]), ("none",))
            else:
                h.add(("helper", x, ("reset", a["aid"]), {"inplace": True, "if_": True}), ("inst", cid))
        heads = [a for a in attrs if not a.get("inv_by")] or attrs
        r = rng.random()
        if r < 0.7:
            a = by[HEAD]
        elif r < 0.85:
            a = rng.choice(heads)
        else:
            a = rng.choice(attrs)
        change(a)
    ops, groups = h.ops, (h.groups or [])
    return sanitize({"table": table, "ops": ops, "nd": len(heap0), "groups": groups})
