"""Generators of the C05 check: histories of scalar / top-level helper calls,
assignments and deletions with conforming values and pure transforms, every
call form, every flag combination, and the paired relations (copy-run vs
in-place-run on a clone; obj.a = v vs obj.with_a(v, _inplace=True))."""
import inst_common as ic
import inst_gen as ig
from inst_gen import EMPTY, INT, MISSING, NONE, STR, UNCHANGED, S, V

FLAGS = [(False, True), (True, True), (False, False), (True, False)]   # (_inplace, _if)


class Hist5(ig.Hist):
    groups = None    # [start, end) op-index ranges of paired relation runs (kept intact by the shrinker)

    def begin_group(self):
        if self.groups is None:
            self.groups = []
        return len(self.ops)

    def end_group(self, start):
        self.groups.append([start, len(self.ops)])

    def flags(self, inplace=None):
        r = self.rng.random()
        inp, if_ = FLAGS[0] if r < 0.45 else FLAGS[1] if r < 0.85 else FLAGS[2] if r < 0.93 else FLAGS[3]
        if inplace is not None:
            inp = inplace
        return {"inplace": inp, "if_": if_}

    def pure_fn(self, t):
        rng = self.rng
        if t in (INT, ("opt", INT)):
            return rng.choice([("addint", 1), ("addint", -2), ("id",), ("const", V(7)), ("const", V(0))])
        if t == STR:
            return rng.choice([("id",), ("const", S(8)), ("const", S(0))])
        if t == ("list", INT):
            return rng.choice([("appended", V(4)), ("newlist", [V(1), V(2)]), ("newlist", []), ("id",)])
        if t == ("dict", STR, INT):
            return rng.choice([("dictof", 7, V(1)), ("id",)])
        return ("id",)

    def nested_kw(self, sentinel_rate=0.15):
        kw = self.k1_kw(False)
        if self.rng.random() < sentinel_rate:
            kw = [p for p in kw if p[0] != 3] + [(3, self.rng.choice([MISSING, UNCHANGED]))]
        seen, out = set(), []
        for a, v in kw:          # a Python call cannot repeat a keyword
            if a not in seen:
                seen.add(a)
                out.append((a, v))
        return out

    # ---- one scalar-helper call in a documented call form
    def scalar_call(self, x, cid, a, kind, inplace=None):
        rng = self.rng
        t, aid = a["ty"], a["aid"]
        h = self.flags(inplace)
        if kind == "with":
            r = rng.random()
            if r < 0.08:
                h["pos"] = [rng.choice([MISSING, UNCHANGED, EMPTY])]
            elif r < 0.14:
                h["pos"] = []
            else:
                h["pos"] = [self.value_for(a, False)]
            if t == ("spec", 1) and rng.random() < 0.45:
                if rng.random() < 0.5:
                    h["pos"] = []
                h["kw"] = self.nested_kw()
        elif kind == "update":
            if t == ("spec", 1):
                h["pos"] = [] if rng.random() < 0.65 else [rng.choice([self.value_for(a, False), UNCHANGED])]
                h["kw"] = self.nested_kw() if rng.random() < 0.85 else None
            else:
                h["pos"] = [self.value_for(a, False) if rng.random() < 0.88 else rng.choice([UNCHANGED, MISSING])]
        elif kind == "transform":
            if t == ("spec", 1) and rng.random() < 0.6:
                h["kwfn"] = [(1, self.pure_fn(INT))]
                if rng.random() < 0.3:
                    h["fn"] = ("id",)
            else:
                h["fn"] = self.pure_fn(t)
        return ("helper", x, (kind, aid), h)

    def top_call(self, x, cid, kind, inplace=None):
        rng = self.rng
        h = self.flags(inplace)
        attrs = self.attrs_of(cid)
        if kind == "update_top":
            kw = []
            for a in rng.sample(attrs, rng.choice([0, 1, 1, 2, 3])):
                v = self.value_for(a, False)
                if rng.random() < 0.12:
                    v = rng.choice([MISSING, UNCHANGED])
                kw.append((a["aid"], v))
            h["kw"] = kw
            if rng.random() < 0.06:
                h["pos"] = [rng.choice([MISSING, UNCHANGED])]
        elif kind == "transform_top":
            kwfn = []
            for a in rng.sample(attrs, rng.choice([0, 1, 1, 2])):
                if a["ty"][0] == "set" or (a["ty"][-1] == ("spec", 1) and a["ty"][0] != "spec"):
                    continue
                kwfn.append((a["aid"], self.pure_fn(a["ty"])))
            if not kwfn or rng.random() < 0.2:
                h["fn"] = ("id",)
            h["kwfn"] = kwfn
        return ("helper", x, (kind, None), h)

    def random_call(self, x, cid, inplace=None):
        rng = self.rng
        r = rng.random()
        if r < 0.62:
            attrs = self.attrs_of(cid)
            nested = [a for a in attrs if a["ty"] == ("spec", 1)]
            a = rng.choice(nested) if nested and rng.random() < 0.25 else rng.choice(attrs)
            kind = rng.choice(["with", "with", "update", "transform", "reset"])
            return self.scalar_call(x, cid, a, kind, inplace)
        dep = [a for a in self.attrs_of(cid) if a.get("inv_by")]
        if dep and rng.random() < 0.25:
            return self.dependant_transform(x, cid, dep[0], inplace)
        return self.top_call(x, cid, rng.choice(["update_top", "transform_top", "reset_top"]), inplace)

    def dependant_transform(self, x, cid, dep, inplace=None):
        """transform(x=f, dependant=g) with `dependant` invalidated_by x and holding a non-default
        value: g must see the dependant AFTER the invalidation caused by storing f(x)"""
        rng = self.rng
        self.add(("setattr", x, dep["aid"], V(rng.choice([1, 2]))), ("none",))
        h = self.flags(inplace)
        h["if_"] = True
        h["kwfn"] = [(1, rng.choice([("addint", 1), ("const", V(7))])), (dep["aid"], rng.choice([("id",), ("id",), ("const", V(0))]))]
        if rng.random() < 0.3:
            h["fn"] = ("id",)
        return ("helper", x, ("transform_top", None), h)

    # ---- relations
    def rel_copy_vs_inplace(self, x, cid):
        """y = x.h(args); c = deepcopy(x); c.h(args, _inplace=True); y and c agree on every attribute"""
        op = self.random_call(x, cid, inplace=False)
        op[3]["if_"] = True
        g = self.begin_group()
        mark = len(self.ops)
        y = self.add(op, ("inst", cid))
        # arguments must be built afresh for the second run: re-issue the allocations made for the first
        c = self.add(("deepcopy", x), ("inst", cid))
        op2 = self.clone_call(op, mark, c)
        op2[3]["inplace"] = True
        r = self.add(op2, ("inst", cid))     # the receiver itself when the call succeeds
        for a in self.attrs_of(cid):
            self.add(("same", y, r, a["aid"]), None)
        self.end_group(g)

    def clone_call(self, op, mark, recv):
        """the same call with freshly allocated copies of the argument objects created since `mark`"""
        created = {}    # old root -> new root

        def fresh(v):
            if isinstance(v, tuple) and len(v) == 2 and v[0] == "root":
                if v[1] in created:
                    return ("root", created[v[1]])
                src = self.op_creating(v[1])
                if src is None or self.root_index_of_op(src) is None:
                    return v
                o = self.ops[src][0]
                if o[0] == "alloc":
                    new = ("alloc", (o[1][0], [(fresh(p[0]), fresh(p[1])) for p in o[1][1]] if o[1][0] == "dict"
                                     else [fresh(e) for e in o[1][1]]))
                elif o[0] == "construct":
                    new = ("construct", o[1], fresh(o[2]) if o[2] is not None else None, [(k, fresh(w)) for k, w in o[3]])
                else:
                    return v
                r = self.add(new, self.kinds[v[1]])
                created[v[1]] = r
                return ("root", r)
            return v
        h = dict(op[3])
        if "pos" in h:
            h["pos"] = [fresh(v) for v in h["pos"]]
        if h.get("kw") is not None:
            h["kw"] = [(k, fresh(v)) for k, v in h["kw"]]
        return ("helper", recv, op[2], h)

    def op_creating(self, root):
        n = self.nd
        for i, (op, _) in enumerate(self.ops):
            if op[0] == "same":
                continue
            if n == root:
                return i
            n += 1
        return None

    def root_index_of_op(self, i):
        return 0 if self.ops[i][0][0] != "same" else None

    def rel_setattr_vs_with(self, x, cid):
        """c1 = deepcopy(x); c2 = deepcopy(x); c1.a = v; c2.with_a(v, _inplace=True); c1 and c2 agree"""
        a = self.rng.choice(self.attrs_of(cid))
        g = self.begin_group()
        c1 = self.add(("deepcopy", x), ("inst", cid))
        c2 = self.add(("deepcopy", x), ("inst", cid))
        mark = len(self.ops)
        v = self.value_for(a, False) if self.rng.random() < 0.9 else self.rng.choice([UNCHANGED, MISSING])
        self.add(("setattr", c1, a["aid"], v), ("none",))
        op = ("helper", c2, ("with", a["aid"]), {"inplace": True, "if_": True, "pos": [v]})
        op2 = self.clone_call(op, mark, c2)
        r = self.add(op2, ("inst", cid))     # c2 itself when the call succeeds
        for b in self.attrs_of(cid):
            self.add(("same", c1, r, b["aid"]), None)
        self.end_group(g)


def gen_history(rng, table, nd, n_ops, rel_rate=0.2):
    h = Hist5(rng, table, nd)
    cid0 = rng.choice([2, 2, 3, 1])
    h.construct(cid0)
    for _ in range(n_ops):
        insts = h.roots_of(lambda k: k is not None and k[0] == "inst")
        r = rng.random()
        if r < 0.08 or not insts:
            h.construct(rng.choice([1, 2, 2, 3]))
            continue
        x = rng.choice(insts[-4:])
        cid = h.kinds[x][1]
        if r < 0.08 + rel_rate / 2:
            h.rel_copy_vs_inplace(x, cid)
        elif r < 0.08 + rel_rate:
            h.rel_setattr_vs_with(x, cid)
        elif r < 0.08 + rel_rate + 0.10:
            a = rng.choice(h.attrs_of(cid))
            v = h.value_for(a, False) if rng.random() < 0.9 else rng.choice([UNCHANGED, MISSING])
            h.add(("setattr", x, a["aid"], v), ("none",))
        elif r < 0.08 + rel_rate + 0.16:
            a = rng.choice(h.attrs_of(cid))
            h.add(("delattr", x, a["aid"]), ("none",))
        else:
            h.add(h.random_call(x, cid), ("inst", cid))
    return h.ops, (h.groups or [])


def sanitize(case):
    """drop operations whose receiver is the (None) result of an operation that raised"""
    for _ in range(12):
        r, err = ic.run_case(case)
        if r is None:
            return case
        failed_roots, n = set(), case["nd"]
        for (op, _), (out, _) in zip(case["ops"], r[1]):
            if op[0] == "same":
                continue
            if out != [0] or op[0] in ("setattr", "delattr"):
                failed_roots.add(n)
            n += 1
        bad = None
        for j, (op, _) in enumerate(case["ops"]):
            if op[0] in ("helper", "setattr", "delattr", "deepcopy") and op[1] in failed_roots:
                bad = j
                break
            if op[0] == "same" and (op[1] in failed_roots or op[2] in failed_roots):
                bad = j
                break
        if bad is None:
            return case
        c2 = drop_op(case, bad)
        if c2 is None:
            return truncate(case, bad)
        case = c2
    return case


def drop_op(case, j):
    """inst_common.drop_op, keeping the relation-group ranges in step"""
    c2 = ic.drop_op(case, j)
    if c2 is None:
        return None
    groups = []
    for a, b in case.get("groups", []):
        if j < a:
            groups.append([a - 1, b - 1])
        elif j < b:
            if b - 1 > a:
                groups.append([a, b - 1])
        else:
            groups.append([a, b])
    c2["groups"] = groups
    return c2


def truncate(case, n):
    return dict(case, ops=case["ops"][:n], groups=[[a, min(b, n)] for a, b in case.get("groups", []) if a < n])


def droppable(case, j):
    """an operation inside a relation group is part of a paired run: only the
    equality oracles themselves may be dropped one at a time"""
    op = case["ops"][j][0]
    if op[0] == "same":
        return True
    for a, b in case.get("groups", []):
        if a <= j < b and any(case["ops"][i][0][0] == "same" for i in range(a, min(b, len(case["ops"])))):
            return False
    return True


def gen_case(rng, n_ops=6, rel_rate=0.2, flavour=None):
    table = ig.gen_table(rng, flavour)
    _, heap0 = ic.resolve_table(table)
    ops, groups = gen_history(rng, table, len(heap0), n_ops, rel_rate)
    return sanitize({"table": table, "ops": ops, "nd": len(heap0), "groups": groups})


# ------------------------------------------------------------------ plain subclasses
def plain_table(rng):
    """K1 leaf; K2 spec class; K4 = plain subclass of K2 overriding defaults by class
    attributes (scalar and mutable); K5 = plain subclass of K4 (second level)"""
    decl = lambda: rng.choice(["plain", "Attr"])
    k1 = {"id": 1, "eager": True, "frozen": False, "key": None, "attrs": [
        {"aid": 1, "ty": INT, "default": V(0), "decl": "plain"}]}
    lst = rng.choice([(("list", [V(1), V(2)]), None), (None, ("list", [V(3)]))])
    k2 = {"id": 2, "eager": rng.random() < 0.5, "frozen": False, "attrs": [
        {"aid": 1, "ty": INT, "default": V(1), "decl": decl(), "prepare": rng.choice([None, None, ("addint", 1)])},
        {"aid": 2, "ty": STR, "default": rng.choice([None, S(7)]), "decl": decl()},
        {"aid": 50, "ty": ("list", INT), "default": lst[0], "factory": lst[1], "decl": "Attr"},
        {"aid": 3, "ty": ("opt", INT), "default": rng.choice([None, NONE]), "decl": "Attr", "inv_by": rng.choice([[], [1]])},
    ]}
    mid = [{"aid": 1, "inherited": True, "override": V(7)}]
    if rng.random() < 0.7:
        mid.append({"aid": 50, "inherited": True, "override": ("list", [V(9), V(0)])})
    if rng.random() < 0.4:
        mid.append({"aid": 2, "inherited": True, "override": S(8)})
    k4 = {"id": 4, "base": 2, "kind": "plain", "attrs": mid}
    leaf = []
    if rng.random() < 0.5:
        leaf.append({"aid": 2, "inherited": True, "override": S(0)})
    if rng.random() < 0.3:
        leaf.append({"aid": 1, "inherited": True, "override": V(5)})
    k5 = {"id": 5, "base": 4, "kind": "plain", "attrs": leaf}
    return [k1, k2, k4, k5]


def plain_case(rng, n_ops=6):
    """instances of the plain subclasses (and of the spec class itself): change attributes,
    then reset_<a> (copy / in place) / del / reset() / with_ / update"""
    table = plain_table(rng)
    _, heap0 = ic.resolve_table(table)
    nd = len(heap0)
    ops, n = [], nd
    attrs = table[1]["attrs"]

    def val(a):
        t = a["ty"]
        if t == INT:
            return V(rng.choice([0, 2, 3]))
        if t == STR:
            return S(rng.choice([0, 7, 9]))
        if t == ("opt", INT):
            return rng.choice([NONE, V(4)])
        return None
    cid = rng.choice([4, 5, 5, 4, 2])
    kw = []
    for a in attrs:
        if rng.random() < 0.4:
            if a["ty"][0] == "list":
                ops.append((("alloc", ("list", [V(rng.choice([0, 1, 2])) for _ in range(rng.choice([0, 1, 2]))])), None))
                kw.append((a["aid"], ("root", n)))
                n += 1
            else:
                kw.append((a["aid"], val(a)))
    ops.append((("construct", cid, None, kw), None))
    x = n
    n += 1
    for _ in range(n_ops):
        r = rng.random()
        a = rng.choice(attrs)
        inplace = rng.random() < 0.5
        if r < 0.30:
            h = {"inplace": inplace, "if_": rng.random() > 0.05}
            ops.append((("helper", x, ("reset", a["aid"]), h), None))
            if not inplace:
                x_new = n
            n += 1
            if not inplace and rng.random() < 0.5:
                x = x_new
        elif r < 0.42:
            ops.append((("delattr", x, a["aid"]), None))
            n += 1
        elif r < 0.57:
            ops.append((("helper", x, ("reset_top", None), {"inplace": inplace, "if_": True}), None))
            if not inplace and rng.random() < 0.5:
                x = n
            n += 1
        elif a["ty"][0] == "list":
            ops.append((("alloc", ("list", [V(rng.choice([0, 1, 2]))])), None))
            n += 1
            ops.append((("helper", x, ("with", a["aid"]), {"inplace": inplace, "if_": True, "pos": [("root", n - 1)]}), None))
            if not inplace:
                x = n
            n += 1
        elif r < 0.8:
            ops.append((("helper", x, ("with", a["aid"]), {"inplace": inplace, "if_": True, "pos": [val(a)]}), None))
            if not inplace:
                x = n
            n += 1
        else:
            ops.append((("setattr", x, a["aid"], val(a)), None))
            n += 1
    return sanitize({"table": table, "ops": ops, "nd": nd, "groups": []})
