"""C06, KeyedSet-typed attributes of keyed spec elements (outside the Coq instance model):
implementation-level probe.  Element helpers on `ks: KeyedSet[K, str]` are compared, after
every call of a generated chain, with a plain Python dict {key: (key, v, w)} edited by the
plain operation the property text names: add = assign under the element's key; update /
transform = take the STORED element under the addressed key, edit it, remove the addressed
entry and assign the result under its key; remove = delete the addressed key.  The element
is addressed by a bare key, by an element object equal to the stored one, or by an element
object that is only key-equal (its other attributes differ from the stored element's): all
three denote the element stored under that key.  A missing target must raise IndexError,
KeyError or ValueError and change nothing.  Also observed: what a transform / an attribute
transform is handed (the stored element / its attribute), that the caller's objects (probe
element, replacement element) are left alone, that a copy-on-write call leaves the receiver
alone and an in-place call returns it, and that lookup by key, membership and len agree
with the content.  Order is not compared (set semantics)."""

KEYS = ["a", "b", "c", ""]
_CACHE = {}


def build(prep=False):
    if prep in _CACHE:
        return _CACHE[prep]
    from spec_classes import spec_class
    from spec_classes.types import KeyedSet

    @spec_class(key="key")
    class K:
        key: str
        v: int = 1
        w: str = "w"

    if prep:
        @spec_class
        class S:
            ks: KeyedSet[K, str]

            def _prepare_k(self, k):
                return k
    else:
        @spec_class
        class S:
            ks: KeyedSet[K, str]
    _CACHE[prep] = (K, S)
    return K, S


def rec(e):
    return (e.key, e.v, e.w)


def content(obj):
    ks = getattr(obj, "ks", None)
    return sorted(rec(e) for e in ks) if ks is not None else None


# ---- named functions (replayable from JSON)
def make_fn(K, name, seen):
    if name is None:
        return None
    if name == "id":
        def f(e):
            seen.append(("elem", rec(e)))
            return e
    elif name == "bump":
        def f(e):
            seen.append(("elem", rec(e)))
            return e.with_v(e.v + 1)
    elif name == "fresh":          # a new element under the same key built from what it was given
        def f(e):
            seen.append(("elem", rec(e)))
            return K(e.key, v=e.v + 10, w=e.w + "f")
    elif name.startswith("rekey:"):
        def f(e):
            seen.append(("elem", rec(e)))
            return K(name[6:], v=e.v, w=e.w)
    else:
        raise AssertionError(name)
    return f


def ref_fn(name, r):
    if name == "id":
        return r
    if name == "bump":
        return (r[0], r[1] + 1, r[2])
    if name == "fresh":
        return (r[0], r[1] + 10, r[2] + "f")
    if name.startswith("rekey:"):
        return (name[6:], r[1], r[2])
    raise AssertionError(name)


def make_attr_fn(attr, seen):
    if attr == "v":
        def f(x):
            seen.append(("v", x))
            return x + 1
    else:
        def f(x):
            seen.append(("w", x))
            return x + "y"
    return f


def apply_kw(r, kw):
    d = {"key": r[0], "v": r[1], "w": r[2]}
    d.update(kw)
    return (d["key"], d["v"], d["w"])


def target_of(K, model, op, made):
    """the object handed to the helper as the address; `made` collects (object, record) pairs
    of caller-owned objects that must be left alone"""
    key, tform = op["key"], op["tform"]
    if tform == "key":
        return key
    stored = model.get(key)
    if tform == "obj_eq":
        r = stored if stored is not None else (key, 1, "w")
    else:                           # key-equal, other attributes differ from the stored element
        r = (key, (stored[1] if stored is not None else 0) + 100, "probe")
    o = K(r[0], v=r[1], w=r[2])
    made.append((o, r))
    return o


def step(K, obj, model, op):
    """runs one call; returns (res, err, new_model, expect_err, problems) where problems is a list
    of observation mismatches not visible in the content"""
    kw = {"_inplace": True} if op["inplace"] else {}
    kind = op["kind"]
    made, seen, seen_expected = [], [], []
    new_model, expect_err = dict(model), False
    attrs = dict(op.get("kw") or {})
    if kind == "with":
        if op["tform"] == "kwonly":
            call = lambda: obj.with_k(**attrs, **kw)
            base = apply_kw((None, 1, "w"), attrs)
        elif op["tform"] == "key":
            call = lambda: obj.with_k(op["key"], **attrs, **kw)
            base = apply_kw((op["key"], 1, "w"), attrs)
        else:
            r = (op["key"], op.get("ov", 3), op.get("ow", "o"))
            o = K(r[0], v=r[1], w=r[2])
            made.append((o, r))
            call = lambda: obj.with_k(o, **attrs, **kw)
            base = apply_kw(r, attrs)
        new_model[base[0]] = base
    else:
        tgt = target_of(K, model, op, made)
        stored = model.get(op["key"])
        if stored is None:
            expect_err = True
        if kind == "update":
            new = op.get("new")
            args = [tgt]
            base = stored
            if new is not None:
                if new[0] == "obj":
                    r = (new[1], new[2], new[3])
                    o = K(r[0], v=r[1], w=r[2])
                    made.append((o, r))
                    args.append(o)
                    base = r
                else:
                    args.append(new[1])
                    base = (new[1], 1, "w")
            call = lambda: obj.update_k(*args, **attrs, **kw)
            if stored is not None:
                base = apply_kw(base, attrs)
                del new_model[op["key"]]
                new_model[base[0]] = base
        elif kind == "transform":
            f = make_fn(K, op.get("fn"), seen)
            afs = {a: make_attr_fn(a, seen) for a in (op.get("attr_fns") or [])}
            call = (lambda: obj.transform_k(tgt, f, **afs, **kw)) if f is not None else (lambda: obj.transform_k(tgt, **afs, **kw))
            if stored is not None:
                base = stored
                if op.get("fn") is not None:
                    seen_expected.append(("elem", stored))
                    base = ref_fn(op["fn"], base)
                for a in (op.get("attr_fns") or []):
                    if a == "v":
                        seen_expected.append(("v", base[1]))
                        base = (base[0], base[1] + 1, base[2])
                    else:
                        seen_expected.append(("w", base[2]))
                        base = (base[0], base[1], base[2] + "y")
                del new_model[op["key"]]
                new_model[base[0]] = base
        else:
            call = lambda: obj.without_k(tgt, **kw)
            if stored is not None:
                del new_model[op["key"]]
    if op.get("noif"):
        # `_if=False`: nothing happens whatever else is handed over (no lookup, no function called)
        kw["_if"] = False
        new_model, expect_err, seen_expected = dict(model), False, []
    problems = []
    try:
        res, err = call(), None
    except (IndexError, KeyError, ValueError) as e:
        res, err = None, e
    for o, r in made:
        if rec(o) != r:
            problems.append("the caller's element object %r was changed to %r" % (r, rec(o)))
    if err is None and not expect_err and seen != seen_expected:
        problems.append("the transform was handed %r, the stored element gives %r" % (seen, seen_expected))
    return res, err, new_model, expect_err, problems


def run_chain(chain):
    """returns None when everything agrees, else a description of the first disagreement"""
    K, S = build(bool(chain.get("prep")))
    start = [tuple(r) for r in chain["start"]]
    if chain.get("missing") and not start:
        obj = S()
    else:
        obj = S(ks=[K(k, v=v, w=w) for k, v, w in start])
    model = {r[0]: r for r in start}
    for stepno, op in enumerate(chain["ops"]):
        before = content(obj)
        where = {"step": stepno, "op": dict(op), "model_before": sorted(model.values())}
        try:
            res, err, new_model, expect_err, problems = step(K, obj, model, op)
        except Exception as e:     # any other exception class is not a documented outcome
            return dict(where, what="undocumented exception %s: %s" % (type(e).__name__, str(e)[:200]))
        if err is not None:
            if not expect_err:
                return dict(where, what="unexpected %s: %s" % (type(err).__name__, str(err)[:200]))
            if content(obj) != before:
                return dict(where, what="the call raised and changed the container", observed=content(obj))
            if problems:
                return dict(where, what=problems[0])
            continue
        if expect_err:
            return dict(where, what="missing target not reported", observed=content(res))
        if op.get("noif"):
            if content(res) != before or content(obj) != before:
                return dict(where, what="a call with _if=False changed the container", observed=content(res))
            if problems:
                return dict(where, what=problems[0])
            if op["inplace"] and res is not obj:
                return dict(where, what="in-place call did not return the receiver")
            obj = res
            continue
        want = sorted(new_model.values())
        got = content(res)
        if got != want:
            return dict(where, what="content differs from the plain operation on the dict of elements by key",
                        expected=want, observed=got)
        if problems:
            return dict(where, what=problems[0])
        if len(res.ks) != len(want):
            return dict(where, what="len disagrees with the content")
        for r in want:
            if r[0] not in res.ks or rec(res.ks[r[0]]) != r:
                return dict(where, what="lookup by key %r disagrees with the content" % (r[0],))
        if op["inplace"]:
            if res is not obj:
                return dict(where, what="in-place call did not return the receiver")
        else:
            if content(obj) != before:
                return dict(where, what="copy-on-write call changed the receiver", observed=content(obj))
            obj = res
        model = new_model
    return None


# ---- generation
def gen_op(rng, present):
    """present: keys currently expected in the container (targets are biased towards them)"""
    kind = rng.choice(["with", "with", "update", "update", "update", "transform", "transform", "transform", "without"])
    key = rng.choice(present) if present and rng.random() < 0.7 else rng.choice(KEYS + ["q"])
    op = {"kind": kind, "key": key, "inplace": rng.random() < 0.4, "noif": rng.random() < 0.06}
    kws = [{}, {"v": rng.choice([0, 2, 7])}, {"w": rng.choice(["", "x"])}, {"v": 4, "w": "x"}]
    if kind == "with":
        op["tform"] = rng.choice(["key", "key", "obj", "obj", "kwonly"])
        op["kw"] = rng.choice(kws)
        if op["tform"] == "kwonly":
            op["kw"] = dict(op["kw"], key=key)
        if op["tform"] == "obj":
            op["ov"], op["ow"] = rng.choice([0, 3, 9]), rng.choice(["", "o"])
    else:
        op["tform"] = rng.choice(["key", "obj_eq", "obj_diff", "obj_diff"])
        if kind == "update":
            op["kw"] = rng.choice(kws + ([{"key": rng.choice(KEYS)}] if rng.random() < 0.3 else []))
            r = rng.random()
            if r < 0.2:
                op["new"] = ["obj", rng.choice([key, key, rng.choice(KEYS)]), rng.choice([0, 3, 9]), rng.choice(["", "n"])]
            elif r < 0.3:
                op["new"] = ["key", rng.choice([key, rng.choice(KEYS)])]
            else:
                op["new"] = None
                if not op["kw"] and rng.random() < 0.8:
                    op["kw"] = {"w": "x"}
        elif kind == "transform":
            r = rng.random()
            if r < 0.45:
                op["fn"], op["attr_fns"] = rng.choice(["id", "bump", "bump", "fresh", "rekey:" + rng.choice(KEYS)]), []
            elif r < 0.85:
                op["fn"], op["attr_fns"] = None, rng.choice([["v"], ["w"], ["v", "w"]])
            else:
                op["fn"], op["attr_fns"] = rng.choice(["id", "bump"]), rng.choice([["v"], ["w"]])
    return op


def gen_chain(rng, n_ops):
    """the reference is run along (it is plain Python) so that targets can be aimed at present keys"""
    start = [(k, rng.choice([0, 1, 5, 7]), rng.choice(["w", "", "ay", "bee"])) for k in rng.sample(KEYS, rng.choice([0, 1, 2, 2, 3]))]
    chain = {"start": [list(r) for r in start], "ops": [], "prep": rng.random() < 0.3, "missing": rng.random() < 0.5}
    present = [r[0] for r in start]
    for _ in range(n_ops):
        op = gen_op(rng, present)
        chain["ops"].append(op)
        present = _present_after(present, op)
    return chain


def _present_after(present, op):
    """a cheap over-approximation of the keys present after the call (only used to aim targets)"""
    p = list(present)
    if op["kind"] == "with":
        k = (op.get("kw") or {}).get("key", op["key"])
        if k not in p:
            p.append(k)
    elif op["kind"] == "without" and op["key"] in p:
        p.remove(op["key"])
    return p


def aimed():
    """one-call chains on a known content: every helper x every addressing form (bare key,
    equal element, key-equal element with other attributes) x present/absent key x copy / in
    place x attribute with and without an item preparer"""
    start = [["a", 5, "ay"], ["b", 7, "bee"]]
    ops = []
    for key in ("a", "b", "q"):
        for tform in ("key", "obj_eq", "obj_diff"):
            for kw in ({"w": "x"}, {"v": 0}, {}):
                ops.append({"kind": "update", "key": key, "tform": tform, "kw": kw, "new": None})
            ops.append({"kind": "update", "key": key, "tform": tform, "kw": {"v": 2}, "new": ["obj", key, 9, "n"]})
            ops.append({"kind": "update", "key": key, "tform": tform, "kw": {}, "new": ["obj", "c", 9, "n"]})
            ops.append({"kind": "update", "key": key, "tform": tform, "kw": {"w": "x"}, "new": ["key", "c"]})
            ops.append({"kind": "update", "key": key, "tform": tform, "kw": {"key": "c"}, "new": None})
            for fn, afs in (("id", []), ("bump", []), ("fresh", []), ("rekey:c", []), (None, ["v"]), (None, ["w"]),
                            (None, ["v", "w"]), ("bump", ["w"])):
                ops.append({"kind": "transform", "key": key, "tform": tform, "fn": fn, "attr_fns": afs})
            ops.append({"kind": "without", "key": key, "tform": tform})
        for kw in ({}, {"v": 2}):
            ops.append({"kind": "with", "key": key, "tform": "key", "kw": kw})
            ops.append({"kind": "with", "key": key, "tform": "obj", "kw": kw, "ov": 3, "ow": "o"})
            ops.append({"kind": "with", "key": key, "tform": "kwonly", "kw": dict(kw, key=key)})
    chains = []
    for j, op in enumerate(ops):
        for inplace in (False, True):
            chains.append({"start": start, "ops": [dict(op, inplace=inplace)], "prep": j % 3 == 0, "missing": False})
    return chains


def shrink(chain):
    cur = chain
    for n in range(1, len(cur["ops"])):
        c = dict(cur, ops=cur["ops"][:n])
        if run_chain(c) is not None:
            cur = c
            break
    changed = True
    while changed:
        changed = False
        for j in range(len(cur["ops"]) - 1):
            c = dict(cur, ops=cur["ops"][:j] + cur["ops"][j + 1:])
            if run_chain(c) is not None:
                cur, changed = c, True
                break
    return cur


def probe(chk, rng, n_chains, n_ops, extra):
    failing, reported = 0, set()
    chains = aimed()
    n_aimed = len(chains)
    chains += [gen_chain(rng, n_ops) for _ in range(n_chains)]
    hist, calls = {}, 0
    for chain in chains:
        for op in chain["ops"]:
            k = "%s:%s" % (op["kind"], op["tform"])
            hist[k] = hist.get(k, 0) + 1
            calls += 1
        bad = run_chain(chain)
        if bad is None:
            continue
        failing += 1
        small = shrink(chain)
        bad = run_chain(small)
        sig = (bad["op"]["kind"], bad["op"]["tform"], bad["what"][:40])
        if sig in reported:
            continue
        reported.add(sig)
        chk.violation("C06 violated by the implementation (KeyedSet attribute vs plain dict of elements by key): %s" % bad["what"],
                      {"kind": "keyedset-probe", "chain": small, "disagreement": bad,
                       "replay": "bin/check C06 --replay <this file>"},
                      sig={"kind": "keyedset-probe"})
    extra["keyedset_probe"] = {"aimed_chains": n_aimed, "random_chains": n_chains, "operations_per_chain": n_ops,
                               "calls": calls, "addressing_histogram": hist, "failing": failing}
    return failing


def replay(path):
    import json
    r = json.load(open(path))
    bad = run_chain(r["chain"])
    print("replay:", "still failing: %s" % bad if bad else "passes now")
    return 1 if bad else 0
