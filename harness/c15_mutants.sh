#!/bin/bash
# self-test: each mutant of the anchored code must be caught with a concrete replay
set -u
WT=/tmp/wt-c15
run() {
  name=$1; file=$2; old=$3; new=$4
  git -C /repo worktree remove --force $WT 2>/dev/null
  git -C /repo worktree add -q $WT HEAD; cp /repo/spec_classes/_version.py $WT/spec_classes/
  python3 - "$WT/$file" "$old" "$new" <<'PY'
import sys
p, old, new = sys.argv[1:4]
s = open(p).read()
assert s.count(old) >= 1, (old, "not found")
s = s.replace(old, new, 1)
open(p, "w").write(s)
PY
  echo "=== mutant $name"
  (cd /verif && VERIF_REPO=$WT bin/check C15 quick 2>&1 | grep -v conda | tail -8)
  git -C /repo worktree remove --force $WT
}
TC=spec_classes/utils/type_checking.py
VA=spec_classes/types/validated.py
case "${1:-all}" in
 all|m1) run m1-dict-key-unchecked $TC "                    if not check_type(k, attr_type.__args__[0]):
                        return False
" "" ;;&
 all|m2) run m2-gt-as-ge $VA "obj <= gt" "obj < gt" ;;&
 all|m3) run m3-variadic-first-only $TC "                    for item in value:
                        if not check_type(item, attr_type.__args__[0]):
                            return False
                else:" "                    for item in value[:1]:
                        if not check_type(item, attr_type.__args__[0]):
                            return False
                else:" ;;&
 all|m4) run m4-union-all $TC "            return any(check_type(value, type_) for type_ in attr_type.__args__)

        if attr_type.__origin__ in" "            return all(check_type(value, type_) for type_ in attr_type.__args__)

        if attr_type.__origin__ in" ;;&
 all|m5) run m5-no-real $TC "        attr_type = numbers.Real" "        pass" ;;&
 all|m6) run m6-tuple-len $TC "if len(value) != len(attr_type.__args__):" "if len(value) > len(attr_type.__args__):" ;;&
 all|m7) run m7-type-issubclass $TC "if not check_subclass(value, attr_type.__args__[0]):" "if not issubclass(value, attr_type.__args__[0]):" ;;&
 all|m8) run m8-le-exclusive $VA "obj > le" "obj >= le" ;;&
 all|m9) run m9-set-unchecked $TC "if attr_type.__origin__ in (list, set):" "if attr_type.__origin__ in (list,):" ;;&
 all|m10) run m10-literal-identity $TC "return value in attr_type.__args__" "return any(value is a for a in attr_type.__args__)" ;;
esac
