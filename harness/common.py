"""Shared machinery of the checks: Coq build, theorem bookkeeping, evaluation of
generated case files inside Coq, evidence, replay and known-finding handling."""
import hashlib
import json
import os
import random
import re
import subprocess
import sys
import time
from concurrent.futures import ThreadPoolExecutor

VERIF = os.path.dirname(os.path.dirname(os.path.abspath(__file__)))
COQ = os.path.join(VERIF, "coq")
GEN = os.path.join(COQ, "Corr", "gen")
REPO = os.environ.get("VERIF_REPO", "/repo")
JOBS = int(os.environ.get("VERIF_JOBS", "16"))

FORBIDDEN = re.compile(
    r"\b(Admitted|admit|Axiom|Axioms|Parameter|Parameters|Conjecture|Conjectures|Hypothesis|Hypotheses|Variable|Variables|Context)\b"
    r"|Unset\s+Guard|bypass_check|type-in-type|impredicative-set|Unset\s+Universe|Unset\s+Positivity|Admit\s+Obligations"
)
SECTION_ONLY = {"Hypothesis", "Hypotheses", "Variable", "Variables", "Context"}

ERR_CODES = {
    "TypeErr": -1, "ValueErr": -2, "IndexErr": -3, "KeyErr": -4, "AttrErr": -5,
    "FrozenErr": -6, "RuntimeErr": -7, "UserErr": -8, "Injected": -9, "Fuel": -10,
}


def sh(cmd, timeout=1800, cwd=None, env=None):
    try:
        p = subprocess.run(cmd, shell=isinstance(cmd, str), cwd=cwd, env=env, timeout=timeout,
                           stdout=subprocess.PIPE, stderr=subprocess.STDOUT, text=True)
        return p.returncode, p.stdout
    except subprocess.TimeoutExpired as e:
        out = e.stdout if isinstance(e.stdout, str) else (e.stdout or b"").decode("utf8", "replace")
        return 124, out + "\nTIMEOUT"


def strip_comments(src):
    out, depth, i = [], 0, 0
    while i < len(src):
        if src.startswith("(*", i):
            depth += 1
            i += 2
        elif src.startswith("*)", i) and depth:
            depth -= 1
            i += 2
        else:
            if not depth:
                out.append(src[i])
            i += 1
    return "".join(out)


def forbidden_grep():
    """Admitted/admit/Axiom/... anywhere; Variable/Hypothesis/Context outside a Section."""
    hits = []
    for root, _, files in os.walk(COQ):
        if root.startswith(GEN):
            continue
        for f in files:
            if not f.endswith(".v"):
                continue
            path = os.path.join(root, f)
            src = strip_comments(open(path).read())
            depth = 0
            for n, line in enumerate(src.split("\n"), 1):
                if re.match(r"\s*(Section|Module)\b", line):
                    depth += 1
                if re.match(r"\s*End\b", line):
                    depth = max(0, depth - 1)
                for m in FORBIDDEN.finditer(line):
                    w = m.group(0)
                    if w in SECTION_ONLY and depth > 0:
                        continue
                    hits.append(f"{os.path.relpath(path, COQ)}:{n}: {w}")
    return hits


def coq_makefile():
    sh(os.path.join(VERIF, "bin", "coqmk"), timeout=120)


def coq_build(targets=None, timeout=2400):
    """Full (setup) or per-target build; returns (ok, log)."""
    coq_makefile()
    t = " ".join(targets) if targets else ""
    rc, out = sh(f"timeout {timeout} make -j{JOBS} COQC='timeout 1500 coqc' {t}", cwd=COQ, timeout=timeout + 60)
    return rc == 0, out


def theorem_names(src):
    return re.findall(r"^\s*(?:Theorem|Example|Corollary)\s+([A-Za-z0-9_']+)", strip_comments(src), re.M)


def coq_props(pid):
    """Re-compile Props/<pid>.v from scratch and collect Print Assumptions output.
    Returns dict(ok, theorems, assumptions{name: text}, log)."""
    rel = f"Props/{pid}.v"
    src = open(os.path.join(COQ, rel)).read()
    names = theorem_names(src)
    printed = re.findall(r"^Print Assumptions\s+([A-Za-z0-9_']+)\.", src, re.M)
    ok, log = coq_build([f"Props/{pid}.vo"])
    res = {"ok": False, "theorems": names, "assumptions": {}, "log": log, "file": rel}
    if not ok:
        return res
    rc, out = sh(f"timeout 900 coqc -Q . SC {rel}", cwd=COQ, timeout=960)
    res["log"] = out
    if rc != 0:
        return res
    # split Print Assumptions output into blocks
    blocks, cur = [], None
    for line in out.split("\n"):
        if line.startswith("Closed under the global context"):
            blocks.append("Closed under the global context")
            cur = None
        elif line.startswith("Axioms:"):
            cur = ["Axioms:"]
            blocks.append(cur)
        elif cur is not None and line.strip():
            cur.append(line.rstrip())
    blocks = [b if isinstance(b, str) else "\n".join(b) for b in blocks]
    for n, b in zip(printed, blocks):
        res["assumptions"][n] = b
    res["ok"] = len(blocks) == len(printed) and set(printed) >= set(n for n in names)
    if not res["ok"]:
        res["log"] += f"\nPrint Assumptions mismatch: printed={printed} blocks={len(blocks)} theorems={names}"
    return res


def _eval_shard(args):
    path, = args
    rc, out = sh(f"timeout 900 coqc -Q . SC {os.path.relpath(path, COQ)}", cwd=COQ, timeout=960)
    return path, rc, out


def coq_eval(pid, prelude, check_fn, case_terms, shard=300, tag="c", case_type=None):
    """Evaluate `check_fn case` in Coq (vm_compute) for each term; returns
    (list of (index, code) with code != 0, log-of-failed-shards)."""
    # one directory per process: concurrent runs of the same check (e.g. against a
    # scratch tree) must not delete each other's case files
    gen = os.path.join(GEN, f"{pid}_{os.getpid()}")
    os.makedirs(gen, exist_ok=True)
    for f in os.listdir(gen):
        if f.startswith(f"{pid}_{tag}_"):
            os.remove(os.path.join(gen, f))
    paths, offsets = [], []
    for k in range(0, len(case_terms), shard):
        path = os.path.join(gen, f"{pid}_{tag}_{k // shard}.v")
        with open(path, "w") as fh:
            fh.write(prelude + "\n")
            fh.write("Definition cases" + (f" : list ({case_type})" if case_type else "") + " := [\n" + ";\n".join(case_terms[k:k + shard]) + "\n].\n")
            fh.write(f"Definition result := Eval vm_compute in (failing (map {check_fn} cases)).\n")
            fh.write("Set Printing Width 1000000.\nPrint result.\n")
        paths.append(path)
        offsets.append(k)
    bad, logs = [], []
    with ThreadPoolExecutor(max_workers=JOBS) as ex:
        for (path, rc, out), off in zip(ex.map(_eval_shard, [(p,) for p in paths]), offsets):
            if rc != 0:
                logs.append(f"{path}: rc={rc}\n{out[:600]} ... {out[-600:]}")
                continue
            m = re.search(r"result\s*=\s*(.*?)\s*:\s*list", out, re.S)
            if not m:
                logs.append(f"{path}: cannot parse\n{out[-2000:]}")
                continue
            for a, b in re.findall(r"\(\s*(\d+)%?n?a?t?,\s*(\d+)%?n?a?t?\s*\)", m.group(1)):
                bad.append((off + int(a), int(b)))
    import shutil
    if not logs:
        shutil.rmtree(gen, ignore_errors=True)
    return bad, logs


# ---------------------------------------------------------------- Coq term printing
def cz(n):
    return f"({n})" if n < 0 else str(n)


def clist(xs, f=str):
    return "[" + "; ".join(f(x) for x in xs) + "]"


def czlist(xs):
    return clist(xs, cz)


def copt(o, f=str):
    return "None" if o is None else f"(Some {f(o)})"


def cbool(b):
    return "true" if b else "false"


# ---------------------------------------------------------------- reporting
class Check:
    def __init__(self, pid, tier, level="proof"):
        self.pid, self.tier, self.level = pid, tier, level
        self.seed = int(os.environ.get("VERIF_SEED", "0"))
        self.rng = random.Random(self.seed * 1000003 + sum(map(ord, pid)))
        self.t0 = time.time()
        self.violations = []        # (what, replay_path, no_input)
        self.known_seen = []
        self.coverage = {}
        self.assumptions = []
        kf = json.load(open(os.path.join(VERIF, "KNOWN_FINDINGS.json")))
        self.known = [k for k in kf.get("open", []) if k["property"] == pid]

    # -- proof obligations
    def proofs(self, extra_targets=()):
        hits = forbidden_grep()
        props = coq_props(self.pid)
        if extra_targets:
            ok, log = coq_build(list(extra_targets))
            if not ok:
                props["ok"] = False
                props["log"] = log
        obligations = len(props["theorems"])
        discharged = len([t for t in props["theorems"] if t in props["assumptions"]]) if props["ok"] else 0
        axioms = sorted({a for a in props["assumptions"].values() if a != "Closed under the global context"})
        self.coverage.update({
            "obligations": obligations, "discharged": discharged,
            "checker_cmd": f"make -C coq Props/{self.pid}.vo && coqc -Q . SC Props/{self.pid}.v (Print Assumptions under every theorem); forbidden-word scan of coq/",
            "theorems": props["theorems"],
            "print_assumptions": props["assumptions"],
        })
        if self.tier == "thorough" and props["ok"]:
            # independent re-check of the compiled theorems and their dependencies
            rc, out = sh(f"timeout 1500 coqchk -Q . SC -o SC.Props.{self.pid}", cwd=COQ, timeout=1560)
            m = re.search(r"\* Axioms:(.*?)\n\s*\n", out + "\n\n", re.S)
            self.coverage["coqchk"] = {
                "cmd": f"coqchk -Q . SC -o SC.Props.{self.pid}", "ok": rc == 0 and "successfully checked" in out,
                "axioms": (m.group(1).strip() if m else "?"),
            }
            if not self.coverage["coqchk"]["ok"]:
                props["ok"] = False
                props["log"] = "coqchk failed:\n" + out[-2000:]
        self.proof_ok = props["ok"] and not hits and obligations > 0 and discharged == obligations
        self.proof_log = ("forbidden words: " + "; ".join(hits) + "\n" if hits else "") + (props["log"][-3000:] if not props["ok"] else "")
        self.axioms = axioms
        return self.proof_ok

    def replay_path(self, obj):
        d = os.path.join(VERIF, "replays", self.pid)
        os.makedirs(d, exist_ok=True)
        h = hashlib.sha1(json.dumps(obj, sort_keys=True, default=str).encode()).hexdigest()[:12]
        path = os.path.join(d, h + ".json")
        with open(path, "w") as fh:
            json.dump(obj, fh, indent=1, default=str)
        return path

    def match_known(self, sig):
        """sig: dict describing the minimised failure; an open finding matches when
        all its signature keys are equal."""
        for k in self.known:
            if all(sig.get(a) == b for a, b in k["signature"].items()):
                return k
        return None

    def violation(self, what, replay_obj, sig=None, no_input=False):
        if sig is not None and not no_input:
            k = self.match_known(sig)
            if k is not None:
                if k["what"] not in self.known_seen:
                    self.known_seen.append(k["what"])
                return
        replay_obj = dict(replay_obj, property=self.pid, what=what)
        path = self.replay_path(replay_obj)
        self.violations.append((what, path, no_input))

    def finish(self, trusted_base, assumptions, extra=None):
        cov = self.coverage
        cov["trusted_base"] = trusted_base
        cov.setdefault("samples", [])
        if extra:
            cov.update(extra)
        # broken proof obligation without a concrete failing input
        if not getattr(self, "proof_ok", True) and not any(not n for _, _, n in self.violations):
            self.violation("proof obligation no longer checks: " + self.proof_log[-1500:],
                           {"kind": "proof", "file": f"coq/Props/{self.pid}.v", "log": self.proof_log},
                           no_input=True)
        ev = {
            "property_id": self.pid, "tier": self.tier, "seed": self.seed, "level": self.level,
            "coverage": cov, "assumptions": assumptions,
            "wall_s": round(time.time() - self.t0, 2),
            "violations": len(self.violations),
            "known_findings_seen": self.known_seen,
        }
        # evidence/ only ever describes runs against /repo itself; runs against a
        # scratch tree (VERIF_REPO, used to test the checks on seeded changes) write elsewhere
        evdir = os.environ.get("VERIF_EVIDENCE_DIR") or (
            os.path.join(VERIF, "evidence") if os.path.realpath(REPO) == "/repo"
            else os.path.join(VERIF, "replays", "scratch-evidence"))
        os.makedirs(evdir, exist_ok=True)
        with open(os.path.join(evdir, f"{self.pid}.json"), "w") as fh:
            json.dump(ev, fh, indent=1, default=str)
        # every listed open finding of this property is announced (whether or not this
        # run happened to reproduce it; evidence.known_findings_seen says which it did)
        for k in self.known:
            print(f"KNOWN-FINDING: property={self.pid} {k['what']}")
        # concrete violations first; at most a handful of lines
        conc = [v for v in self.violations if not v[2]]
        rest = [v for v in self.violations if v[2]]
        shown = conc[:5] if conc else rest[:3]
        for what, path, no_input in shown:
            print(f"# {what[:300]}".replace("\n", " "))
            print(f"VIOLATION property={self.pid} replay={path}" + (" no-failing-input-found" if no_input else ""))
        print(f"[{self.pid}] tier={self.tier} seed={self.seed} obligations={cov.get('obligations')} "
              f"discharged={cov.get('discharged')} violations={len(self.violations)} wall={ev['wall_s']}s")
        return 1 if self.violations else 0


def outcome_class(e):
    """Map a Python exception to the model's error classes."""
    from spec_classes.errors import BaseTypeError, FrozenInstanceError
    if isinstance(e, FrozenInstanceError):
        return "FrozenErr"
    if isinstance(e, (TypeError, BaseTypeError)):
        return "TypeErr"
    if isinstance(e, IndexError):
        return "IndexErr"
    if isinstance(e, KeyError):
        return "KeyErr"
    if isinstance(e, ValueError):
        return "ValueErr"
    if isinstance(e, AttributeError):
        return "AttrErr"
    if isinstance(e, RuntimeError):
        return "RuntimeErr"
    return "UserErr"
