"""C20 — copying leaves process-global state untouched and is safe across threads.

Correspondence of coq/Conc/ModulesCopyableModel.v with
spec_classes/utils/mutation.py:_modules_copyable (+ protect_via_deepcopy and the
library code that copies), and the property oracle of coq/Conc/ModulesCopyableSpec.v
on the implementation's observations.

Sequential part: histories of copying operations (constructor with mutable
defaults, copy-on-write helpers, deepcopy of instances nested in containers to
depth 3, reset; copies aborted by a raising __post_copy__ / transform and by an
exception injected at the i-th executed line of spec_classes code), optionally
with a user's own registration for ModuleType.  __new__/__enter__/__exit__ of the
context manager are wrapped from outside; after every event the projection of
copyreg.dispatch_table and the singleton's (refcount, patched_table) are recorded.
The bracket structure (which copies nest in which) is reconstructed from the
events and given to the model.

Concurrent part: c20_sched.Scheduler runs 2-3 threads that deep-copy
module-bearing values; every schedule with <= 2 pre-emptions plus PRNG schedules;
after every step the shared projection, every thread's position (protocol line)
and status are compared with the model run on the same schedule.
"""
import copy
import copyreg
import itertools
import json
import os
import sys
import threading
import time
import types
from types import ModuleType

from common import Check, REPO, cbool, clist, coq_eval, cz, czlist

import c20_sched

PRELUDE = """From Coq Require Import List ZArith Bool.
From SC Require Import Base.Res Conc.ModulesCopyableModel Conc.ModulesCopyableSpec Corr.Enc Corr.MCCorr.
Import ListNotations.
Open Scope Z_scope.
"""

from spec_classes import spec_class  # noqa: E402
from spec_classes.utils import mutation  # noqa: E402

MC = mutation._modules_copyable
MUT_FILE = mutation.__file__
LIB_DIR = os.path.dirname(os.path.dirname(os.path.abspath(MUT_FILE)))  # .../spec_classes

SAFE_ABORT_IDS = set(range(0, 8)) | {9, 10, 11}


# ------------------------------------------------------------------ source line -> protocol line of the model
PC_TEXT = {
    "__new__": {
        "if cls.__instance__ is None:": ("occ", [0, 2]),
        "with cls.__instance_lock__:": ("visit", [1, 8]),
        "instance = super().__new__(cls)": ("one", 3),
        "instance.lock = RLock()": ("one", 4),
        "instance.refcount = 0": ("one", 5),
        "instance.patched_table = False": ("one", 6),
        "cls.__instance__ = instance": ("one", 7),
        "return cls.__instance__": ("one", 9),
    },
    "__enter__": {
        "with self.lock:": ("visit", [10, 16]),
        "self.refcount += 1": ("one", 11),
        "module_reductor = copyreg.dispatch_table.get(ModuleType, MISSING)": ("one", 12),
        "if module_reductor is MISSING:": ("one", 13),
        'copyreg.dispatch_table[ModuleType] = lambda module: "passthrough"': ("one", 14),
        "self.patched_table = True": ("one", 15),
    },
    "__exit__": {
        "with self.lock:": ("visit", [17, 22]),
        "self.refcount -= 1": ("one", 18),
        "if self.patched_table and self.refcount == 0:": ("one", 19),
        "del copyreg.dispatch_table[ModuleType]": ("one", 20),
        "self.patched_table = False": ("one", 21),
    },
}
UNKNOWN_PC = 40


def orig_fn(name):
    """the library's own function behind MC.<name> (unwrapping staticmethod and our wrapper)"""
    f = MC.__dict__.get(name)
    if f is None:
        return None
    f = getattr(f, "__func__", f)
    f = getattr(f, "__c20_orig__", f)
    return getattr(f, "__func__", f)


def build_line_map():
    """(function name, line number) -> (kind, ids) from the source text of the three methods"""
    import inspect
    out = {}
    for fname, table in PC_TEXT.items():
        fn = orig_fn(fname)
        if fn is None or not hasattr(fn, "__code__"):
            continue
        try:
            lines, start = inspect.getsourcelines(fn)
        except (OSError, TypeError):
            continue
        occ = {}
        for off, text in enumerate(lines):
            t = text.strip()
            if t in table:
                kind, ids = table[t]
                if kind == "occ":
                    n = occ.get(t, 0)
                    occ[t] = n + 1
                    out[(fname, start + off)] = ("one", ids[n] if n < len(ids) else UNKNOWN_PC)
                else:
                    out[(fname, start + off)] = (kind, ids)
    return out


LINE_MAP = {}


def pc_of(pos):
    """pos = (function name, line, visit) -> protocol line id of the model"""
    fname, line, visit = pos
    ent = LINE_MAP.get((fname, line))
    if ent is None:
        return UNKNOWN_PC
    kind, ids = ent
    if kind == "one":
        return ids
    return ids[visit - 1] if 1 <= visit <= len(ids) else UNKNOWN_PC


# ------------------------------------------------------------------ observation of the process-wide state
def user_reducer(module):
    LOG.add("use")
    return module.__name__          # a string: copy returns the module itself


def entry_kind():
    e = copyreg.dispatch_table.get(ModuleType)
    if e is None:
        return 0
    return 2 if e is user_reducer else 1


def instance():
    return MC.__dict__.get("__instance__", None)


def obs_shared():
    inst = instance()
    rc = getattr(inst, "refcount", 0) if inst is not None else 0
    pt = getattr(inst, "patched_table", False) if inst is not None else False
    return [int(rc), int(bool(pt)), entry_kind(), int(inst is not None)]


SETUP_ERRORS = []


def reset_process_state(user, created0):
    """initial condition of a case: table content, singleton fresh / absent"""
    copyreg.dispatch_table.pop(ModuleType, None)
    if user:
        copyreg.dispatch_table[ModuleType] = user_reducer
    if "__instance_lock__" in MC.__dict__:
        MC.__instance__ = None
        lk = MC.__dict__["__instance_lock__"]
        if lk.locked():
            try:
                lk.release()
            except RuntimeError:
                pass
    elif "__instance__" in MC.__dict__:
        del MC.__instance__
    if created0:
        try:
            inst = orig_fn("__new__")(MC)
            if "__init__" in MC.__dict__:       # the code before the fix initialises here
                MC.__dict__["__init__"](inst)
        except BaseException as e:  # noqa: reported by the cases that follow
            SETUP_ERRORS.append(f"creating the singleton raised {type(e).__name__}: {e}")
        # whatever the constructor did, the initial condition of a case is a quiescent singleton
        inst = instance()
        if inst is not None:
            try:
                inst.refcount, inst.patched_table = 0, False
            except Exception:
                pass
        copyreg.dispatch_table.pop(ModuleType, None)
        if user:
            copyreg.dispatch_table[ModuleType] = user_reducer


# ------------------------------------------------------------------ event log (per thread)
class Log:
    def __init__(self):
        self.by_thread = {}
        self.depth = {}
        self.open = {}      # per thread: frames of the `with` statements whose __enter__ returned

    def clear(self):
        self.by_thread.clear()
        self.depth.clear()
        self.open.clear()

    def opened(self, frame):
        self.open.setdefault(threading.get_ident(), []).append(frame)

    def closing(self, frame):
        """__exit__ is being called from `frame`: every with statement opened later than
        that one was left WITHOUT its __exit__ being called (exception at the with line)"""
        st = self.open.setdefault(threading.get_ident(), [])
        while st and st[-1] is not frame:
            st.pop()
            self.bump(-1)
            self.add("exit_skipped", 17, False)
        if st:
            st.pop()

    def close_all(self):
        st = self.open.setdefault(threading.get_ident(), [])
        while st:
            st.pop()
            self.bump(-1)
            self.add("exit_skipped", 17, False)

    muted = False

    def add(self, kind, *data):
        if self.muted:
            return
        self.by_thread.setdefault(threading.get_ident(), []).append((kind,) + data + (obs_shared(),))

    def events(self, ident=None):
        return self.by_thread.get(ident or threading.get_ident(), [])

    def get_depth(self, ident):
        return self.depth.get(ident, 0)

    def bump(self, d):
        i = threading.get_ident()
        self.depth[i] = self.depth.get(i, 0) + d


LOG = Log()


class Injected(BaseException):
    pass


class Boom(Exception):
    pass


class Inj:
    """exception injection at the k-th executed line of spec_classes code"""
    def __init__(self):
        self.k = None
        self.count = 0
        self.fired = None       # (function, line, visit, file)
        self.visits = {}

    def arm(self, k):
        self.k, self.count, self.fired = k, 0, None
        self.visits = {}

    def local(self, frame, event, arg):
        if event == "line":
            self.count += 1
            v = self.visits.setdefault(id(frame), {})
            v[frame.f_lineno] = v.get(frame.f_lineno, 0) + 1
            if self.k is not None and self.count == self.k:
                self.fired = (frame.f_code.co_name, frame.f_lineno, v[frame.f_lineno], frame.f_code.co_filename)
                raise Injected()
        return self.local

    def glob(self, frame, event, arg):
        if event != "call":
            return None
        code = frame.f_code
        if not code.co_filename.startswith(LIB_DIR):
            return None
        if code.co_name == "<lambda>" and code.co_filename == MUT_FILE:
            LOG.add("use")
        self.visits[id(frame)] = {}
        return self.local


INJ = Inj()


def fired_pc(fname=None):
    """protocol line id of the injection that just fired, or None if it was elsewhere"""
    f = INJ.fired
    if f is None or f[3] != MUT_FILE or f[0] not in PC_TEXT or (fname and f[0] != fname):
        return None
    return pc_of(f[:3])


def install_wrappers():
    if getattr(MC, "__c20_wrapped__", False):
        return
    o_new = MC.__dict__["__new__"]
    o_new = getattr(o_new, "__func__", o_new)
    o_enter, o_exit = MC.__dict__["__enter__"], MC.__dict__["__exit__"]

    def w_new(cls, *a, **k):
        try:
            return o_new(cls, *a, **k)
        except BaseException:
            LOG.add("new_abort", fired_pc("__new__"))
            raise

    def w_enter(self):
        try:
            r = o_enter(self)
        except BaseException:
            LOG.add("enter_abort", fired_pc("__enter__"))
            raise
        LOG.bump(+1)
        LOG.opened(sys._getframe(1))
        LOG.add("enter_ok")
        return r

    def w_exit(self, *args):
        exc = bool(args and args[0] is not None)
        LOG.closing(sys._getframe(1))
        LOG.bump(-1)
        try:
            r = o_exit(self, *args)
        except BaseException:
            LOG.add("exit_abort", fired_pc("__exit__"), exc)
            raise
        LOG.add("exit_ok", exc)
        return r

    for w, o in ((w_new, o_new), (w_enter, o_enter), (w_exit, o_exit)):
        w.__c20_orig__ = o
    MC.__new__ = staticmethod(w_new)
    MC.__enter__ = w_enter
    MC.__exit__ = w_exit
    MC.__c20_wrapped__ = True


# ------------------------------------------------------------------ bracket structure from events
def reconstruct(events, raised_flags=None):
    """events of ONE thread -> (items, trace) where items is the nested program
    ('use',) ('yield',) ('raise',) ('nest', ab, [items]) ('try', [items]) and trace
    the list of observation vectors in the model's event encoding."""
    ops, cur_stack, trace = [], [[]], []

    def raising(it):
        return it[0] == "raise" or (it[0] == "nest" and (it[1] is not None or bool(it[2]) and raising(it[2][-1])))

    def seal(body):
        # something happens AFTER an item that ended with an exception: a handler (in the library or in
        # user code) caught it there and execution went on
        if body and raising(body[-1]):
            body[-1] = ("try", [body[-1]])

    for ev in events:
        kind, st = ev[0], ev[-1]
        if kind == "enter_ok":
            seal(cur_stack[-1])
            cur_stack.append([])
            trace.append([1] + st)
        elif kind == "use":
            seal(cur_stack[-1])
            cur_stack[-1].append(("use",))
            trace.append([4] + st)
        elif kind == "yield":
            seal(cur_stack[-1])
            cur_stack[-1].append(("yield",))
        elif kind in ("exit_ok", "exit_abort", "exit_skipped"):
            body = cur_stack.pop() if len(cur_stack) > 1 else []
            exc = ev[-2]
            if exc:
                body.append(("raise",))
            else:
                seal(body)
            ab = ev[1] if kind != "exit_ok" else None
            cur_stack[-1].append(("nest", ab, body))
            trace.append([2 if kind == "exit_ok" else 5] + st)
        elif kind in ("enter_abort", "new_abort"):
            seal(cur_stack[-1])
            cur_stack[-1].append(("nest", ev[1], []))
            trace.append([3] + st)
        elif kind == "op_end":
            raised = ev[1]
            # unbalanced (an __exit__ that was never called): close what is open
            while len(cur_stack) > 1:
                body = cur_stack.pop()
                cur_stack[-1].append(("nest", None, body + [("raise",)]))
            body = cur_stack[0]
            if raised:
                body.append(("raise",))
            else:
                seal(body)
            ops.append(("try", body))
            cur_stack = [[]]
            trace.append([0] + st + [int(raised), int(ev[2])])
    if cur_stack != [[]]:       # thread program without operation boundaries (concurrent part)
        while len(cur_stack) > 1:
            body = cur_stack.pop()
            cur_stack[-1].append(("nest", None, body + [("raise",)]))
        ops += cur_stack[0]
    if raised_flags is False and ops:
        seal(ops)           # the thread ended normally: an exception seen last was caught
    return ops, trace


def c_item(it):
    k = it[0]
    if k == "use":
        return "Use true"
    if k == "yield":
        return "Yield"
    if k == "raise":
        return "Raise"
    if k == "nest":
        ab = "None" if it[1] is None else f"(Some {int(it[1])}%nat)"
        return f"Nest {ab} {clist(it[2], c_item)}"
    if k == "try":
        return f"Try {clist(it[1], c_item)}"
    raise AssertionError(it)


def items_size(items):
    n = 0
    for it in items:
        n += 1
        if it[0] in ("nest", "try"):
            n += items_size(it[-1])
    return n


def max_depth(items, d=0):
    m = d
    for it in items:
        if it[0] == "nest":
            m = max(m, max_depth(it[2], d + 1))
        elif it[0] == "try":
            m = max(m, max_depth(it[1], d))
    return m


# ------------------------------------------------------------------ classes used by the histories
BOOM = [None]
BOOM_FIRED = [False]


def hook():
    if BOOM[0] is not None:
        BOOM[0] -= 1
        if BOOM[0] == 0:
            BOOM[0] = None
            BOOM_FIRED[0] = True
            raise Boom()


FLAKY = [None]
FLAKY_FIRED = [False]


class FlakyErr(Exception):
    pass


class Flaky:
    """an attribute value whose deep copy raises: at the k-th Flaky copy of the armed
    operation (sequential part, global countdown) or always (`always`, concurrent part)"""
    def __init__(self, always=False):
        self.always = always

    def __deepcopy__(self, memo):
        if self.always:
            raise FlakyErr()
        if FLAKY[0] is not None:
            FLAKY[0] -= 1
            if FLAKY[0] == 0:
                FLAKY[0] = None
                FLAKY_FIRED[0] = True
                raise FlakyErr()
        return Flaky()

    def __eq__(self, other):
        return isinstance(other, Flaky)

    __hash__ = None


def plain_copy_fails():
    """outside the library: does copy.deepcopy of a module-bearing plain value raise TypeError
    (as it does in a fresh interpreter without a registration for ModuleType)?"""
    LOG.muted = True
    try:
        copy.deepcopy([sys])
        return False
    except TypeError:
        return True
    finally:
        LOG.muted = False


def make_classes():
    from typing import Any, Dict, List

    @spec_class
    class Leaf:
        m: ModuleType = sys
        ms: list = []
        n: int = 0

        def __post_copy__(self):
            hook()

    @spec_class
    class Node:
        kids: List[Leaf] = []
        table: Dict[str, Leaf] = {}
        tag: str = "a"
        mods: List[ModuleType] = [sys]
        extra: Any = None

        def __post_copy__(self):
            hook()

    return Leaf, Node


def make_subclasses():
    """plain (undecorated) subclasses, one and two levels, that override inherited defaults with
    module-bearing values: a bare module, list/dict/tuple holding modules, a spec instance holding modules.
    Their defaults are looked up through the MRO (Attr.lookup_default_value) and copied on construction,
    reset_<attr>, del and reset()."""
    import math
    Node = CLS["Node"]

    class Sub1(Node):
        mods = [math, sys]
        extra = sys
        table = {"m": raw("Leaf", ms=[[math]])}

    class Sub2(Sub1):
        extra = ([sys], {"m": math}, raw("Leaf", ms=[os, [sys]]))
        kids = [raw("Leaf", ms=[math])]

    CLS["Sub1"], CLS["Sub2"] = Sub1, Sub2
    RAW_DEFAULTS["Sub1"] = RAW_DEFAULTS["Sub2"] = RAW_DEFAULTS["Node"]


def sub_defaults_ok(o):
    """o was (re)set to the defaults of its class: modules by identity, containers fresh copies"""
    cls = type(o)
    d = object.__getattribute__(o, "__dict__")
    for a in ("mods", "extra", "table", "kids"):
        owner = next((k for k in cls.__mro__ if k is not CLS["Node"] and a in k.__dict__), None)
        if owner is None or owner.__mro__[0] is CLS["Node"] or not issubclass(owner, CLS["Node"]) or owner is CLS["Node"]:
            continue
        want = owner.__dict__[a]
        if a not in d or not same_copy(want, d[a]):
            return False
        if isinstance(want, (list, dict)) and d[a] is want:
            return False
    return True


CLS = {}
RAW_DEFAULTS = {"Leaf": dict(m=sys, ms=[], n=0),
                "Node": dict(kids=[], table={}, tag="a", mods=[sys], extra=None)}


def raw(name, **attrs):
    """an instance built WITHOUT running the library's constructor (which copies): the
    harness' own set-up must never execute the code under test outside an observed case"""
    cls = CLS[name]
    o = cls.__new__(cls)
    d = {k: (list(v) if isinstance(v, list) else dict(v) if isinstance(v, dict) else v)
         for k, v in RAW_DEFAULTS[name].items()}
    d.update(attrs)
    object.__getattribute__(o, "__dict__").update(d)
    return o


class Probe:
    """a value whose copy is a scheduling point and then copies a module"""
    def __init__(self, m, boom=False):
        self.m, self.boom = m, boom

    def __deepcopy__(self, memo): return _probe_copy(self, memo)   # one line = one scheduling point


def _probe_copy(p, memo):
    LOG.add("yield")
    if p.boom:
        raise Boom()
    return Probe(copy.deepcopy(p.m, memo))


class Holder:
    """an ordinary (non spec-class) object that refers to modules, directly and inside a container"""
    def __init__(self, m, level=0, inner=None):
        self.m, self.level, self.inner = m, level, inner

    def __repr__(self):
        return f"Holder({getattr(self.m, '__name__', self.m)!r}, {self.level}, {self.inner!r})"


from spec_classes import MISSING as MISSING_  # noqa: E402


class MList(list):
    """a list subclass: copied through __reduce_ex__, never by the library's shortcuts for builtin containers"""


class CheckFailed(AssertionError):
    """the result of an operation is not what the property promises (raised by the harness' own result check;
    never planned, so the oracle reports the operation as having raised on its own)"""


def same_copy(a, b, top=True):
    """b is a faithful deep copy of a: same shape, modules by identity"""
    if isinstance(a, ModuleType):
        return a is b
    if isinstance(a, Holder):
        return type(b) is Holder and b.level == a.level and same_copy(a.m, b.m, False) \
            and same_copy(a.inner, b.inner, False)
    if isinstance(a, (set, frozenset)):
        return type(a) is type(b) and len(a) == len(b) and all(any(x is y for y in b) for x in a)
    if isinstance(a, Probe):
        return isinstance(b, Probe) and b is not a and b.m is a.m
    if isinstance(a, (list, tuple)):
        return type(a) is type(b) and len(a) == len(b) and all(same_copy(x, y, False) for x, y in zip(a, b))
    if isinstance(a, dict):
        return type(b) is dict and list(a) == list(b) and all(same_copy(a[k], b[k], False) for k in a)
    if hasattr(a, "__spec_class__"):
        da = object.__getattribute__(a, "__dict__")
        db = object.__getattribute__(b, "__dict__")
        return type(a) is type(b) and list(da) == list(db) and all(same_copy(da[k], db[k], False) for k in da)
    return a == b


# ------------------------------------------------------------------ modules in plain containers and plain objects
# (added after seeded change C20-E1 was missed): every library call site that copies -- protect_via_deepcopy and
# copy.deepcopy -- has to be reached with a value whose modules are NOT wrapped in a spec instance (a spec instance
# protects its own copy through __deepcopy__, which hides a call site that forgot the guard).
def make_zoo():
    import math
    from typing import Any, Dict, List, Set
    from spec_classes import Alias

    @spec_class
    class Cust:
        """a spec class with its own __deepcopy__ that does NOT protect itself (like Probe): it is copied
        successfully only while the library's guard is active"""
        m: Any = None
        n: int = 0

        def __deepcopy__(self, memo):
            new = type(self).__new__(type(self))
            for k, v in object.__getattribute__(self, "__dict__").items():
                object.__getattribute__(new, "__dict__")[k] = copy.deepcopy(v, memo)
            return new

    @spec_class
    class Zoo:
        mods: List[ModuleType] = [sys]
        table: Dict[str, Any] = {"d": [os]}
        mset: Set[ModuleType] = set()
        extra: Any = None
        anys: List[Any] = []
        hold: Holder
        one: Cust
        custs: List[Cust] = []
        plist: List[ModuleType] = []
        al: Any = Alias("nothing_there", fallback=[sys, {"k": os}, Holder(math)])

        def _prepare_plist_item(self, item):     # an item preparer: whole collections handed over are normalised in a copy
            return item

        def __post_copy__(self):
            hook()

    @spec_class
    class ZooKid(Zoo):
        """a spec subclass: attributes owned by the parent are copied before the parent's constructor runs"""
        own: List[Any] = [os]

    CLS["Cust"], CLS["Zoo"], CLS["ZooKid"] = Cust, Zoo, ZooKid
    RAW_DEFAULTS["Cust"] = dict(m=None, n=0)
    RAW_DEFAULTS["Zoo"] = {}
    RAW_DEFAULTS["ZooKid"] = {}
    ZOO_FALLBACK[0] = Zoo.__dict__["al"].fallback if "al" in Zoo.__dict__ else None


ZOO_FALLBACK = [None]


def zoo_values(kid=False, probes=False):
    """fresh module-bearing values for every attribute of Zoo, built without library code: modules directly in
    list/dict/set/tuple (nested), in plain objects, in a list subclass and in a spec instance whose copy does not
    protect itself; some values raise in __deepcopy__ when armed (Flaky)"""
    import math
    P = (lambda m: Probe(m)) if probes else (lambda m: m)
    F = (lambda: P(os)) if probes else Flaky
    d = dict(mods=[sys, os], table={"j": json, "n": {"o": [P(os)], "f": F()}},
             mset={sys, os},
             extra=[Holder(json, inner=[P(os)]), (sys, {"k": math}), F()],
             anys=[[json], (os, [P(sys)]), Holder(math, inner={"k": F()})],
             hold=Holder(sys, inner=(os, [P(json)])),
             one=raw("Cust", m=[P(sys), {"k": os}, F()]),
             custs=[raw("Cust", m=(os, [P(sys)]))],
             plist=MList([sys, os]))
    if kid:
        d["own"] = [P(sys), {"k": [os]}]
    return d


def zoo_base(kid=False, probes=False):
    return raw("ZooKid" if kid else "Zoo", **zoo_values(kid, probes))


def zoo_ensure(z):
    """make every operation of the pool applicable whatever the history did before: attributes that are absent
    or empty are refilled (raw: no library code runs)"""
    d = object.__getattribute__(z, "__dict__")
    for k, v in zoo_values(kid=isinstance(z, CLS["ZooKid"])).items():
        if k not in d or d[k] is None or (isinstance(d[k], (list, dict, set, tuple)) and not d[k]):
            d[k] = v
    if not isinstance(d["extra"], list):
        d["extra"] = list(d["extra"]) if isinstance(d["extra"], tuple) else [d["extra"]]
    return z


def zoo_check(z, r, changed=(), post=None, inplace=False):
    """r is the result of a helper called on z: same class, attributes the helper did not address are faithful
    copies (modules by identity), the addressed one is what `post` says"""
    if type(r) is not type(z):
        raise CheckFailed(f"result is a {type(r).__name__}, not a {type(z).__name__}")
    if inplace and r is not z:
        raise CheckFailed("in-place call returned another object")
    zd, rd = object.__getattribute__(z, "__dict__"), object.__getattribute__(r, "__dict__")
    for a in zd:
        if a in changed:
            continue
        if a not in rd or not same_copy(zd[a], rd[a]):
            raise CheckFailed(f"attribute {a} of the result is not a faithful copy: {rd.get(a)!r} from {zd[a]!r}")
    if post is not None and not post(r):
        raise CheckFailed(f"attribute(s) {list(changed)} of the result are not as expected: "
                          f"{[rd.get(a) for a in changed]!r}")
    return r


def _bump(v):
    """a transform that MUTATES what it is given (it must have been given a copy)"""
    if isinstance(v, Holder):
        v.level += 1
    elif isinstance(v, list):
        v.append(sys)
    elif isinstance(v, dict):
        v["bumped"] = sys
    elif isinstance(v, set):
        v.add(json)
    return v


def zoo_ops():
    import math
    from spec_classes import MISSING
    Zoo, ZooKid = CLS["Zoo"], CLS["ZooKid"]

    def Z(c):
        return zoo_ensure(c["z"])

    def put(c, r, changed=(), post=None, inplace=False):
        zoo_check(c["z"], r, changed, post, inplace)
        c["z"] = r

    def new(c, cls, kid, default=False):
        vals = {} if default else zoo_values(kid)
        r = cls(**vals)
        rd = object.__getattribute__(r, "__dict__")
        for a, v in vals.items():
            if a not in rd or not same_copy(v, rd[a]):
                raise CheckFailed(f"constructor argument {a} not copied faithfully: {rd.get(a)!r} from {v!r}")
        if default and not (same_copy([sys], rd.get("mods")) and same_copy({"d": [os]}, rd.get("table"))):
            raise CheckFailed(f"defaults not copied faithfully: {rd!r}")
        c["z"] = r

    def first_key(z, avoid=()):
        return next(k for k in z.table if k not in avoid)

    def alias_read(c):
        v = Z(c).al
        if "al" in object.__getattribute__(c["z"], "__dict__") or hasattr(c["z"], "nothing_there"):
            return
        if not same_copy(ZOO_FALLBACK[0], v) or v is ZOO_FALLBACK[0]:
            raise CheckFailed(f"alias fallback not copied faithfully: {v!r}")

    ops = {
        # constructors: arguments holding modules in plain containers / plain objects; spec subclass (parent-owned
        # attributes are copied before the parent's constructor runs)
        "z_new": lambda c: new(c, Zoo, False),
        "z_new_default": lambda c: new(c, Zoo, False, True),
        "zk_new": lambda c: new(c, ZooKid, True),
        "zk_new_default": lambda c: new(c, ZooKid, True, True),
        # update_<attr> / transform_<attr>: start from a copy of the value the attribute holds
        "z_transform_mods": lambda c: put(c, Z(c).transform_mods(lambda l: l + [math]), ["mods"],
                                          lambda r: r.mods[-1] is math and r.mods[0] is c["z"].mods[0]),
        "z_transform_table": lambda c: put(c, Z(c).transform_table(_bump), ["table"],
                                           lambda r: r.table["bumped"] is sys
                                           and same_copy({k: v for k, v in c["z"].table.items() if k != "bumped"},
                                                         {k: v for k, v in r.table.items() if k != "bumped"})),
        "z_transform_mset": lambda c: put(c, Z(c).transform_mset(lambda s: s | {math}), ["mset"],
                                          lambda r: math in r.mset and same_copy(c["z"].mset | {math}, r.mset)),
        "z_transform_extra": lambda c: put(c, Z(c).transform_extra(_bump), ["extra"],
                                           lambda r: r.extra[-1] is sys and len(r.extra) == len(c["z"].extra) + 1
                                           and same_copy(c["z"].extra, r.extra[:-1])),
        "z_transform_hold": lambda c: put(c, Z(c).transform_hold(_bump), ["hold"],
                                          lambda r: r.hold.level == c["z"].hold.level + 1 and r.hold is not c["z"].hold
                                          and same_copy(c["z"].hold.inner, r.hold.inner) and r.hold.m is c["z"].hold.m),
        "z_transform_anys": lambda c: put(c, Z(c).transform_anys(_bump), ["anys"],
                                          lambda r: same_copy(c["z"].anys, r.anys[:-1])),
        "z_transform_plist": lambda c: put(c, Z(c).transform_plist(_bump), ["plist"],
                                           lambda r: same_copy(list(c["z"].plist), list(r.plist[:-1]))),
        "z_transform_one_attr": lambda c: put(c, Z(c).transform_one(n=lambda n: n + 1), ["one"],
                                              lambda r: r.one.n == c["z"].one.n + 1 and same_copy(c["z"].one.m, r.one.m)),
        "z_transform_one": lambda c: put(c, Z(c).transform_one(lambda o: o), ["one"],
                                         lambda r: same_copy(c["z"].one, r.one) and r.one is not c["z"].one),
        "z_transform_al": lambda c: Z(c).transform_al(_bump),
        "z_transform_extra_raise": lambda c: Z(c).transform_extra(_raising),
        "z_transform_one_raise": lambda c: Z(c).transform_one(n=_raising),
        "z_update_extra_same": lambda c: put(c, Z(c).update_extra(MISSING), [], None),
        "z_update_mods_same": lambda c: put(c, Z(c).update_mods(MISSING), [], None),
        "z_update_table_same": lambda c: put(c, Z(c).update_table(MISSING), [], None),
        "z_update_hold_same": lambda c: put(c, Z(c).update_hold(MISSING), [], None),
        "z_update_one_attr": lambda c: put(c, Z(c).update_one(n=7), ["one"],
                                           lambda r: r.one.n == 7 and same_copy(c["z"].one.m, r.one.m)),
        "z_update_extra_new": lambda c: put(c, Z(c).update_extra([Holder(os), sys]), ["extra"],
                                            lambda r: same_copy([Holder(os), sys], r.extra)),
        # with_<attr>: the instance is copied; an existing value handed over with keywords is copied first
        "z_with_one_attr": lambda c: put(c, Z(c).with_one(c["z"].one, n=4), ["one"],
                                         lambda r: r.one.n == 4 and same_copy(c["z"].one.m, r.one.m)),
        "z_with_extra": lambda c: put(c, Z(c).with_extra([Holder(os, inner=[sys]), math]), ["extra"],
                                      lambda r: same_copy([Holder(os, inner=[sys]), math], r.extra)),
        "z_with_plist": lambda c: put(c, Z(c).with_plist(MList([math, sys])), ["plist"],
                                      lambda r: same_copy([math, sys], list(r.plist))),
        "z_update": lambda c: put(c, Z(c).update(extra=[math, (os,)], hold=Holder(os, 2, [sys])), ["extra", "hold"],
                                  lambda r: same_copy([math, (os,)], r.extra) and same_copy(Holder(os, 2, [sys]), r.hold)),
        # element helpers: the collection is copied
        "z_with_mod": lambda c: put(c, Z(c).with_mod(math), ["mods"], lambda r: r.mods[-1] is math),
        "z_without_mod": lambda c: put(c, Z(c).without_mod(c["z"].mods[0]), ["mods"],
                                       lambda r: len(r.mods) == len(c["z"].mods) - 1),
        "z_transform_mod": lambda c: put(c, Z(c).transform_mod(0, lambda m: math, _by_index=True), ["mods"],
                                         lambda r: r.mods[0] is math and same_copy(c["z"].mods[1:], r.mods[1:])),
        "z_update_mod": lambda c: put(c, Z(c).update_mod(0, json, _by_index=True), ["mods"],
                                      lambda r: r.mods[0] is json and same_copy(c["z"].mods[1:], r.mods[1:])),
        "z_with_table_item": lambda c: put(c, Z(c).with_table_item("q", [math, {"k": sys}]), ["table"],
                                           lambda r: same_copy([math, {"k": sys}], r.table["q"])),
        "z_without_table_item": lambda c: put(c, Z(c).without_table_item(first_key(Z(c))), ["table"],
                                              lambda r: len(r.table) == len(c["z"].table) - 1),
        "z_transform_table_item": lambda c: put(c, Z(c).transform_table_item(first_key(Z(c)), lambda v: [v, os]),
                                                ["table"], lambda r: len(r.table) == len(c["z"].table)),
        "z_update_table_item": lambda c: put(c, Z(c).update_table_item(first_key(Z(c)), {"z": sys}), ["table"],
                                             lambda r: same_copy({"z": sys}, r.table[first_key(c["z"])])),
        "z_with_mset_item": lambda c: put(c, Z(c).with_mset_item(math), ["mset"], lambda r: math in r.mset),
        "z_without_mset_item": lambda c: put(c, Z(c).without_mset_item(next(iter(Z(c).mset))), ["mset"],
                                             lambda r: len(r.mset) == len(c["z"].mset) - 1),
        "z_with_any": lambda c: put(c, Z(c).with_any([math, Holder(sys)]), ["anys"],
                                    lambda r: same_copy(c["z"].anys + [[math, Holder(sys)]], r.anys)),
        "z_transform_any": lambda c: put(c, Z(c).transform_any(0, lambda v: [v, sys], _by_index=True), ["anys"],
                                         lambda r: same_copy([c["z"].anys[0], sys], r.anys[0])),
        "z_update_any": lambda c: put(c, Z(c).update_any(0, Holder(sys, 1, [os]), _by_index=True), ["anys"],
                                      lambda r: same_copy(Holder(sys, 1, [os]), r.anys[0])),
        "z_with_cust_attr": lambda c: put(c, Z(c).with_cust(c["z"].custs[0], n=3), ["custs"],
                                          lambda r: r.custs[-1].n == 3 and same_copy(c["z"].custs[0].m, r.custs[-1].m)),
        "z_update_cust_attr": lambda c: put(c, Z(c).update_cust(0, n=5), ["custs"],
                                            lambda r: r.custs[0].n == 5 and same_copy(c["z"].custs[0].m, r.custs[0].m)),
        "z_transform_cust_attr": lambda c: put(c, Z(c).transform_cust(0, n=lambda n: n + 1), ["custs"],
                                               lambda r: r.custs[0].n == c["z"].custs[0].n + 1
                                               and same_copy(c["z"].custs[0].m, r.custs[0].m)),
        "z_with_plist_item": lambda c: put(c, Z(c).with_plist_item(math), ["plist"], lambda r: r.plist[-1] is math),
        # in place: nothing is copied, nothing may be left behind either
        "z_inplace_mod": lambda c: put(c, Z(c).with_mod(math, _inplace=True), ["mods"], None, True),
        "z_inplace_transform": lambda c: put(c, Z(c).transform_extra(_bump, _inplace=True), ["extra"], None, True),
        "z_inplace_update_one": lambda c: put(c, Z(c).update_one(n=9, _inplace=True), ["one"], None, True),
        # defaults, alias fallback, whole-instance copies
        "z_alias_read": alias_read,
        "z_reset_mods": lambda c: put(c, Z(c).reset_mods(), ["mods"], lambda r: same_copy([sys], r.mods)),
        "z_reset_table": lambda c: put(c, Z(c).reset_table(), ["table"], lambda r: same_copy({"d": [os]}, r.table)),
        "z_reset_extra": lambda c: put(c, Z(c).reset_extra(), ["extra"], lambda r: r.extra is None),
        "z_del_table": lambda c: delattr(Z(c), "table"),
        "z_reset_all": lambda c: c.__setitem__("z", Z(c).reset()),
        "z_deepcopy": lambda c: put(c, copy.deepcopy(Z(c)), [], None),
        "z_deepcopy_nested": lambda c: put(c, copy.deepcopy([{"k": (Z(c),)}])[0]["k"][0], [], None),
        "z_protect": lambda c: put(c, mutation.protect_via_deepcopy([sys, {"z": Z(c)}])[1]["z"], [], None),
        "z_protect_values": lambda c: [zoo_protect(v) for v in zoo_values(True).values()],
        "decl_attr_default": _decl_attr_default,        # in PENDING_OPS
    }
    return ops


# TODO(main): docs/C20.candidate-1.md -- Attr.from_attr_value deep-copies a declared Attr outside the guard, so a
# default holding a module cannot be declared through Attr(default=...) (TypeError at class decoration on the unchanged
# tree).  The operation exists (replayable by name) but no generator draws it until the candidate is decided; after a
# `fix:` commit empty this set.
PENDING_OPS = {"decl_attr_default"}


def _decl_attr_default(c):
    from typing import Any
    from spec_classes import Attr

    @spec_class
    class Decl:
        x: list = Attr(default=[sys, {"k": os}])
        y: Any = Attr(default=Holder(json, inner=[sys]))

    d = Decl()
    if not (same_copy([sys, {"k": os}], d.x) and same_copy(Holder(json, inner=[sys]), d.y)):
        raise CheckFailed(f"declared defaults not copied faithfully: {d.x!r} {d.y!r}")


def zoo_protect(v):
    r = mutation.protect_via_deepcopy(v)
    if not same_copy(v, r):
        raise CheckFailed(f"protect_via_deepcopy: {r!r} from {v!r}")
    return r


ZOO_COPYING = ["z_new", "zk_new", "z_transform_table", "z_transform_extra", "z_transform_anys", "z_transform_one_attr",
               "z_transform_one", "z_update_extra_same", "z_update_table_same", "z_update_one_attr", "z_with_one_attr",
               "z_with_extra", "z_update", "z_with_any", "z_with_table_item", "z_update_table_item", "z_with_mod",
               "z_reset_mods", "z_deepcopy", "z_deepcopy_nested", "z_protect", "z_protect_values"]


# ------------------------------------------------------------------ sequential histories
def op_pool(rng):
    Leaf, Node = CLS["Leaf"], CLS["Node"]

    def container(n, depth, shape):
        v = n
        for d in range(depth):
            s = shape[d % len(shape)]
            v = [v, 1] if s == 0 else ({"k": v, "j": "x"} if s == 1 else (v, [2]))
        return v

    ops = {
        "new_default": lambda c: c.__setitem__("n", Node()),
        "new_kids": lambda c: c.__setitem__("n", Node(kids=[Leaf(), Leaf(ms=[sys, os])])),
        "new_deep": lambda c: c.__setitem__("n", Node(table={"a": Leaf(ms=[[sys]])}, extra=[(Leaf(ms=[os]),)])),
        "with_tag": lambda c: c.__setitem__("n", c["n"].with_tag("b")),
        "with_kid": lambda c: c.__setitem__("n", c["n"].with_kid(Leaf(ms=[sys]))),
        "with_mod": lambda c: c.__setitem__("n", c["n"].with_mod(os)),
        "with_extra": lambda c: c.__setitem__("n", c["n"].with_extra([c["n"], sys])),
        "update": lambda c: c.__setitem__("n", c["n"].update(tag="c")),
        "transform_tag": lambda c: c.__setitem__("n", c["n"].transform_tag(lambda t: t + "x")),
        "transform_raise": lambda c: c["n"].transform_tag(_raising),
        "transform_kids_raise": lambda c: c["n"].transform_kids(_raising),
        "reset_kids": lambda c: c.__setitem__("n", c["n"].reset_kids()),
        "reset_mods": lambda c: c.__setitem__("n", c["n"].reset_mods()),
        "deepcopy_1": lambda c: copy.deepcopy(container(c["n"], 1, [0])),
        "deepcopy_2": lambda c: copy.deepcopy(container(c["n"], 2, [1, 2])),
        "deepcopy_3": lambda c: copy.deepcopy(container(c["n"], 3, [2, 0, 1])),
        "deepcopy_3b": lambda c: copy.deepcopy(container(c["n"], 3, [0, 1, 2])),
        "deepcopy_inst": lambda c: copy.deepcopy(c["n"]),
        "protect_list": lambda c: mutation.protect_via_deepcopy([sys, [c["n"]], os]),
        "inplace_kid": lambda c: c["n"].with_kid(Leaf(), _inplace=True),
        "sub1_new": lambda c: c.__setitem__("n", CLS["Sub1"]()),
        "sub2_new": lambda c: c.__setitem__("n", CLS["Sub2"]()),
        "sub2_new_args": lambda c: c.__setitem__("n", CLS["Sub2"](mods=[], extra=None, table={}, kids=[])),
        "sub1_new_part": lambda c: c.__setitem__("n", CLS["Sub1"](mods=[os], tag="q")),
        "reset_table": lambda c: c.__setitem__("n", c["n"].reset_table()),
        "reset_mods_inplace": lambda c: c["n"].reset_mods(_inplace=True),
        "reset_extra_inplace": lambda c: c["n"].reset_extra(_inplace=True),
        "del_extra": lambda c: delattr(c["n"], "extra"),
        "del_mods": lambda c: delattr(c["n"], "mods"),
        "del_table": lambda c: delattr(c["n"], "table"),
        "reset_all": lambda c: c.__setitem__("n", c["n"].reset()),
        "new_flaky": lambda c: c.__setitem__("n", Node(kids=[Leaf(ms=[Flaky(), sys])], extra=[Flaky(), {"k": Flaky()}],
                                                       table={"a": Leaf(ms=[[Flaky()]])})),
        "with_flaky": lambda c: c.__setitem__("n", c["n"].with_extra([Flaky(), sys, Flaky()])),
        "update_extra": lambda c: c.__setitem__("n", c["n"].update(extra=(Flaky(),), tag="d")),
        "reset_extra": lambda c: c.__setitem__("n", c["n"].reset_extra()),
        "deepcopy_dict": lambda c: copy.deepcopy({"a": [c["n"]], "b": (c["n"],)}),
    }
    ops.update(zoo_ops())
    return ops


TRANSFORM_FIRED = [False]


def _raising(_):
    TRANSFORM_FIRED[0] = True
    raise Boom()


def run_history(hist, user, created0, inject=None, boom=None, flaky=None, zkid=False):
    """hist: list of op names.  inject = (op index, k): exception at the k-th line of that op.
    boom = (op index, k): __post_copy__ raises at its k-th call within that op.
    Returns dict(events, planned, lines per op)."""
    ops = op_pool(None)
    # used if the constructing operation is aborted; holds values whose copy can be made to raise
    base = raw("Node", kids=[raw("Leaf", ms=[sys, Flaky()])], table={"a": raw("Leaf", ms=[Flaky()])}, extra=[Flaky()])
    reset_process_state(user, created0)
    LOG.clear()
    ctx, planned, nlines, fired_at, errors = {"n": base, "z": zoo_base(kid=zkid)}, [], [], None, []
    for j, name in enumerate(hist):
        BOOM[0], BOOM_FIRED[0], TRANSFORM_FIRED[0] = None, False, False
        FLAKY[0], FLAKY_FIRED[0] = None, False
        if boom and boom[0] == j:
            BOOM[0] = boom[1]
        if flaky and flaky[0] == j:
            FLAKY[0] = flaky[1]
        INJ.arm(inject[1] if inject and inject[0] == j else None)
        raised, err = False, None
        sys.settrace(INJ.glob)
        try:
            ops[name](ctx)
        except BaseException as e:  # noqa: whatever the library lets escape is the operation's outcome
            if isinstance(e, (KeyboardInterrupt, SystemExit)):
                sys.settrace(None)
                raise
            raised, err = True, f"{type(e).__name__}: {e}"[:200]
        finally:
            sys.settrace(None)
        errors.append(err)
        BOOM[0] = FLAKY[0] = None
        nlines.append(INJ.count)
        if INJ.fired is not None:
            fired_at = INJ.fired
        planned.append(bool(INJ.fired is not None or BOOM_FIRED[0] or TRANSFORM_FIRED[0] or FLAKY_FIRED[0]))
        LOG.close_all()
        LOG.add("op_end", raised, plain_copy_fails())
    return {"events": LOG.events()[:], "planned": planned, "nlines": nlines, "fired": fired_at, "errors": errors}


def seq_case_term(user, created0, events, planned):
    prog, trace = reconstruct(events)
    term = (f"mkseq {cbool(user)} {cbool(created0)} {clist(prog, c_item)} "
            f"{clist(planned, cbool)} {clist(trace, czlist)}")
    return term, prog, trace


def gen_seq_cases(rng, tier):
    """-> list of dicts(kind, hist, user, created0, inject, boom)"""
    quick = tier == "quick"
    allnames = [n for n in op_pool(None) if n not in PENDING_OPS]
    znames = [n for n in allnames if n.startswith("z")]          # operations on the Zoo instance of the context
    names = [n for n in allnames if n not in znames]
    starters = ["new_default", "new_kids", "new_deep", "sub1_new", "sub2_new", "sub2_new_args"]
    zstarters = [[], ["z_new"], ["zk_new"], ["z_new_default"]]
    cases = []
    # plain histories
    for i in range(60 if quick else 400):
        h = [rng.choice(starters)] + [rng.choice(names) for _ in range(rng.randint(1, 5 if quick else 9))]
        cases.append(dict(kind="plain", hist=h, user=(i % 3 == 2), created0=(i % 2 == 0)))
    # plain histories over everything (Node and Zoo operations interleaved)
    for i in range(60 if quick else 400):
        h = rng.choice(zstarters) + [rng.choice(znames if rng.random() < 0.7 else names)
                                     for _ in range(rng.randint(2, 5 if quick else 9))]
        cases.append(dict(kind="plainz", hist=h, user=(i % 3 == 1), created0=(i % 2 == 1), zkid=(i % 4 >= 2)))
    # every operation once after every starter, with and without a user's entry
    for s in starters:
        for n in names:
            for user in (False, True):
                cases.append(dict(kind="each", hist=[s, n], user=user, created0=not user))
    for ni, n in enumerate(znames):
        sts = zstarters if not quick else [[], zstarters[1 + ni % 3]]
        for si, s in enumerate(sts):
            for user in (False, True):
                cases.append(dict(kind="eachz", hist=s + [n], user=user, created0=not user,
                                  zkid=((si + ni) % 2 == 0) == user))
    # __post_copy__ raising at its k-th call
    for i in range(40 if quick else 300):
        h = [rng.choice(starters)] + [rng.choice(names) for _ in range(rng.randint(1, 3))]
        j = rng.randrange(len(h))
        cases.append(dict(kind="boom", hist=h, user=(i % 4 == 3), created0=(i % 2 == 1), boom=(j, rng.randint(1, 4))))
    for i in range(40 if quick else 300):
        h = rng.choice(zstarters) + [rng.choice(znames) for _ in range(rng.randint(1, 3))]
        j = rng.randrange(len(h))
        cases.append(dict(kind="boomz", hist=h, user=(i % 4 == 1), created0=(i % 2 == 0), boom=(j, rng.randint(1, 3)),
                          zkid=(i % 3 == 0)))
    # an attribute value of a spec instance raises in __deepcopy__ (1st .. 4th Flaky copy of the operation):
    # every copying operation, after every starter (the fallback instance and new_flaky hold Flaky values)
    copying = ["with_tag", "with_kid", "with_mod", "with_extra", "with_flaky", "update", "update_extra",
               "transform_tag", "reset_kids", "reset_mods", "reset_extra", "deepcopy_1", "deepcopy_2", "deepcopy_3",
               "deepcopy_dict", "deepcopy_inst", "protect_list", "new_flaky"]
    i = 0
    for op in copying:
        for k in (1, 2) if quick else (1, 2, 3, 4):
            for start in (["new_flaky"], []) if quick else (["new_flaky"], [], ["new_flaky", "with_flaky"]):
                i += 1
                h = start + [op, "deepcopy_inst"]
                cases.append(dict(kind="flaky", hist=h, user=(i % 5 == 4), created0=(i % 2 == 1),
                                  flaky=(len(start), k)))
    # the same for the Zoo operations: the raising values sit in plain containers / plain objects / a spec instance
    # with its own __deepcopy__, so the abort happens inside the copy made by each entry point itself
    for op in ZOO_COPYING:
        for k in (1, 2) if quick else (1, 2, 3, 4, 5):
            for start in ([], ["zk_new"]) if quick else ([], ["z_new"], ["zk_new", "z_with_extra"]):
                i += 1
                cases.append(dict(kind="flakyz", hist=start + [op, "z_deepcopy"], user=(i % 5 == 3),
                                  created0=(i % 2 == 0), flaky=(len(start), k), zkid=(i % 3 == 1)))
    return cases


def gen_injection_cases(rng, tier):
    quick = tier == "quick"
    stride = 3 if quick else 1
    hists = [
        (["new_kids", "with_tag", "deepcopy_1"], 1, False, False),
        (["new_kids", "deepcopy_2", "with_tag"], 0, False, True),
        (["new_default", "deepcopy_3", "deepcopy_inst"], 1, True, True),
        (["new_deep", "with_kid", "with_tag"], 1, False, True),
        (["new_kids", "reset_kids", "deepcopy_1"], 1, False, False),
        (["new_default", "protect_list", "protect_list"], 1, False, False),
    ]
    if not quick:
        hists += [
            (["new_deep", "deepcopy_3b", "with_tag"], 1, False, True),
            (["new_kids", "with_extra", "deepcopy_inst"], 2, False, True),
            (["new_kids", "with_mod", "update"], 1, True, True),
            (["new_default", "with_tag", "with_tag"], 0, False, False),
            (["new_kids", "transform_tag", "reset_mods"], 1, False, True),
        ]
    hists += [
        (["z_transform_extra", "z_update_one_attr"], 0, False, False),
    ]
    if not quick:
        hists += [
            (["zk_new", "z_with_cust_attr"], 1, False, True),
            (["z_transform_table", "z_update_extra_same", "z_alias_read"], 1, True, True),
            (["z_new", "z_with_plist", "z_deepcopy"], 1, False, False),
            (["z_new_default", "zk_new", "z_reset_all"], 1, False, True),
            (["z_with_mod", "z_transform_one_attr", "z_transform_any"], 1, False, False),
        ]
    cases = []
    for hist, j, user, created0 in hists:
        run_history(hist, user, created0)          # warm-up: first executions fill the library's caches
        dry = run_history(hist, user, created0)
        n = dry["nlines"][j]
        off = rng.randrange(stride)
        for k in range(1 + off, n + 1, stride):
            cases.append(dict(kind="inject", hist=hist, user=user, created0=created0, inject=(j, k)))
    return cases


# ------------------------------------------------------------------ concurrent runs
def conc_values(name):
    Leaf = lambda **k: raw("Leaf", **k)     # noqa: E731
    Node = lambda **k: raw("Node", **k)     # noqa: E731
    if name == "flat":
        return lambda: ("protect", [Probe(sys), os])
    if name == "flat2":
        return lambda: ("protect", [Probe(os), [sys, Probe(sys)]])
    if name == "nested":
        return lambda: ("protect", [Node(kids=[Leaf(ms=[Probe(sys)])]), sys])
    if name == "inst":
        return lambda: ("deepcopy", Node(kids=[Leaf(ms=[sys, Probe(os)])], extra=[Probe(sys)]))
    if name == "boom":
        return lambda: ("protect", [Probe(sys), Probe(sys, boom=True), Probe(sys)])
    if name == "tiny":
        return lambda: ("protect", [sys])
    if name == "sub_new":        # constructor of a plain subclass whose overridden defaults hold modules
        return lambda: ("call", lambda: (CLS["Sub1"](), CLS["Sub2"]()), lambda r: all(sub_defaults_ok(o) for o in r))
    if name == "sub_reset":
        def mk():
            o = raw("Sub2", mods=[], extra=None, table={}, kids=[])
            return ("call", lambda: o.reset_mods().reset_extra().reset_table().reset_kids(), sub_defaults_ok)
        return mk
    if name == "sub_del":
        def mk():
            o = raw("Sub1", mods=[], extra=None, table={})

            def run():
                del o.mods
                del o.extra
                o.reset_table(_inplace=True)
                return o
            return ("call", run, sub_defaults_ok)
        return mk
    # helpers and constructors whose value holds its modules in plain containers / plain objects (every copy is made
    # by the entry point itself, not by a spec instance's __deepcopy__)
    if name == "zoo_transform":
        def mk():
            o = raw("Zoo", extra=[Probe(sys), {"k": os}])
            return ("call", lambda: o.transform_extra(_bump),
                    lambda r: r is not o and len(o.extra) == 2 and r.extra[-1] is sys and same_copy(o.extra, r.extra[:-1]))
        return mk
    if name == "zoo_update":
        def mk():
            o = raw("Zoo", one=raw("Cust", m=[Probe(sys), (os,)]), hold=Holder(sys, inner=[json]))
            return ("call", lambda: o.update_one(n=3).update_hold(MISSING_),
                    lambda r: r is not o and r.one.n == 3 and o.one.n == 0 and same_copy(o.one.m, r.one.m)
                    and same_copy(o.hold, r.hold) and r.hold is not o.hold)
        return mk
    if name == "zoo_elem":
        def mk():
            import math
            o = raw("Zoo", mods=[sys, os], custs=[raw("Cust", m=[Probe(os)])])
            return ("call", lambda: o.with_mod(math).transform_cust(0, n=lambda n: n + 1),
                    lambda r: r is not o and same_copy([sys, os, math], r.mods) and len(o.mods) == 2
                    and r.custs[0].n == 1 and same_copy(o.custs[0].m, r.custs[0].m))
        return mk
    if name == "zoo_kid_new":
        def mk():
            vals = dict(extra=[Probe(sys), (os,)], own=[json, [sys]], plist=MList([os]))
            return ("call", lambda: CLS["ZooKid"](**vals),
                    lambda r: all(same_copy(v, getattr(r, a)) for a, v in vals.items()) and same_copy([sys], r.mods))
        return mk
    if name == "zoo_alias":
        def mk():
            o = raw("Zoo", extra=[Probe(sys)])
            return ("call", lambda: (o.al, o.transform_al(_bump)),
                    lambda r: same_copy(ZOO_FALLBACK[0], r[0]) and r[0] is not ZOO_FALLBACK[0]
                    and same_copy(o.extra, r[1].extra))
        return mk
    if name == "flaky":      # copy of a spec instance aborted half way: an attribute value raises
        return lambda: ("deepcopy", Node(kids=[Leaf(ms=[Probe(sys)])], extra=[Probe(os), Flaky(always=True)],
                                         table={"a": Leaf(ms=[sys])}))
    if name == "flaky_in_list":
        return lambda: ("deepcopy", [{"k": Node(kids=[Leaf(ms=[Probe(sys), Flaky(always=True)])])}])
    raise AssertionError(name)


CUR_SCHED = [None]


def lock_of(pos):
    pc = pc_of(pos)
    if pc == 1:
        lk = MC.__dict__.get("__instance_lock__")
        if lk is None:
            return None

        def held_by_other(ident):
            # a plain Lock does not tell its owner: it is held by another thread iff it is
            # locked and some other thread is known to be between the two `with` lines of __new__
            if not lk.locked():
                return False
            return any(w.ident != ident and w.state != "finished" and w.pos[0] == "__new__"
                       and 2 <= pc_of(w.pos) <= 8 for w in CUR_SCHED[0].workers)
        return held_by_other
    if pc in (10, 17):
        inst = instance()
        lk = getattr(inst, "lock", None)
        return (lambda ident: c20_sched.rlock_held_by_other(lk, ident)) if lk is not None else None
    return None


def targets():
    t = set()
    for nm in ("__new__", "__enter__", "__exit__"):
        t.add(orig_fn(nm).__code__)
    t.add(Probe.__deepcopy__.__code__)
    return t


def thread_code(w, sched):
    ident = w.ident
    if w.state == "finished":
        pos = 31
    elif w.pos[0] == "__deepcopy__":
        pos = 30
    elif w.pos[0] in PC_TEXT:
        pos = pc_of(w.pos)
    else:
        pos = 32
    depth = LOG.get_depth(ident)
    status = 2 if depth > 0 else (1 if (pos <= 28 or pos == UNKNOWN_PC) else 0)
    return pos * 4 + status


def run_schedule(names, user, created0, choose):
    """choose(step index, current, runnable, live) -> thread to wake.  Returns a record."""
    try:
        return _run_schedule(names, user, created0, choose)
    except BaseException as e:  # noqa: a run the harness could not complete is an incomplete run (oracle fails)
        if isinstance(e, (KeyboardInterrupt, SystemExit)):
            raise
        sys.settrace(None)
        n = len(names)
        return dict(names=names, user=user, created0=created0, sched=[], seen=[], completed=False,
                    note=f"run aborted: {type(e).__name__}: {e}"[:300], outs=[[1, 0]] * n, planned=[False] * n,
                    plainfail=not user,
                    progs=[[] for _ in range(n)], errors=[repr(e)])


def _run_schedule(names, user, created0, choose):
    makers = [conc_values(n) for n in names]
    inputs = [mk() for mk in makers]       # building the inputs copies too: do it before the initial condition is set
    results = [None] * len(names)
    reset_process_state(user, created0)
    LOG.clear()

    def fn(i):
        def run():
            how, v = inputs[i][0], inputs[i][1]
            if how == "call":
                r = v()
            else:
                r = mutation.protect_via_deepcopy(v) if how == "protect" else copy.deepcopy(v)
            results[i] = r
            return r
        return run

    def call_hook(code):
        if code.co_name == "<lambda>" and code.co_filename == MUT_FILE:
            LOG.add("use")

    S = c20_sched.Scheduler([fn(i) for i in range(len(names))], targets(), lock_of, call_hook=call_hook)
    CUR_SCHED[0] = S
    sched, seen, completed, note = [], [], True, None
    try:
        S.start()
        cur, n = 0, 0
        while S.live():
            runnable = S.runnable()
            if not runnable:
                late = S.settle(0.2)
                if late:
                    shared = obs_shared()
                    for t in late:
                        sched.append((t, False))
                        seen.append(shared + [thread_code(w, S) for w in S.workers])
                    continue
                completed, note = False, "deadlock: every live thread is blocked"
                break
            cur = choose(n, cur, runnable, S.live())
            if cur not in runnable:
                cur = runnable[0]
            prev = [thread_code(w, S) for w in S.workers]
            recs = S.step(cur)
            n += 1
            shared = obs_shared()
            now = [thread_code(w, S) for w in S.workers]
            # attribute position changes to the records in order
            state = prev[:]
            for (t, blocked) in recs:
                if not blocked:
                    state[t] = now[t]
                sched.append((t, blocked))
                seen.append(shared + state[:])
            if n > 4000:
                completed, note = False, "step limit"
                break
    except c20_sched.Stuck as e:
        completed, note = False, f"stuck: {e}"
    if not completed:
        S.abandon()
    S.join()
    outs, planned = [], []
    for i, w in enumerate(S.workers):
        raised = w.exc is not None
        ok = (not raised) and w.state == "finished" and \
            (inputs[i][2](results[i]) if inputs[i][0] == "call" else same_copy(inputs[i][1], results[i]))
        outs.append([int(raised), int(ok)])
        planned.append(isinstance(w.exc, (Boom, FlakyErr)))
    progs = []
    for w in S.workers:
        items, _ = reconstruct(LOG.events(w.ident), raised_flags=(w.exc is not None))
        if w.exc is not None:
            items = items + [("raise",)]
        progs.append(items)
    return dict(names=names, user=user, created0=created0, sched=sched, seen=seen, completed=completed,
                note=note, outs=outs, planned=planned, progs=progs,
                plainfail=plain_copy_fails() if completed else (not user),
                errors=[repr(w.exc) for w in S.workers if w.exc is not None and not isinstance(w.exc, (Boom, FlakyErr))]
                + [repr(w.exc) for w in S.workers if isinstance(w.exc, (Boom, FlakyErr))])


def conc_case_term(r):
    return (f"mkconc {cbool(r['user'])} {cbool(r['created0'])} "
            f"{clist(r['progs'], lambda p: clist(p, c_item))} {clist(r['planned'], cbool)} "
            f"{clist(r['sched'], lambda s: f'({s[0]}%nat, {cbool(s[1])})')} {cbool(r['completed'])} "
            f"{cbool(r.get('plainfail', not r['user']))} "
            f"{clist(r['seen'], czlist)} {clist(r['outs'], czlist)}")


def preempt_chooser(preempts, nthreads):
    """default: keep running the current thread; at decision n in preempts switch to
    the (o+1)-th other thread"""
    def choose(n, cur, runnable, live):
        if n in preempts:
            t = (cur + 1 + preempts[n]) % nthreads
            if t in runnable:
                return t
        return cur if cur in runnable else runnable[0]
    return choose


def yield_chooser(switches, nthreads):
    """pre-empt only when the running thread is parked inside a Probe copy (it is in the middle of a body) or
    has just finished: at the k-th such occasion (k in switches) switch to the (o+1)-th other thread"""
    occ = [0]

    def choose(n, cur, runnable, live):
        if cur not in runnable:
            return runnable[0]
        w = CUR_SCHED[0].workers[cur]
        if w.pos[0] == "__deepcopy__":
            k = occ[0]
            occ[0] += 1
            if k in switches:
                t = (cur + 1 + switches[k]) % nthreads
                if t in runnable:
                    return t
        return cur
    return choose


def enumerate_yield_schedules(names, user, created0, max_switches, max_occ=8):
    """every schedule that switches threads only at Probe copies, at most max_switches times"""
    nt = len(names)
    singles = [(k, o) for k in range(max_occ) for o in range(nt - 1)]
    plans = [{}]
    for m in range(1, max_switches + 1):
        plans += [dict(c) for c in itertools.combinations(singles, m) if len({x[0] for x in c}) == m]
    runs, keys = [], set()
    for pl in plans:
        for first in range(nt):
            r = run_schedule(names[first:] + names[:first], user, created0, yield_chooser(pl, nt))
            key = (first, tuple(r["sched"]))
            if key in keys:
                continue
            keys.add(key)
            r["plan"] = ["switch at Probe copies", sorted(pl.items()), "rotation", first]
            runs.append(r)
    return runs, len(plans) * nt


def random_chooser(rng, p_switch):
    def choose(n, cur, runnable, live):
        if cur not in runnable or rng.random() < p_switch:
            return rng.choice(runnable)
        return cur
    return choose


def enumerate_schedules(names, user, created0, max_pre, rng, budget, stride2=1):
    """all schedules with <= max_pre pre-emptions (pairs sampled with stride2), deduplicated"""
    nt = len(names)
    base = run_schedule(names, user, created0, preempt_chooser({}, nt))
    runs, seen_keys = [base], {tuple(base["sched"])}
    n0 = len([s for s in base["sched"]]) + 4
    singles = [(n, o) for n in range(n0) for o in range(nt - 1)]
    plans = [dict([s]) for s in singles]
    if max_pre >= 2:
        pairs = [(a, b) for a, b in itertools.combinations(singles, 2) if a[0] < b[0]]
        if stride2 > 1:
            off = rng.randrange(stride2)
            pairs = pairs[off::stride2]
        plans += [dict(p) for p in pairs]
    t0 = time.time()
    done = 0
    for pl in plans:
        if time.time() - t0 > budget:
            break
        done += 1
        r = run_schedule(names, user, created0, preempt_chooser(pl, nt))
        k = tuple(r["sched"])
        if k in seen_keys:
            continue
        seen_keys.add(k)
        r["plan"] = sorted(pl.items())
        runs.append(r)
    return runs, (len(plans), done)


# ------------------------------------------------------------------ check
def eval_seq(cases, tag="s"):
    """cases: list of dict with 'term'.  returns [(index, code)], logs"""
    return coq_eval("C20", PRELUDE, "check_seq", [c["term"] for c in cases], shard=150, tag=tag,
                    case_type="seq_case")


def eval_conc(runs, tag="c"):
    return coq_eval("C20", PRELUDE, "check_conc", [conc_case_term(r) for r in runs], shard=60, tag=tag,
                    case_type="conc_case")


def with_line(lineno):
    import linecache
    return linecache.getline(MUT_FILE, lineno).strip().startswith("with ")


def run_seq_case(c):
    res = run_history(c["hist"], c["user"], c["created0"], inject=c.get("inject"), boom=c.get("boom"),
                      flaky=c.get("flaky"), zkid=bool(c.get("zkid")))
    term, prog, trace = seq_case_term(c["user"], c["created0"], res["events"], res["planned"])
    c = dict(c, term=term, prog=prog, trace=trace, planned=res["planned"], fired=res["fired"], nlines=res["nlines"],
             errors=res["errors"])
    pc = None
    if res["fired"] is not None and res["fired"][3] == MUT_FILE and res["fired"][0] in PC_TEXT:
        pc = pc_of(res["fired"][:3])
    f = res["fired"]
    if any(e[0] == "exit_skipped" for e in res["events"]) and f is not None and f[3] == MUT_FILE \
            and f[0] == "protect_via_deepcopy" and f[2] >= 2 and with_line(f[1]):
        # exception injected at the `with` line of protect_via_deepcopy while LEAVING the block: CPython does
        # not call __exit__ (same effect as an exception at its first line).  An __exit__ skipped for any
        # other reason (library code that enters without a with/finally) is a violation like any other.
        pc = 17
    c["abort_pc"] = pc
    return c


def shrink_seq(c):
    """drop operations while the same code is produced"""
    code0 = c["code"]
    cur = c
    for _ in range(8):
        improved = False
        for j in range(len(cur["hist"]) - 1, 0, -1):
            if any(cur.get(key) and cur[key][0] == j for key in ("inject", "boom", "flaky")):
                continue
            h = cur["hist"][:j] + cur["hist"][j + 1:]
            cand = dict(cur, hist=h)
            for key in ("inject", "boom", "flaky"):
                if cand.get(key) and cand[key][0] > j:
                    cand[key] = (cand[key][0] - 1, cand[key][1])
            cand = run_seq_case(cand)
            bad, _ = eval_seq([cand], tag="sh")
            if bad and bad[0][1] == code0:
                cur = dict(cand, code=code0)
                improved = True
                break
        if not improved:
            break
    return cur


def describe_seq(c):
    return {"kind": "seq", "hist": c["hist"], "user": c["user"], "created0": c["created0"],
            "inject": c.get("inject"), "boom": c.get("boom"), "flaky": c.get("flaky"), "zkid": bool(c.get("zkid")),
            "fired": c.get("fired"),
            "abort_pc": c.get("abort_pc"), "planned": c.get("planned"),
            "outcome_per_operation": c.get("errors"),
            "unplanned_exceptions": [e for e, p in zip(c.get("errors") or [], c.get("planned") or []) if e and not p],
            "program": [c_item(i) for i in c.get("prog", [])], "observed": c.get("trace"), "code": c.get("code"),
            "meaning": {1: "model and implementation differ; the observations satisfy the property",
                        2: "the implementation's observations violate the property (table not restored at a quiescent point / entry missing inside a copy / a copy raised)"}.get(c.get("code")),
            "event_encoding": "[kind, refcount, patched, entry(0 none,1 library,2 user), singleton exists, (raised)]; kind 0 op end, 1 entered, 2 exited, 3 exception out of __new__/__enter__, 4 module copied, 5 exception out of __exit__",
            "replay": "bin/check C20 --replay <this file>"}


def describe_conc(r, code):
    return {"kind": "conc", "names": r["names"], "user": r["user"], "created0": r["created0"],
            "sched": r["sched"], "plan": r.get("plan"), "completed": r["completed"], "note": r["note"],
            "outs": r["outs"], "errors": r["errors"], "observed": r["seen"], "code": code,
            "programs": [[c_item(i) for i in p] for p in r["progs"]],
            "vector_encoding": "[refcount, patched, entry, singleton exists, per thread: position*4+status]; position = protocol line id of the model (0-22), 30 Probe, 31 finished; status 0 outside, 1 in transit, 2 inside",
            "replay": "bin/check C20 --replay <this file>"}


def replay_conc(r):
    """re-run the recorded schedule (thread woken per step)"""
    order = [t for t, blocked in r["sched"]]
    it = iter(order)

    def choose(n, cur, runnable, live):
        for t in it:
            if t in runnable:
                return t
        return runnable[0]
    return run_schedule(r["names"], r["user"], r["created0"], choose)


def load_corpus():
    d = os.path.join(os.path.dirname(os.path.dirname(os.path.abspath(__file__))), "corpus", "C20")
    out = []
    if os.path.isdir(d):
        for f in sorted(os.listdir(d)):
            if f.endswith(".json"):
                r = json.load(open(os.path.join(d, f)))
                if r.get("kind") == "seq":
                    out.append(dict(kind="corpus", hist=r["hist"], user=r["user"], created0=r["created0"],
                                    inject=tuple(r["inject"]) if r.get("inject") else None,
                                    boom=tuple(r["boom"]) if r.get("boom") else None,
                                    flaky=tuple(r["flaky"]) if r.get("flaky") else None, zkid=bool(r.get("zkid"))))
    return out


def setup():
    global LINE_MAP
    install_wrappers()
    LINE_MAP = build_line_map()
    if not CLS:
        CLS["Leaf"], CLS["Node"] = make_classes()
        make_subclasses()
        make_zoo()
    sys.setswitchinterval(1e-4)


def main(tier, replay=None):
    chk = Check("C20", tier)
    setup()
    if replay:
        r = json.load(open(replay))
        if r.get("kind") == "seq":
            c = run_seq_case(dict(hist=r["hist"], user=r["user"], created0=r["created0"],
                                  inject=tuple(r["inject"]) if r.get("inject") else None,
                                  boom=tuple(r["boom"]) if r.get("boom") else None,
                                  flaky=tuple(r["flaky"]) if r.get("flaky") else None, zkid=bool(r.get("zkid"))))
            bad, logs = eval_seq([c], tag="r")
            print("replay:", "still failing code=%s" % bad[0][1] if bad else "passes now", logs)
            print("observed now:", c["trace"])
            return 1 if bad else 0
        if r.get("kind") == "conc":
            rr = replay_conc(r)
            bad, logs = eval_conc([rr], tag="r")
            print("replay:", "still failing code=%s" % bad[0][1] if bad else "passes now", logs, rr["note"], rr["errors"])
            return 1 if bad else 0
        print("replay: nothing to execute for", r.get("kind"))
        return 1
    chk.proofs()
    quick = tier == "quick"
    rng = chk.rng
    timings = {}

    # ---------------- sequential
    t0 = time.time()
    specs = load_corpus() + gen_seq_cases(rng, tier) + gen_injection_cases(rng, tier)
    seq = []
    for c in specs:
        try:
            seq.append(run_seq_case(c))
        except BaseException as e:  # noqa: nothing the implementation does may stop the check
            if isinstance(e, (KeyboardInterrupt, SystemExit)):
                raise
            sys.settrace(None)
            chk.violation(f"exception outside every observed operation while running history={c['hist']}: "
                          f"{type(e).__name__}: {e}"[:300],
                          {"kind": "seq", "hist": c["hist"], "user": c["user"], "created0": c["created0"],
                           "inject": c.get("inject"), "boom": c.get("boom"), "flaky": c.get("flaky"),
                           "zkid": bool(c.get("zkid")), "error": repr(e)},
                          sig={"kind": "seq-crash"}, no_input=False)
    timings["seq_run_s"] = round(time.time() - t0, 1)
    t0 = time.time()
    bad, logs = eval_seq(seq)
    timings["seq_coq_s"] = round(time.time() - t0, 1)
    for lg in logs:
        chk.violation("correspondence evaluation failed: " + lg[-500:], {"kind": "coq-eval", "log": lg}, no_input=True)
    reported = set()

    def is_unsafe(c):
        return c["abort_pc"] is not None and c["abort_pc"] not in SAFE_ABORT_IDS

    KNOWN_SIG = {"abort_inside_protocol": "after-first-write"}
    for i, code in bad:
        if code == 2 and is_unsafe(seq[i]):
            c = dict(seq[i], code=code)
            chk.violation(f"exception injected at protocol line {c['abort_pc']} of _modules_copyable leaves the "
                          f"count/table changed: history={c['hist']} inject={c.get('inject')}",
                          describe_seq(c), sig=KNOWN_SIG, no_input=False)
    others = [(i, code) for i, code in bad if not (code == 2 and is_unsafe(seq[i]))]
    for i, code in sorted(others, key=lambda b: (-b[1], len(seq[b[0]]["hist"])))[:60]:
        c = dict(seq[i], code=code)
        key = (c["kind"], code, tuple(c["hist"][-2:]), c["abort_pc"])
        if key in reported:
            continue
        reported.add(key)
        small = shrink_seq(c)
        unplanned = [e for e, pl in zip(small.get("errors") or [], small.get("planned") or []) if e and not pl]
        what = (f"{'property violated' if code == 2 else 'model and implementation differ'}: history={small['hist']} "
                f"user_entry={small['user']} inject={small.get('inject')} boom={small.get('boom')} "
                f"flaky_value={small.get('flaky')}"
                + (f" exception escaped from the library: {unplanned[0]}" if unplanned else ""))
        chk.violation(what, describe_seq(small), sig={"kind": "seq", "abort_pc": small.get("abort_pc")},
                      no_input=(code != 2))
    # all unsafe-abort cases with code 2 (beyond the first 60) belong to the known finding too; does the model predict them?
    unsafe_bad = [seq[i] for i, code in bad if code == 2 and seq[i]["abort_pc"] is not None
                  and seq[i]["abort_pc"] not in SAFE_ABORT_IDS]
    model_pred = None
    if unsafe_bad:
        mb, ml = coq_eval("C20", PRELUDE, "check_seq_model", [c["term"] for c in unsafe_bad], shard=150, tag="k",
                          case_type="seq_case")
        model_pred = {"cases": len(unsafe_bad), "model_agrees": len(unsafe_bad) - len(mb)}
        for j, _ in mb[:3]:
            c = dict(unsafe_bad[j], code=1)
            chk.violation("model and implementation differ on a run with an exception inside the protocol: "
                          f"history={c['hist']} inject={c.get('inject')}", describe_seq(c), no_input=True)

    # ---------------- concurrent
    t0 = time.time()
    runs, planned_total = [], 0
    conf = []
    if quick:
        conf = [(["flat", "flat"], False, False, 2, 1, 40), (["nested", "flat"], False, True, 2, 12, 25),
                (["flat2", "tiny"], True, False, 1, 1, 10), (["boom", "flat"], False, False, 1, 1, 10),
                (["flaky", "flat"], False, False, 1, 1, 12), (["sub_new", "flat"], False, False, 1, 1, 12),
                (["zoo_transform", "flat"], False, False, 1, 1, 12)]
    else:
        conf = [(["flat", "flat"], False, False, 2, 1, 150), (["nested", "flat"], False, True, 2, 1, 240),
                (["inst", "flat2"], False, False, 2, 2, 200), (["flat2", "tiny"], True, False, 2, 1, 60),
                (["boom", "flat"], False, False, 2, 1, 90), (["boom", "nested"], False, True, 1, 1, 30),
                (["flat", "flat", "flat"], False, False, 2, 2, 300), (["tiny", "nested", "flat"], False, True, 2, 12, 200),
                (["flat", "tiny", "boom"], True, False, 2, 4, 60), (["flaky", "flat"], False, False, 2, 2, 120),
                (["flat", "inst"], False, True, 2, 3, 120),
                (["sub_new", "flat"], False, False, 2, 3, 120), (["sub_reset", "sub_del", "flat"], False, True, 1, 1, 60),
                (["zoo_transform", "flat"], False, False, 2, 3, 120), (["zoo_update", "zoo_elem"], False, True, 1, 1, 60),
                (["zoo_kid_new", "zoo_alias", "flat"], True, False, 1, 1, 60)]
    enum_stats = []
    for names, user, created0, max_pre, stride2, budget in conf:
        rs, nplans = enumerate_schedules(names, user, created0, max_pre, rng, budget, stride2)
        runs += rs
        enum_stats.append({"threads": names, "user_entry": user, "singleton_exists": created0,
                           "max_preemptions": max_pre, "pair_stride": stride2, "plans": nplans[0],
                           "plans_run_within_time_budget": nplans[1],
                           "distinct_schedules": len(rs)})
    yconf = [(["flat", "sub_new"], False, True, 2), (["flat2", "sub_reset"], False, False, 2),
             (["flat", "sub_del"], True, True, 1),
             (["flat", "inst"], False, True, 3), (["flat", "flaky"], False, False, 2),
             (["flaky_in_list", "flat2"], False, True, 2), (["flat", "inst"], True, False, 2),
             (["flat", "zoo_transform"], False, True, 2), (["zoo_update", "flat2"], False, False, 1),
             (["zoo_elem", "zoo_alias"], False, True, 1), (["flat", "zoo_kid_new"], True, False, 1)]
    if not quick:
        yconf += [(["zoo_transform", "zoo_update"], False, False, 2), (["zoo_kid_new", "zoo_elem"], False, True, 2),
                  (["nested", "inst"], False, False, 3), (["flaky", "flaky_in_list"], False, True, 3),
                  (["flat", "inst", "flaky"], False, False, 2), (["inst", "inst"], False, True, 3)]
    for names, user, created0, msw in yconf:
        rs, nplans = enumerate_yield_schedules(names, user, created0, msw, max_occ=6 if quick else 8)
        runs += rs
        enum_stats.append({"threads": names, "user_entry": user, "singleton_exists": created0,
                           "switches_only_at_Probe_copies": True, "max_switches": msw, "plans": nplans,
                           "distinct_schedules": len(rs), "thread_order": "every rotation"})
    n_enum = len(runs)
    for i in range(150 if quick else 2500):
        names = rng.choice([["flat", "flat"], ["nested", "flat2"], ["inst", "flat"], ["flat", "tiny", "nested"],
                            ["boom", "flat2"], ["flat2", "flat", "flat"], ["flat", "inst"], ["flaky", "flat2"],
                            ["flaky_in_list", "inst"], ["sub_new", "flat"], ["sub_reset", "sub_del"],
                            ["flat2", "sub_del"], ["zoo_transform", "flat"], ["zoo_update", "zoo_transform"],
                            ["zoo_elem", "flat2"], ["zoo_kid_new", "zoo_alias"], ["zoo_alias", "zoo_update", "flat"]])
        if quick and len(names) > 2:
            names = names[:2]
        r = run_schedule(names, i % 5 == 4, i % 2 == 0, random_chooser(rng, rng.choice([0.1, 0.3, 0.6])))
        runs.append(r)
    timings["conc_run_s"] = round(time.time() - t0, 1)
    t0 = time.time()
    cbad, clogs = eval_conc(runs)
    timings["conc_coq_s"] = round(time.time() - t0, 1)
    for lg in clogs:
        chk.violation("correspondence evaluation failed: " + lg[-500:], {"kind": "coq-eval", "log": lg}, no_input=True)
    creported = set()
    for i, code in sorted(cbad, key=lambda b: (-b[1], len(runs[b[0]]["sched"])))[:40]:
        r = runs[i]
        key = (tuple(r["names"]), code, r["completed"])
        if key in creported:
            continue
        creported.add(key)
        what = (f"{'property violated' if code == 2 else 'model and implementation differ'} under a schedule: "
                f"threads={r['names']} user_entry={r['user']} singleton_exists={r['created0']} steps={len(r['sched'])} "
                f"completed={r['completed']} {r['note'] or ''} outcomes={r['outs']} {r['errors'][:1]}")
        chk.violation(what, describe_conc(r, code), sig={"kind": "conc"}, no_input=(code != 2))

    reset_process_state(False, False)
    if SETUP_ERRORS:
        chk.violation("the singleton's constructor raised while the harness set up a case: " + SETUP_ERRORS[0],
                      {"kind": "setup", "errors": SETUP_ERRORS[:5]}, no_input=True)

    # ---------------- evidence
    op_hist, kinds, depth_hist, abort_hist = {}, {}, {}, {}
    for c in seq:
        kinds[c["kind"]] = kinds.get(c["kind"], 0) + 1
        for o in c["hist"]:
            op_hist[o] = op_hist.get(o, 0) + 1
        d = max_depth(c["prog"])
        depth_hist[d] = depth_hist.get(d, 0) + 1
        if c["kind"] == "inject":
            k = ("protocol line %d" % c["abort_pc"]) if c["abort_pc"] is not None else \
                ("elsewhere in spec_classes" if c["fired"] else "not reached")
            abort_hist[k] = abort_hist.get(k, 0) + 1
    raised_ops = sum(sum(1 for t in c["trace"] if t[0] == 0 and t[-1] == 1) for c in seq)
    events_total = sum(len(c["trace"]) for c in seq)
    nontrivial = len({(tuple(c["hist"]), c["user"], c["created0"], c.get("inject"), c.get("boom")) for c in seq
                      if any(t[0] in (1, 2, 3, 4, 5) for t in c["trace"])}) + \
        len({(tuple(r["names"]), r["user"], r["created0"], tuple(r["sched"])) for r in runs})
    blocked_steps = sum(1 for r in runs for s in r["sched"] if s[1])
    reached = sorted({c // 4 for r in runs for v in r["seen"] for c in v[4:]})
    extra = {
        "evaluations": len(seq) + len(runs),
        "distinct_nontrivial": nontrivial,
        "rule": "sequential case = (history, user entry?, singleton pre-existing?, injection point | raising __post_copy__); counted if it produced at least one enter/exit/use event; concurrent case = (thread programs, user entry?, singleton pre-existing?, executed schedule), deduplicated by executed schedule",
        "samples": [
            {"history": seq[0]["hist"], "program": [c_item(i) for i in seq[0]["prog"]], "observed": seq[0]["trace"][:6]},
            {"history": seq[len(seq) // 2]["hist"], "inject": seq[len(seq) // 2].get("inject"),
             "observed": seq[len(seq) // 2]["trace"][:6]},
            {"threads": runs[len(runs) // 2]["names"], "schedule": runs[len(runs) // 2]["sched"][:30],
             "observed": runs[len(runs) // 2]["seen"][:5]},
        ],
        "correspondence": {
            "sequential": {"cases": len(seq), "events_compared": events_total, "disagreements": len(bad),
                           "by_generator": kinds, "op_histogram": op_hist,
                           "nesting_depth_histogram": {str(k): v for k, v in sorted(depth_hist.items())},
                           "operations_that_raised": raised_ops, "injection_points": abort_hist,
                           "unsafe_protocol_aborts_violating": model_pred},
            "concurrent": {"runs": len(runs), "enumerated": n_enum, "random": len(runs) - n_enum,
                           "steps_compared": sum(len(r["sched"]) for r in runs), "blocked_attempts": blocked_steps,
                           "disagreements": len(cbad), "enumeration": enum_stats,
                           "incomplete_runs": sum(1 for r in runs if not r["completed"]),
                           "thread_positions_reached": reached},
            "line_map": {f"{k[0]}:{k[1]}": v[1] for k, v in sorted(LINE_MAP.items())},
        },
        "timings": timings,
        "exhaustive": False,
    }
    return chk.finish(
        trusted_base=["Coq 8.16.1 kernel and vm_compute", "no axioms (Print Assumptions: closed under the global context)",
                      "hand-written model coq/Conc/ModulesCopyableModel.v tied to /repo by this run's correspondence",
                      "harness/c20.py (wrappers, tracer, event reconstruction, encoders) and harness/c20_sched.py (scheduler)",
                      "CPython: GIL atomicity of one dict get/set/del, correctness of threading.Lock/RLock, with-statement semantics"],
        assumptions=["PARTIAL: threads are pre-empted only between source lines of the context manager (and at Probe copies); pre-emption inside a line is not explored",
                     "RLock/Lock are correct; a single dict operation on copyreg.dispatch_table is atomic",
                     "nobody but the library and the harness' initial registration writes copyreg.dispatch_table[ModuleType] during a run",
                     "an exception raised instead of a line of the context manager's own __enter__ (after the increment) or __exit__ cannot be undone by any Python context manager; such injections are run, compared with the model and attributed to the recorded open finding"],
        extra=extra)
