"""Writes seeded/SUMMARY.md from seeded/*/meta.json and seeded/descriptions.json."""
import glob, json, os
V = os.path.dirname(os.path.dirname(os.path.abspath(__file__)))
def main():
    desc = json.load(open(os.path.join(V, "seeded", "descriptions.json")))
    rows = []
    for f in sorted(glob.glob(os.path.join(V, "seeded", "*", "meta.json"))):
        sid = os.path.basename(os.path.dirname(f))
        m = json.load(open(f))
        d = desc.get(sid, ["", ""])
        m["what_it_breaks"], m["needs_to_manifest"] = d
        json.dump(m, open(f, "w"), indent=1)
        rows.append((sid, m, d))
    out = ["# Seeded changes", "",
           "Each change was written by an independent sub-agent that saw only the property text and a scratch",
           "worktree; `bin/seedtest` confirmed it (clean tree: demo passes; patched tree: 152 tests pass, demo",
           "fails) and ran the registered quick check against the patched tree (`VERIF_REPO=<worktree>`).", "",
           "| id | change | needs to manifest | confirmed | caught by quick check | concrete replays | check s |",
           "|----|--------|-------------------|-----------|-----------------------|------------------|---------|"]
    for sid, m, d in rows:
        out.append(f"| {sid} | {d[0]} | {d[1]} | {'yes' if m.get('confirmed') else 'NO'} | "
                   f"{'yes' if m.get('detected') else '**no**'} | {m.get('violations_with_concrete_replay')} | {m.get('check_wall_s')} |")
    n = len(rows); det = sum(1 for _, m, _ in rows if m.get("detected"))
    out += ["", f"{det} of {n} confirmed changes are caught by the quick tier of the check of the property they break.", ""]
    hist = os.path.join(V, "seeded", "HISTORY.md")
    if os.path.exists(hist):
        out += open(hist).read().split("\n")
    open(os.path.join(V, "seeded", "SUMMARY.md"), "w").write("\n".join(out) + "\n")
if __name__ == "__main__":
    main()
